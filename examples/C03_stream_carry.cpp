// Self-check example for the STREAM-CARRY rule of C03 (parsed on every run; nothing here comes from /repo).
// Lossy::DoInputImplementation must be flagged (content-derived state in a local that dies with the call);
// Careful::DoInputImplementation must not (the state is loaded from and stored back into a member).
struct Source { int Read(char * b, int n); };
struct Lossy
{
   Source _src; int _lines;
   int DoInputImplementation(int maxBytes)
   {
      char buf[256];
      const int n = _src.Read(buf, maxBytes < 256 ? maxBytes : 256);
      bool prevWasCR = false;
      for (int i=0; i<n; i++)
      {
         const char c = buf[i];
         if ((c == '\n')&&(prevWasCR == false)) _lines++;
         prevWasCR = (c == '\r');
      }
      return n;
   }
};
struct Careful
{
   Source _src; int _lines; bool _prevWasCR;
   int DoInputImplementation(int maxBytes)
   {
      char buf[256];
      const int n = _src.Read(buf, maxBytes < 256 ? maxBytes : 256);
      bool prevWasCR = _prevWasCR;
      for (int i=0; i<n; i++)
      {
         const char c = buf[i];
         if ((c == '\n')&&(prevWasCR == false)) _lines++;
         prevWasCR = (c == '\r');
      }
      _prevWasCR = prevWasCR;
      return n;
   }
};
