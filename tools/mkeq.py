#!/usr/bin/env python3
"""mkmut.py PID NAME FILE OLD NEW [FILE OLD NEW ...] : writes equivalents/PID/NAME.patch (a behaviour-preserving edit that must stay silent)."""
import sys, os, difflib
HERE = os.path.dirname(os.path.dirname(os.path.abspath(__file__)))
pid, name = sys.argv[1], sys.argv[2]
rest = sys.argv[3:]
out = ''
while rest:
    fn, old, new = rest[:3]
    rest = rest[3:]
    s = open(os.path.join('/repo', fn)).read()
    if s.count(old) != 1:
        print('ERROR: %r occurs %d times in %s' % (old, s.count(old), fn)); sys.exit(1)
    t = s.replace(old, new)
    out += ''.join(difflib.unified_diff(s.splitlines(True), t.splitlines(True), 'a/' + fn, 'b/' + fn))
d = os.path.join(HERE, 'equivalents', pid)
os.makedirs(d, exist_ok=True)
open(os.path.join(d, name + '.patch'), 'w').write(out)
print('wrote', os.path.join(d, name + '.patch'))
