#!/usr/bin/env python3
"""Regenerates the lists of DESIGN.md sections 9.3 and 9.5 from seeded/*/*/meta.json (between the section headings)."""
import json, glob, os, re
HERE = os.path.dirname(os.path.dirname(os.path.abspath(__file__)))
ms = []
for f in sorted(glob.glob(os.path.join(HERE, 'seeded', '*', '*', 'meta.json'))):
    m = json.load(open(f))
    m['_name'] = os.path.basename(os.path.dirname(f))
    m['_pid'] = os.path.basename(os.path.dirname(os.path.dirname(f)))
    m['_round'] = 5 if m['_name'].startswith('r5-') else 4 if m['_name'].startswith('r4-') else 3 if m['_name'].startswith('r3-') else (2 if m['_name'].startswith('r2-') else 1)
    ms.append(m)
d = open(os.path.join(HERE, 'DESIGN.md')).read()
missed = [m for m in ms if not m.get('caught_by_check')]
n1 = sum(1 for m in missed if m['_round'] == 1)
n2 = sum(1 for m in missed if m['_round'] == 2)
n3 = sum(1 for m in missed if m['_round'] == 3)
n4 = sum(1 for m in missed if m['_round'] == 4)
n5 = sum(1 for m in missed if m['_round'] == 5)
s93 = '### 9.3 Changes that are not caught (%d + %d + %d + %d + %d)\n\n' % (n1, n2, n3, n4, n5)
for m in missed:
    s93 += '* `seeded/%s/%s` — %s\n' % (m['_pid'], m['_name'], re.sub(r'^NOT CAUGHT:\s*', '', m.get('disposition', '')))
s93 += '\n'
a = d.index('### 9.3 Changes that are not caught')
b = d.index('### 9.4 Observations on the unchanged tree')
d = d[:a] + s93 + d[b:]
rows = '| property | round | seeded change (`seeded/<id>/<name>/`) | rule that reports it | outcome |\n|---|---|---|---|---|\n'
for m in ms:
    disp = m.get('disposition', '')
    if not m.get('caught_by_check'):
        out = 'NOT caught'
    elif re.match(r'^caught (at once|by the existing)', disp):
        out = 'caught at once'
    else:
        out = 'caught after strengthening'
    rows += '| %s | %d | %s | %s | %s |\n' % (m['_pid'], m['_round'], m['_name'], m.get('caught_by_rule') or '—', out)
a = d.index('| property | round | seeded change')
b = d.index('\n\n', a) if '\n\n' in d[a:] else len(d)
d = d[:a] + rows + d[b + 1:]
open(os.path.join(HERE, 'DESIGN.md'), 'w').write(d)
import collections
print(collections.Counter((m['_round'], 'NOT' if not m.get('caught_by_check') else ('once' if re.match(r'^caught (at once|by the existing)', m.get('disposition', '')) else 'after')) for m in ms))
