#!/bin/bash
# usage: with_patch.sh <patch-file|-R:commit> <command...>   ({} in the command is replaced by the scratch tree)
# Applies a patch to a scratch copy of /repo's *working tree* (outside /repo and /verif), runs the command, removes the copy.
set -u
P="$1"; shift
T=$(mktemp -d /tmp/msa-mut-XXXXXX)
trap 'rm -rf "$T"' EXIT
rsync -a --exclude _build --exclude html --exclude .git /repo/ "$T/"
if [[ "$P" == -R:* ]]; then
  git -C /repo show "${P#-R:}" | (cd "$T" && patch -R -p1 -s) || { echo "PATCH-FAILED"; exit 3; }
else
  (cd "$T" && patch -p1 -s < "$P") || { echo "PATCH-FAILED"; exit 3; }
fi
CMD=()
for a in "$@"; do CMD+=("${a//\{\}/$T}"); done
"${CMD[@]}"
