#!/bin/bash
# round_try.sh ID... : run the property's check on each /tmp/adv/ID/out/k/patch.diff (scratch copies) and print one line each
for ID in "$@"; do
  for k in 1 2 3; do
    P=${ADV_ROOT:-/tmp/adv}/$ID/out/$k/patch.diff
    [ -f "$P" ] || continue
    OUT=$(TRY_LINES=3 "$(dirname "$0")"/trypatch.sh "$P" "$ID" 2>&1)
    if echo "$OUT" | grep -q "^VIOLATION"; then echo "$ID/$k CAUGHT  $(echo "$OUT" | grep '^  ' | head -1 | cut -c1-170)"; 
    elif echo "$OUT" | grep -q "ANALYSIS-BROKEN\|Traceback"; then echo "$ID/$k BROKEN  $(echo "$OUT" | grep -i 'BROKEN' | head -1 | cut -c1-170)";
    else echo "$ID/$k missed"; fi
  done
done
