#!/usr/bin/env python3
"""selftest.py PID [PID...] : applies every mutants/PID/*.patch to a scratch copy of /repo (outside /repo and /verif),
runs ./check PID --repo <copy> --no-evidence, and requires a VIOLATION (exit 1).  Prints one line per mutant."""
import sys, os, subprocess, glob, tempfile, shutil
from concurrent.futures import ThreadPoolExecutor
HERE = os.path.dirname(os.path.dirname(os.path.abspath(__file__)))

def one(args):
    pid, patch = args
    t = tempfile.mkdtemp(prefix='msa-mut-')
    try:
        subprocess.check_call(['rsync', '-a', '--exclude', '_build', '--exclude', 'html', '--exclude', '.git', '/repo/', t + '/'])
        p = subprocess.run(['patch', '-p1', '-s', '-d', t, '-i', patch], stdout=subprocess.PIPE, stderr=subprocess.STDOUT, text=True)
        if p.returncode != 0:
            return (pid, patch, 'SKIPPED (patch does not apply: /repo changed there)', '')
        env = dict(os.environ)
        env['MSA_OUT_SUFFIX'] = os.path.basename(t)
        r = subprocess.run([os.path.join(HERE, 'check'), pid, '--repo', t, '--no-evidence'], stdout=subprocess.PIPE, stderr=subprocess.STDOUT, text=True, cwd=HERE, env=env)
        lines = [l for l in r.stdout.split('\n') if l.startswith('  ')]
        if '/equivalents/' in patch:
            st = 'SILENT-OK' if r.returncode == 0 else ('FALSE-ALARM' if r.returncode == 1 else 'BROKEN(exit %d)' % r.returncode)
        else:
            st = 'DETECTED' if r.returncode == 1 else ('MISSED' if r.returncode == 0 else 'BROKEN(exit %d)' % r.returncode)
        return (pid, patch, st, (lines[0].strip()[:200] if lines else r.stdout.strip().split('\n')[-1][:200]))
    finally:
        shutil.rmtree(t, ignore_errors=True)

def main():
    jobs = []
    for pid in sys.argv[1:]:
        for patch in sorted(glob.glob(os.path.join(HERE, 'mutants', pid, '*.patch'))):
            jobs.append((pid, patch))
        # behaviour-preserving edits: the check must stay silent on these
        for patch in sorted(glob.glob(os.path.join(HERE, 'equivalents', pid, '*.patch'))):
            jobs.append((pid, patch))
    bad = 0
    with ThreadPoolExecutor(max_workers=6) as ex:
        for (pid, patch, st, msg) in ex.map(one, jobs):
            print('%-5s %-40s %-10s %s' % (pid, os.path.basename(patch), st, msg))
            if not st.startswith('DETECTED') and not st.startswith('SKIPPED') and not st.startswith('SILENT-OK'):
                bad += 1
    print('%d mutants, %d not detected' % (len(jobs), bad))
    return 1 if bad else 0

if __name__ == '__main__':
    sys.exit(main())
