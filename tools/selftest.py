#!/usr/bin/env python3
"""selftest.py PID [PID...] : applies every mutants/PID/*.patch to a scratch copy of /repo (outside /repo and /verif),
runs ./check PID --repo <copy> --no-evidence, and requires a VIOLATION (exit 1).  Prints one line per mutant."""
import sys, os, subprocess, glob, tempfile, shutil, json
from concurrent.futures import ThreadPoolExecutor
HERE = os.path.dirname(os.path.dirname(os.path.abspath(__file__)))

def one(args):
    pid, patch = args
    t = tempfile.mkdtemp(prefix='msa-mut-')
    try:
        subprocess.check_call(['rsync', '-a', '--exclude', '_build', '--exclude', 'html', '--exclude', '.git', '/repo/', t + '/'])
        p = subprocess.run(['patch', '-p1', '-s', '-d', t, '-i', patch], stdout=subprocess.PIPE, stderr=subprocess.STDOUT, text=True)
        if p.returncode != 0:
            return (pid, patch, 'SKIPPED (patch does not apply: /repo changed there)', '')
        env = dict(os.environ)
        env['MSA_OUT_SUFFIX'] = os.path.basename(t)
        r = subprocess.run([os.path.join(HERE, 'check'), pid, '--repo', t, '--no-evidence'], stdout=subprocess.PIPE, stderr=subprocess.STDOUT, text=True, cwd=HERE, env=env)
        if r.returncode == 2 and 'Traceback' in r.stdout:
            # an internal error under heavy parallel load (e.g. an extractor process killed): decide again once, serially
            r = subprocess.run([os.path.join(HERE, 'check'), pid, '--repo', t, '--no-evidence'], stdout=subprocess.PIPE, stderr=subprocess.STDOUT, text=True, cwd=HERE, env=env)
        lines = [l for l in r.stdout.split('\n') if l.startswith('  ')]
        if '/equivalents/' in patch:
            st = 'SILENT-OK' if r.returncode == 0 else ('FALSE-ALARM' if r.returncode == 1 else 'BROKEN(exit %d)' % r.returncode)
        else:
            st = 'DETECTED' if r.returncode == 1 else ('MISSED' if r.returncode == 0 else 'BROKEN(exit %d)' % r.returncode)
        return (pid, patch, st, (lines[0].strip()[:200] if lines else r.stdout.strip().split('\n')[-1][:200]))
    finally:
        shutil.rmtree(t, ignore_errors=True)

def jobs_for(pid):
    jobs = []
    for patch in sorted(glob.glob(os.path.join(HERE, 'mutants', pid, '*.patch'))):
        jobs.append((pid, patch))
    # behaviour-preserving edits: the check must stay silent on these
    for patch in sorted(glob.glob(os.path.join(HERE, 'equivalents', pid, '*.patch'))):
        jobs.append((pid, patch))
    # changes seeded by independent adversaries (see DESIGN.md section 9); only those recorded as caught are required
    for meta in sorted(glob.glob(os.path.join(HERE, 'seeded', pid, '*', 'meta.json'))):
        try:
            m = json.load(open(meta))
        except Exception:
            continue
        patch = os.path.join(os.path.dirname(meta), 'patch.diff')
        # a later fix: commit in /repo can touch the lines of a seeded change; the adversary's patch is kept as the record, the same change on today's code is patch.rebased.diff
        if os.path.exists(os.path.join(os.path.dirname(meta), 'patch.rebased.diff')):
            patch = os.path.join(os.path.dirname(meta), 'patch.rebased.diff')
        if os.path.exists(patch) and m.get('caught_by_check') is True:
            jobs.append((pid, patch))
    return jobs


def run_pid(pid, workers=6):
    """-> list of {patch, status, report}; used by `./check PID --tier thorough`"""
    out = []
    with ThreadPoolExecutor(max_workers=workers) as ex:
        for (p, patch, st, msg) in ex.map(one, jobs_for(pid)):
            out.append({'patch': os.path.relpath(patch, HERE), 'status': st, 'report': msg})
    return out


def main():
    bad = n = 0
    for pid in sys.argv[1:]:
        for r in run_pid(pid):
            n += 1
            print('%-5s %-40s %-10s %s' % (pid, r['patch'].split('/', 2)[-1], r['status'], r['report']))
            if not r['status'].startswith(('DETECTED', 'SKIPPED', 'SILENT-OK')):
                bad += 1
    print('%d mutants, %d not detected' % (n, bad))
    return 1 if bad else 0

if __name__ == '__main__':
    sys.exit(main())
