#!/usr/bin/env python3
"""import_eqv3.py G... : copies the refactoring patches of equivalence round 3 (/tmp/eqv3/<G>/out/<ID>/s<k>/) into equivalents/<ID>/t-<g>-s<k>-<function>-<kind>.patch (+ .json sidecar)"""
import sys, os, json, re, glob, shutil
HERE = os.path.dirname(os.path.dirname(os.path.abspath(__file__)))
for G in sys.argv[1:]:
    for d in sorted(glob.glob('/tmp/eqv3/%s/out/*/s*/' % G)):
        pid = d.rstrip('/').split('/')[-2]
        k = d.rstrip('/').split('/')[-1]
        if not os.path.exists(d + 'patch.diff'):
            continue
        m = json.load(open(d + 'meta.json')) if os.path.exists(d + 'meta.json') else {}
        slug = re.sub(r'[^a-z0-9]+', '-', ('%s-%s' % (m.get('function', ''), m.get('kind', ''))).lower()).strip('-')[:60]
        name = 't-%s-%s-%s' % (G.lower(), k, slug)
        os.makedirs(os.path.join(HERE, 'equivalents', pid), exist_ok=True)
        shutil.copy(d + 'patch.diff', os.path.join(HERE, 'equivalents', pid, name + '.patch'))
        m['origin'] = 'independent sub-agent, equivalence round 3 (target functions of the rules written from the round-3 observations)'
        json.dump(m, open(os.path.join(HERE, 'equivalents', pid, name + '.json'), 'w'), indent=1)
        print(os.path.join('equivalents', pid, name + '.patch'))
