#!/usr/bin/env python3
"""import_eqv3.py G... : copies the refactoring patches of equivalence round 3 (/tmp/eqv3/<G>/out/<ID>/s<k>/) into equivalents/<ID>/t-<g>-s<k>-<function>-<kind>.patch (+ .json sidecar)"""
import sys, os, json, re, glob, shutil
ROOT = os.environ.get('EQV_ROOT', '/tmp/eqv3')
PFX = os.environ.get('EQV_PREFIX', 't')
RND = os.environ.get('EQV_ROUND', '3')
HERE = os.path.dirname(os.path.dirname(os.path.abspath(__file__)))
for G in sys.argv[1:]:
    for d in sorted(glob.glob('%s/%s/out/*/s*/' % (ROOT, G))):
        pid = d.rstrip('/').split('/')[-2]
        k = d.rstrip('/').split('/')[-1]
        if not os.path.exists(d + 'patch.diff'):
            continue
        m = json.load(open(d + 'meta.json')) if os.path.exists(d + 'meta.json') else {}
        slug = re.sub(r'[^a-z0-9]+', '-', ('%s-%s' % (m.get('function', ''), m.get('kind', ''))).lower()).strip('-')[:60]
        name = '%s-%s-%s-%s' % (PFX, G.lower(), k, slug)
        os.makedirs(os.path.join(HERE, 'equivalents', pid), exist_ok=True)
        shutil.copy(d + 'patch.diff', os.path.join(HERE, 'equivalents', pid, name + '.patch'))
        m['origin'] = 'independent sub-agent, equivalence round %s (target functions of the newest rules)' % RND
        json.dump(m, open(os.path.join(HERE, 'equivalents', pid, name + '.json'), 'w'), indent=1)
        print(os.path.join('equivalents', pid, name + '.patch'))
