#!/usr/bin/env python3
"""Regenerates MANIFEST.json from the table below (kept in one place so that it is always valid)."""
import json, os
HERE = os.path.dirname(os.path.dirname(os.path.abspath(__file__)))
TB = ('Trusted base: clang 14 parser/CFG, the slot/family tables frozen in the rule module (each confirmed by reading), libc/zlib/glibc-regex semantics, '
      'and that the analysed configuration (gnu++11, zlib on, no exceptions, NDEBUG, little-endian) is the shipped one. No /repo code is executed.')
CLAIMS = {}
NA = {}
exec(open(os.path.join(HERE, 'tools', 'claims.py')).read())
checks = []
for pid in sorted(CLAIMS):
    c = CLAIMS[pid]
    checks.append({
        'property_id': pid,
        'quick_cmd': './check %s --tier quick' % pid,
        'thorough_cmd': './check %s --tier thorough' % pid,
        'evidence_file': 'evidence/%s.json' % pid,
        'replay_cmd_template': './check %s --tier quick --explain {path}' % pid,
        'engine': 'msa',
        'level_claimed': {'category': 'other', 'text': c['text'], 'design_ref': c.get('ref', 'DESIGN.md section 4 (%s)' % pid)},
        'level_note': c.get('note', '') + ' ' + TB,
        'technique': c['technique'],
    })
m = {
    'version': 1,
    'setup_cmd': './setup.sh',
    'hooks': {'guard': 'MUSCLE_VERIF_SA', 'enable': 'no hook is needed: the rules read the unmodified sources and force template instantiation from a unit under /verif; the guard name is reserved and guards no code',
              'baseline_off_cmd': 'cmake --build /repo/_build -j16 && ctest --test-dir /repo/_build -j8 --timeout 900', 'source_commits': [], 'add_only': True},
    'engines': [{'name': 'msa', 'path': 'engine/extract.cc + msa/*.py + rules/*.py', 'serves_properties': sorted(CLAIMS),
                 'kind_free_text': 'static analysis: libTooling fact extractor (resolved AST + clang CFG per function, incl. template instantiations) and repository-specific rule engines in Python (CFG dominance, call-graph reachability, taint->sink guard dominance, effect evaluation, lock sets, pairing/ordering, table agreement)'}],
    'checks': checks,
    'not_applicable': [{'property_id': k, 'reason': v} for k, v in sorted(NA.items())],
    'notes': 'exit 0 = all obligations discharged (KNOWN-FINDING lines for listed findings), 1 = VIOLATION, 2 = analysis broken (unit failed to parse, anchor vanished, instance floor not met). See DESIGN.md.',
}
json.dump(m, open(os.path.join(HERE, 'MANIFEST.json'), 'w'), indent=1)
print('MANIFEST.json: %d checks, %d not_applicable' % (len(checks), len(NA)))
