#!/usr/bin/env python3
"""store_seeded.py ID k NAME caught|missed RULE "note": keep a confirmed adversarial change under /verif/seeded/ID/NAME/ (patch.diff, demo/, meta.json)."""
import sys, os, json, shutil, stat
ID, k, name, caught, rule, note = sys.argv[1:7]
ROOT = os.environ.get('ADV_ROOT', '/tmp/adv')
ROUND = os.environ.get('ADV_ROUND', '1')
src = '%s/%s/out/%s' % (ROOT, ID, k)
dst = '/verif/seeded/%s/%s' % (ID, name)
os.makedirs(dst + '/demo', exist_ok=True)
shutil.copy(src + '/patch.diff', dst + '/patch.diff')
for fn in sorted(os.listdir(src + '/demo')):
    p = os.path.join(src, 'demo', fn)
    st = os.stat(p)
    if os.path.isfile(p) and st.st_size < 200000 and not (st.st_mode & stat.S_IXUSR and not fn.endswith('.sh')) and not fn.endswith(('.a', '.o')):
        shutil.copy(p, dst + '/demo/' + fn)
m = json.load(open(src + '/meta.json'))
c = json.load(open(src + '/confirm.json')) if os.path.exists(src + '/confirm.json') else {}
m['origin'] = 'independent sub-agent given only the property text and a scratch worktree (adversarial round %s)' % ROUND
m['confirmed'] = {k2: c.get(k2) for k2 in ('applies', 'builds', 'tests', 'tests_pass', 'tests_pass_after_rerun', 'demo_changed_rc', 'demo_unchanged_rc', 'confirmed') if k2 in c}
m['caught_by_check'] = (caught == 'caught')
m['caught_by_rule'] = rule if caught == 'caught' else None
m['disposition'] = note
if 'demo_cmd' in m:
    m['demo_cmd'] = m['demo_cmd'].replace('%s/%s/out/%s' % (ROOT, ID, k), '<this directory>').replace('%s/%s' % (ROOT, ID), '<worktree of /repo with patch.diff applied and built>')
json.dump(m, open(dst + '/meta.json', 'w'), indent=1)
print('stored', dst, 'caught' if m['caught_by_check'] else 'missed')
