#!/bin/bash
# metamorph.sh [PID...] : runs the quick checks on /repo with the extracted facts rewritten into an equivalent program
#   MSA_META=flip : every comparison with its operands exchanged (a < b  =>  b > a)
#   MSA_META=not  : every `!x` as `x == false`, every `x == false` as `!x`
#   MSA_META=rename : every local variable and parameter gets another name
# The verdict of every check must be the same as on the unrewritten facts (exit 0).  Anything else is a defect of the checker: the rule depends on spelling.
cd "$(dirname "$0")/.."
PIDS=${@:-C01 C02 C03 C04 C05 C06 C07 C08 C10 C11 C12 C13 C14 C15 C16 C17 C18 C19 C20}
bad=0
for m in flip not rename; do
  for p in $PIDS; do
    out=$(MSA_META=$m MSA_OUT_SUFFIX=meta-$m ./check $p --no-evidence 2>&1); rc=$?
    if [ $rc -ne 0 ]; then bad=$((bad+1)); echo "$p MSA_META=$m exit $rc: $(echo "$out" | grep '^  \|BROKEN' | head -1 | cut -c1-220)"; fi
  done
done
echo "metamorphic: $bad check(s) changed verdict"
[ $bad -eq 0 ]
