#!/bin/bash
# eqv_try.sh GROUP : run each property's check on /tmp/eqv/GROUP/out/<id>/e<k>/patch.diff; a VIOLATION or exit 2 is a defect of the checker
G=$1
for d in /tmp/eqv/$G/out/C*/e*; do
  ID=$(basename $(dirname $d)); K=$(basename $d)
  [ -f $d/patch.diff ] || continue
  OUT=$(TRY_LINES=3 "$(dirname "$0")"/trypatch.sh $d/patch.diff $ID 2>&1)
  if echo "$OUT" | grep -q "^VIOLATION"; then echo "$ID/$K FALSE-ALARM $(echo "$OUT" | grep '^  ' | head -1 | cut -c1-200)";
  elif echo "$OUT" | grep -q "ANALYSIS-BROKEN\|Traceback\|DOES NOT APPLY"; then echo "$ID/$K BROKEN $(echo "$OUT" | grep -i 'BROKEN\|APPLY' | head -1 | cut -c1-200)";
  else echo "$ID/$K silent"; fi
done
