#!/usr/bin/env python3
"""eqv_cross.py [PATCH...] : applies every behaviour-preserving patch under equivalents/ (or the given ones) to a scratch copy of /repo and runs ALL property checks on it
(not only the check of the property the patch was written for).  Any VIOLATION or exit 2 is a defect of the checker.  Prints one line per (patch, check) that is not silent."""
import sys, os, subprocess, glob, tempfile, shutil
from concurrent.futures import ThreadPoolExecutor
HERE = os.path.dirname(os.path.dirname(os.path.abspath(__file__)))
PATCHROOT = HERE
REPO = '/repo'
PIDS = ['C01', 'C02', 'C03', 'C04', 'C05', 'C06', 'C07', 'C08', 'C10', 'C11', 'C12', 'C13', 'C14', 'C15', 'C16', 'C17', 'C18', 'C19', 'C20']


def one(patch):
    t = tempfile.mkdtemp(prefix='msa-eqx-')
    out = []
    try:
        subprocess.check_call(['rsync', '-a', '--exclude', '_build', '--exclude', 'html', '--exclude', '.git', REPO + '/', t + '/'])
        p = subprocess.run(['patch', '-p1', '-s', '-d', t, '-i', patch], stdout=subprocess.PIPE, stderr=subprocess.STDOUT, text=True)
        if p.returncode != 0:
            return [(patch, '-', 'SKIPPED (does not apply)', '')]
        env = dict(os.environ)
        env['MSA_OUT_SUFFIX'] = os.path.basename(t)
        for pid in PIDS:
            r = subprocess.run([os.path.join(HERE, 'check'), pid, '--repo', t, '--no-evidence'], stdout=subprocess.PIPE, stderr=subprocess.STDOUT, text=True, cwd=HERE, env=env)
            if r.returncode != 0:
                lines = [l for l in r.stdout.split('\n') if l.startswith('  ') or 'BROKEN' in l]
                out.append((patch, pid, 'FALSE-ALARM' if r.returncode == 1 else 'BROKEN(exit %d)' % r.returncode, lines[0].strip()[:220] if lines else r.stdout.strip()[-220:]))
        return out
    finally:
        shutil.rmtree(t, ignore_errors=True)


def snapshot():
    """EQX_SNAPSHOT=1: run from a frozen copy of the checker and of /repo (outside both), so that the long run is not disturbed by edits made meanwhile"""
    global HERE, REPO
    snap = tempfile.mkdtemp(prefix='msa-eqs-')
    subprocess.check_call(['rsync', '-a', '--exclude', '.git', '--exclude', 'seeded', '--exclude', 'equivalents', '--exclude', 'mutants', '--exclude', 'observations', '--exclude', 'out', '--exclude', 'evidence',
                           HERE + '/', snap + '/verif/'])
    subprocess.check_call(['rsync', '-a', '--exclude', '_build', '--exclude', 'html', '--exclude', '.git', '/repo/', snap + '/repo/'])
    HERE, REPO = snap + '/verif', snap + '/repo'
    return snap


def main():
    patches = [os.path.abspath(p) for p in sys.argv[1:]] or sorted(glob.glob(os.path.join(PATCHROOT, 'equivalents', '*', '*.patch')))
    snap = snapshot() if os.environ.get('EQX_SNAPSHOT') else None
    try:
        run(patches)
    finally:
        if snap:
            shutil.rmtree(snap, ignore_errors=True)


def run(patches):
    bad = 0
    with ThreadPoolExecutor(max_workers=int(os.environ.get('EQX_WORKERS', '8'))) as ex:
        for res in ex.map(one, patches):
            for (patch, pid, st, msg) in res:
                bad += 1
                print('%-70s %s %s %s' % (os.path.relpath(patch, PATCHROOT), pid, st, msg), flush=True)
    print('%d patches x %d checks, %d not silent' % (len(patches), len(PIDS), bad))
    sys.exit(1 if bad else 0)


if __name__ == '__main__':
    main()
