#!/bin/bash
# trypatch.sh PATCH PID [PID...] : apply PATCH to a scratch copy of /repo (outside /repo and /verif) and run the named checks on it
set -u
PATCH=$(realpath "$1"); shift
T=$(mktemp -d /tmp/msa-try-XXXXXX)
rsync -a --exclude _build --exclude html --exclude .git /repo/ "$T"/
if ! patch -p1 -s -d "$T" -i "$PATCH"; then echo "PATCH DOES NOT APPLY"; rm -rf "$T"; exit 3; fi
cd "$(dirname "$0")/.."
for pid in "$@"; do
  MSA_OUT_SUFFIX=$(basename "$T") ./check "$pid" --repo "$T" --no-evidence 2>&1 | grep -E "^  |VIOLATION|ANALYSIS-BROKEN|quick:" | cut -c1-330 | head -${TRY_LINES:-6}
done
rm -rf "$T"
