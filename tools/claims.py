# property id -> claim text (filled as checks are admitted; everything else is listed under NA with the reason)
CLAIMS = {
 'C08': {'technique': 'static analysis: cross-implementation table agreement (constants from macro/enum/variable/Python-ast records; payload shapes by symbolic evaluation of the C++ and C serialisers and by Python ast; header, byte order, frame); abstract interpretation of the Python writer against its size functions over the Python ast (byte-count polynomials per type-code constraint)',
         'text': 'Decides, as tables, that the four codecs shipped in the repository (C++, C mini, C micro header, Python) and the documented layout agree: equal protocol/encoding/type-code constants, the documented '
                 'per-type payload shape in every implementation (size function, writer and reader sides), the three header words and their sources, little-endian discipline, and the 8-byte stream frame. '
                 'It is the static analogue of an independent decoder: a change made consistently on both C++ sides still disagrees with the other tables. Value-level decode equality is not decided.',
         'note': 'The documented table is transcribed once in rules/C08.py; the csharp/java/delphi/python2 ports are out of scope.'},
 'C03': {'technique': 'static analysis: data-dependence of cursor/budget updates on the returned transfer count (per call site, dominance-scoped), guard dominance for delivery, frame-offset table agreement',
         'text': 'Decides the short-transfer discipline that every segmentation relies on: at each of the transfer sites whose buffer argument is base+cursor (C++ stream gateways and both C gateways) the result is '
                 'kept and every dominated update of the cursor / caller budget is computed from the returned count, never from the requested size; the stream branch hands a Message up only when the cursor reached '
                 'the end of its buffer; writer and reader of the 8-byte frame agree on offsets. Delivery for concrete segmentations, zlib/template-cache state and text/SLIP/WebSocket framing are not decided.',
         'note': 'Narrow. IORESULT was made exact on all 12 cursor-style sites of the current tree, so C03 is claimed rather than declared not applicable (see DESIGN section 4, C03).'},
 'C14': {'technique': 'static analysis: extraction and comparison of archive operations (field name, kind, default, base chaining) per class, member read/write coverage, factory/TypeCode table agreement, path-based null-test rule, call-graph recursion analysis (depth guards / frozen bounded families) from the expression and archive entry points',
         'text': 'Decides the archiving clause structurally for every filter tree at once: each class saves and restores the same (name, kind) fields with the same defaults and the same base chaining; every member '
                 'read under Matches is saved and restored somewhere in the class chain; every filter type code has a factory case creating the class that reports it; no Matches removes const; factory results '
                 'are null-tested on every path before they are dereferenced. Operator semantics, combinator truth tables and the expression grammar are not decided.',
         'note': 'One frozen exception: StringQueryFilter::_matcher (derived cache).'},
 'C17': {'technique': 'static analysis: symbolic byte-count evaluation of the String codec, bounded-scan and sticky-status path rules on the reader',
         'text': 'Decides only the serialisation clause of C17: String::Flatten writes FlattenedSize() == Length()+1 bytes from Cstr(); ReadCString scans inside the available bytes and flags a missing terminator '
                 'through the sticky status, which String::Unflatten consults before returning OK (unterminated input is rejected). All in-memory string operations, the small-buffer boundary and aliasing are not decided.',
         'note': 'Narrow: one sentence of the property.'},
 'C01': {'technique': 'static analysis: symbolic byte-count evaluation (abstract interpretation of the serialisers over the resolved AST into polynomials), reader/writer shape comparison, switch-table agreement, sticky-status path rule',
         'text': 'Decides the size/shape half of C01 for every constructible Message at once: bytes written by Flatten equal FlattenedSize as symbolic normal forms for all 14 concrete array classes, all 12 flattenable '
                 'single-item type codes and Message/String/ByteBuffer/Point/Rect; each reader consumes the wire shape its writer produces; single-item and array codec of a type agree; the type-code tables agree; '
                 'Unflatten implementations consult the sticky status. Bit-identity of values, field order and checksum/equality invariance are not decided.',
         'note': 'Widths of the DataFlattener/DataUnflattener primitives are a table in msa/effect.py; constructs outside the evaluator\'s fragment give exit 2, never a verdict.'},
 'C15': {'technique': 'static analysis: extraction and comparison of the special-character tables from the resolved AST (switch cases, position-0 comparisons, token predicate), escape-branch coverage check',
         'text': 'Decides two necessary conditions of C15 for every pattern/string at once: every character the translator or the regex engine treats specially is reported by IsRegexToken in the matching '
                 'position class (so escaping neutralises it and the uniqueness test sees it), and the translator never turns backslash+c into a regex operator for the characters where the dialect defines one. '
                 'Matching semantics in general are not decided.',
         'note': 'Narrow. Target dialect fixed to glibc regcomp(REG_EXTENDED).'},
 'C16': {'technique': 'static analysis on forced template instantiations: per-instantiation constant folding of IsPerItemClearNecessary(), CFG pruning, shrink->reset and reset->grow pairing, ring-aware indexing, alias guards by path enumeration (item parameters; the Queue parameter being *this)',
         'text': 'Decides one structural clause of C16 — "never exposes stale items after shrinking": per instantiation (Queue<int32>, Queue<String>, Queue<ByteBufferRef>) either every reachable decrease of '
                 '_itemCount resets the vacated slot(s) to the default item on every feasible path, or every growth of _itemCount over unassigned slots first stores the default item into them. '
                 'All other deque behaviour (index translation, insert/remove results, sorting, rotation, copy/move) is not decided.',
         'note': 'Narrow: one necessary condition of C16, not the refinement of an ideal sequence.'},
 'C10': {'technique': 'static analysis on forced template instantiations: single-RMW shape check, guard dominance of the free sites, per-method pairing obligations on the CFG, lock sets for the pool',
         'text': 'Decides the release-exactly-once structure: the last-reference decision is the result of one atomic read-modify-write; delete/RecycleObject only on the true edge of that decision (and of the '
                 'counting bit and allowDelete), mutually exclusive; every store into ConstRef::_item is bracketed by the matching count operation (per-method obligations, constructors included, move/swap '
                 'count-neutral); the pool resets and un-manages an object before it re-enters the free list, touches slab lists only under its mutex and deletes slabs outside it. Interleavings and ABA are not explored.',
         'note': 'Judged on ConstRef<ByteBuffer> and ObjectPool<dummy pooled type> instantiated by /verif/engine/instantiate.cpp; the templates\' other instantiations share the same source.'},
 'C11': {'technique': 'static analysis: must-/may-hold lock sets (forward data flow over the CFG), ordering/pairing of enqueue, signal, drain, dequeue, block and re-entry, predicate-wait shape check',
         'text': 'Decides the structure that rules out lost wake-ups by construction: queue accesses under the queue\'s own lock; enqueue and first-Message decision in one critical section with the signal after '
                 'it and to the right side; the receiver drains before it dequeues and never between dequeue and block, blocks only after a dequeue attempt and without a lock, and re-enters to dequeue after '
                 'every wake-up; WaitCondition counts notifications under its mutex and waits with a predicate; quit request precedes join; queued-before-start Messages are signalled. Interleavings are not explored.',
         'note': 'Only the C++11 branches of WaitCondition (the analysed configuration) are judged.'},
 'C18': {'technique': 'static analysis: must-/may-hold lock sets, guard dominance of registrations by the admission tests within one guard object (through single-caller helpers), wait-in-loop and must-reach hand-off checks, deadline propagation to every blocking call',
         'text': 'Decides the structural invariants of the reader/writer mutex: state tables only under _stateMutex (helper preconditions inferred from all call sites); admission tests contain the exclusion '
                 'conjuncts; every registration of a new executing thread is dominated by the true edge of the matching test in the same critical section (also after a wake-up); waits happen with the lock '
                 'released and inside re-check loops; each departure can reach a notify routine in the same critical section. Exclusion/liveness over interleavings, writer preference and deadlines are not explored.',
         'note': 'One known finding is open (known_findings.json, status known): after a failed timed read-to-write upgrade the read locks are restored with an untimed LockReadOnly(), so LockReadWrite(deadline) can return long after its deadline (replays/C18_timed_upgrade_blocks_in_restore.cpp); printed as KNOWN-FINDING, exit 0. The hand-off after leaving the executing table is a must-reach rule with one named escape (the write-count test).'},
 'C19': {'technique': 'static analysis: must-/may-hold lock sets with inferred helper preconditions, critical-section co-location of hand-off/flag/table updates, queue-choice and unregister atomicity checks',
         'text': 'Decides the thread pool\'s locking structure: all pool tables under _poolLock; *Unsafe helpers only called with it; no blocking call under it (one frozen, checked roll-back join); hand-off, '
                 'being-handled flag and pending-table removal in one critical section; submit chooses the queue by the flag; completion clears, promotes and dispatches under one guard; unregister tests and '
                 'registers atomically and waits outside the lock. Interleavings are not explored.',
         'note': 'Assumes client callbacks do not re-enter the pool while it holds the lock.'},
 'C12': {'technique': 'static analysis: guard-atom dominance on the CFG with operand identification by declaration, path enumeration for the disjunctive atom, writer/reader header-order agreement',
         'text': 'Decides that the reassembly copy and the hand-off are control dependent on the complete acceptance test (state looked up by source address, message id, offset, total size, overflow test, bounds, '
                 'bytes available, magic, source exclusion), that a Message starts only at offset 0, and that writer and reader agree on the header word order — for every packet sequence at once, as necessary '
                 'conditions. Behaviour under concrete loss/duplication/reordering is not decided.',
         'note': 'The rule identifies the operands of the single memcpy in PacketTunnelIOGateway::DoInputImplementation by shape; a different shape is reported as analysis-broken, not as a verdict.'},
 'C20': {'technique': 'static analysis: guard dominance for the callback dispatch, invalidate->reschedule pairing on the CFG, single-writer checks on the resolved AST',
         'text': 'Decides the scheduler\'s structural invariants: Pulse() is dispatched only under (valid AND now >= scheduled time) with the scheduled time as argument, children are descended only while due, '
                 'a pulsed node is invalidated and every invalidation requests a recalculation from the parent, the aggregate time has one writer and is the min of own and earliest child, list links have one '
                 'writer. The schedule over histories and re-entrancy from callbacks are not decided.',
         'note': 'Assumes ReschedulePulseChild keeps the scheduled list sorted.'},
 'C04': {'technique': 'static analysis: mutation->notification pairing and ordering on the CFG, subscription-table/marks pairing with argument agreement',
         'text': 'Decides the structural half of subscriber convergence for all histories at once: every payload write, attachment and removal of a node is announced, in the order that keeps the per-node subscriber '
                 'marks valid while the announcement walks them; subscription table and per-node marks change together through path-identical +1/-1/remove-all traversals; a removal is never queued behind a set of '
                 'the same path. Convergence itself, filter enter/leave logic and batching are not decided.',
         'note': 'Assumes the marks traversal visits exactly the nodes its matcher path selects.'},
 'C05': {'technique': 'static analysis: dominance/ordering on the dispatcher CFG, path enumeration over short-circuit guards for the self-delivery test, constant-return check, fast-path selection paths',
         'text': 'Decides the routing structure for all Messages/sessions at once: the sender-identity field is overwritten before each of the three routing calls; no path delivers to the sender without the '
                 'reflect-to-self flag; the routing callback returns the session level on every path (one delivery per session); the literal-lookup fast path is entered only for matchers classified unique and '
                 'looks up the unescaped key. Traversal == brute-force matching and ordering are not decided.',
         'note': 'Assumes DoTraversal honours the callback return value as documented.'},
 'C06': {'technique': 'static analysis: traversal-callback classification + root check, receiver provenance (reaching definitions over a GetChild/GetParent algebra), guard dominance for privileges, teardown pairing on the CFG',
         'text': 'Decides the ownership structure behind C06 for all command histories at once: every node-mutating or node-collecting traversal is rooted at the session\'s own directory; the receiver of every '
                 'client-reachable DataNode mutator call is derived from the own subtree; subscriber marks are edited under the own session id only; kick and ban/require forwarding are dominated by the matching '
                 'privilege test and privilege bits are never copied from a client Message; teardown removes the own node with notification, all marks and cached tables, and the server detaches before forgetting. '
                 'These are necessary conditions; equality with the run without the departed session is not decided.',
         'note': 'Assumes DoTraversal only visits strict descendants of the root it is given. Frozen exceptions (attach/cleanup of own host+session node, quiet temporary payload swap) are listed with reasons in the evidence.'},
 'C13': {'technique': 'static analysis: mutation->notification pairing with argument agreement on the CFG (must-follow with failure/quiet escape edges), single-writer and snapshot-shape checks on the resolved AST',
         'text': 'Decides that the index update log is complete and position-faithful by construction: every insert/remove on DataNode::_orderedIndex is followed, on every non-failure non-quiet path, by the '
                 'notification with the matching op code and the same position expression; only DataNode mutates the index; RemoveChild unlinks the index entry before dropping the child; the snapshot is '
                 'CLEARED followed by in-order inserts indexed by the loop variable. Replay equality over arbitrary histories is not decided.',
         'note': 'Assumes NotifySubscribersThatNodeIndexChanged transmits its arguments unchanged.'},
 'C02': {'technique': 'static analysis: interprocedural taint->sink guard dominance on the CFG, recursion-guard and abort reachability on the call graph, loop progress, sticky-status path rule',
         'text': 'Decides the structural necessary conditions of parser safety for all inputs at once: every wire-derived value reaching a child-reader budget, copy length, pointer offset/index, '
                 'or (inside the Message parsers) an allocation size is bounded by a trusted quantity on a dominating edge and tainted arithmetic is overflow-checked; reader primitives check themselves; '
                 'no unguarded recursion or unconditional abort is reachable from the parse entry points; parser loops progress; Unflatten implementations consult the sticky status. '
                 'Scope: C++ Message/templated parsers, all iogateway input paths, ZLibCodec, String/ByteBuffer, C MiniMessage and both C gateways. The MicroMessage in-place reader and the WebSocket header '
                 'state machine are listed as not decided.',
         'note': 'A dominating comparison against an untainted quantity is taken as a meaningful bound (no numeric buffer-size computation). No known findings are open: the twelve defects this check reported on the pinned tree (F1, F1c, F2, F3, F5, F6, F7a-d, F8, D3) were repaired by fix: commits and are kept as revert mutants.'},
 'C07': {'technique': 'static analysis: loop-progress + cursor-consistency on the CFG, recursion-guard and abort reachability on the class-hierarchy call graph',
         'text': 'Decides the structural part of "no handler hangs or crashes": every loop reachable from the reflect-session command dispatchers makes progress on every CFG cycle '
                 '(incl. the remove-at-cursor idiom), every reachable recursive component is depth-guarded or bounded by a guarded structure, no unconditional abort body is reachable. '
                 'It is a necessary condition of C07 decided for all inputs at once; running time and memory are not decided.',
         'note': 'Assumes const methods with by-value/const-ref parameters do not change what loop tests read; logging and destructor hubs are cut from the recursion graph.'},
}
_PENDING = 'check under construction in this session (see DESIGN.md section 4); not claimed until its rule is admitted'
NA = {}
# C09 was not applicable until the last session; it is now claimed NARROWLY (five structural necessary conditions, DESIGN.md section 4, C09)
CLAIMS['C09'] = {
    'technique': 'static analysis: must-precede / must-follow pairing on the CFG of a forced full template instantiation (iteration list vs free list, move operations, put path), '
                 'lifecycle pairing of iterator registration with null-owner escape edges, sibling agreement of the index-width dispatch arms',
    'text': 'Decides five structural necessary conditions of C09 on a forced full instantiation of HashtableBase/HashtableMid/Hashtable/HashtableIteratorImp: an entry is returned to the free list only after '
            'RemoveIterationEntry() was called for it on every path (the only place where live iterators are moved off a dying entry); an entry taken out of the iteration list by a move operation is put back on '
            'every path; every entry obtained from PutAuxAux() is linked into the iteration order by its caller; iterator constructors that take a table register with it on every path, the destructor '
            'unregisters, and the copy assignment unregisters from the old owner before and registers with the new owner after it overwrites _owner; every dispatch on the table\'s index width selects '
            'the same HashtableEntry<uintN> for the same constant. The refinement of an ideal ordered map over operation histories (contents, order, query results, what the iterator patch computes), '
            'the sort routines, SwapContents, HashtableIteratorImp::SwapContentsAux and the auto-sorting variants are NOT decided.',
    'note': 'Narrow: necessary conditions only; none is sufficient. One instantiation (int32 -> String) stands for the template: the rules read control structure and callee identity, which do not depend on the key/value types.'}


# Clauses added after the adversarial round (DESIGN.md section 9); appended to the claim text of the property.
ADDED = {
 'C01': 'Added after the adversarial round: bulk transfers through Queue::HeadPointer() only after Clear()/Normalize() (ring buffer); reader-side size rejections admit an exact fit and the count bound '
        'available/K uses a K no larger than the writer\'s minimum entry size (from the writer polynomial); the per-item checksum term of each array class equals that of the inline codec.',
 'C02': 'Added after the adversarial round: a checking call whose parameter is signed does not bound an unsigned wire value; a bound `size - n` with wire-derived n needs n <= size; DEST-CAPACITY (copies into a '
        'ByteBuffer are bounded by that buffer\'s own size) and CURSOR-BOUND (copies from buffer[cursor] in a loop are bounded by a loop-updated quantity).',
 'C03': 'Added after the adversarial round: STREAM-CARRY (content-derived parser state carried from byte to byte is not a per-call local in stream mode), CODEC-STEP (a successful dependent-mode Deflate result is '
        'always what is sent), TEMPLATE-LRU (sender and receiver maintain their template caches by the same operations), RECV-CAPACITY (the receive buffer is kept only under a test that accounts for header and body).',
 'C04': 'Added after the adversarial round: FLUSH-ORDER is path-based (no path from "a set for this path is pending" to the removal entry without a flush); the existing-subscription lookup uses the depth of the '
        'looked-up string; SetData captures the old payload before overwriting it.',
 'C05': 'Added after the adversarial round: ONCE is now decided from the traversal\'s own pop-up arithmetic (this found that a routed Message was delivered once per matching node; fixed), MATCH-RECHECK (the '
        'shortcut around the full-path re-check requires a single pattern; fixed) and DEFAULT-ROUTE (the keys field is really stored in the parameter set; fixed); the already-visited table spans all patterns; '
        'RemoveParameter removes the field last; StringMatcher::SetPattern always clears its numeric ranges.',
 'C06': 'Added after the adversarial round: shared subscriber tables are modified in place only under GetRefCount() == 2; the host node is removed at teardown only when it has no children; the recursive '
        'removal drains all children in a loop.',
 'C07': 'Added after the adversarial round: REGEX-VALID (the compiled regex is used/freed only under its validity flag, which is raised only in dependence on regcomp() == 0).',
 'C08': 'Added after the adversarial round: the C++ reader accepts what the writers produce (EXACT-FIT, MIN-ENTRY, RECV-CAPACITY) and the C micro writer maintains its item-count word by the number of items appended.',
 'C11': 'Added after the adversarial round: the SEND-ORDER slot follows the flag that guards the signal calls (data flow, not a frozen expression); closing both wake-up sockets clears the allocated flag.',
 'C12': 'Added after the adversarial round: FIT-ACCOUNT (the mini tunnel sender\'s fit test counts exactly the bytes the guarded branch writes) and REF-AFTER-REMOVE (no use of a queue-element reference after '
        'the element was removed, in the packet I/O classes that supply the source address).',
 'C13': 'Added after the adversarial round: INDEX-OBSERVERS (session-side InsertOrderedChild announces through `this` unconditionally and sets _indexingPresent; generated child names are checked with HasChild).',
 'C14': 'Added after the adversarial round: INDEX-USED (every value filter reads the field item at GetIndex()).',
 'C15': 'Added after the adversarial round: ESCAPE-PARITY over all escape-flag scanners, rewrites only outside escape mode, REGEX-VALID, RANGES-RESET, and the negate flag of SegmentedStringMatcher is set after the clear.',
 'C16': 'Added after the adversarial round: RING-AWARE reset loops, INDEX-WRAP (>= in the wrap test), ALIAS-GUARD (unconditional self-reference test before an in-place shift).',
 'C17': 'Added after the adversarial round, two structural conditions of the in-memory clause: LENGTH-LAST (no buffer move after SetLength()) and SELF-ALIAS (IsCharInLocalArray before a contents-keeping buffer move).',
 'C18': 'Added after the adversarial round: RESTORE (read locks released for an upgrade are re-acquired on every path, so a failed try/timed upgrade leaves the state unchanged).',
 'C19': 'Added after the adversarial round: the outstanding-work predicate consults every per-client table; the deferred queue is promoted whenever it is non-empty.',
 'C20': 'Added after the adversarial round: LINKS (no sibling link loaded before a Pulse callback is used after it; ordering comparisons use the same field on both sides; the head-of-schedule test precedes the unlink).',
}
for _k, _v in ADDED.items():
    CLAIMS[_k]['text'] = CLAIMS[_k]['text'] + ' ' + _v
CLAIMS['C17']['note'] = 'Narrow: the serialisation sentence plus two structural necessary conditions of the in-memory operations; the ideal-string refinement is not decided.'
CLAIMS['C01']['text'] = CLAIMS['C01']['text'].replace('Bit-identity of values, field order and checksum/equality invariance are not decided.', 'Bit-identity of values, field order and equality invariance are not decided; of the checksum only the array/inline agreement is.')

ADDED2 = {'C01': ' Round 2: the inline-vs-array comparisons of IsEqualTo use the same item type on both sides.', 'C02': ' Round 2: NUL-SLOT (a read into a local array leaves room for the terminator that is stored afterwards) and BORROW-SCOPE (a reader pointed at a buffer held by a local Ref is not used after that Ref dies).', 'C03': ' Round 2: RESUME-OFFSET (a transfer of the untransferred rest starts at base + the same cursor).', 'C04': ' Round 2: SetFilterForEntry reads the old filter before overwriting it; marks traversals ignore filters; the raw old-filter pointer is not used after the entry can have been replaced; MATCH-RECHECK.', 'C06': ' Round 2: marks traversals ignore filters; ClearLameDucks removes the end it processed; RESET-COMPLETE (DataNode::Reset()/Init() restore every member other methods change; found and fixed the pooled ordered-child counter).', 'C07': ' Round 2: GetAncestorNode() is dereferenced only with a fallback or after a test; the raw old-filter pointer is not used after SetFilterForEntry().', 'C08': ' Round 2: GetFlattenedSizeForFixedSizeType gives the documented width per type; the micro reader accepts a sub-Message of exactly header size.', 'C10': ' Round 2: SetRef references the new item before it releases the old one (found and fixed a use-after-free on cur = cur()->_next); CastAwayConstFromRef forwards the counting flag; the RefCountable copy constructor does not copy the manager.', 'C11': " Round 2: StartInternalThread looks at the internal thread's queue for the initial signal.", 'C12': ' Round 2: message ids are compared for equality only; packets are deflated independently; RESUME-OFFSET in the packet I/O classes.', 'C13': ' Round 2: an index instruction marks the subscription Messages dirty; the index entry is removed on the quiet path too; NodeCreated records the match count.', 'C14': ' Round 2: SetFromArchive drops the cached matcher on every path.', 'C15': ' Round 2: every return of StringMatcher::Match applies the negate flag.', 'C16': ' Round 2: loops over the item count do not index the raw storage; COPY-FITS (EnsureSizeAux reconciles the requested size with the item count before copying; found and fixed a buffer overflow).', 'C17': ' Round 2: a method that reads its argument with memmove does not release its buffer before that read.', 'C18': ' Round 2: a waiter that times out removes its own entry; leaving the executing table is guarded by both recursion counts; the hand-off after leaving is unconditional.', 'C19': ' Round 2: strict thread limit; Shutdown notifies before it clears the waiters; the batch is handled head-first.', 'C20': ' Round 2: ClearPulseChildren empties all lists; GetPulseTimeAux asks the node itself before draining its pending children.'}
for _k, _v in ADDED2.items():
    CLAIMS[_k]['text'] = CLAIMS[_k]['text'] + _v

# added after round 2 (see DESIGN.md sections 9 and 10)
ADDED3 = {
    'C01': ' Later: NEST-TLS (the namespace-scope counter that bounds the parse recursion has thread storage duration).',
    'C02': ' Later: the parse-depth counter is thread-local (R-REC thread-local).',
    'C03': ' Later: STALE-CURSOR in the C gateways (a pointer computed from struct fields is not used after the memmove/compaction that updates those fields).',
    'C08': ' Later: PY-EFFECT (the bytes the Python Message.Flatten() writes per field equal what FlattenedSize()/GetFieldContentsLength() compute, for every type-code branch, contents representation and byte order, with strings counted in encoded bytes; found and fixed two disagreements that made the C++ parser reject Python-written Messages).',
    'C16': ' Later: QUEUE-SELF (a method that moves the items of *this while reading its const Queue & argument by index runs only where &argument != this was tested alone; found and fixed q.AddHeadMulti(q)).',
    'C14': ' Later: R-REC over the expression parser and the archive factory (every recursive cycle reachable from CreateQueryFilterFromExpression / CreateQueryFilter carries a depth guard, a decremented depth argument, a single-shot NULL argument, or belongs to the Message-nesting family; found and fixed the unbounded recursion on nested parentheses).',
    'C18': ' Later: DEADLINE (a Lock* method passes its deadline to every call that can block and gives up held locks only when the deadline is not zero; found and fixed the blocking try-upgrade; the untimed restore after a failed timed upgrade is the one known finding).',
    'C20': ' Later: RE-ASK stable-on-return (after every user callback that runs inside GetPulseTimeAux — the node\'s own GetPulseTime() and the recursive calls on its children — the node examines its own valid flag, and the pending-children test, again before it returns; found and fixed a node that was never asked again after a child invalidated it during the recalculation).',
    'C13': ' Later: INDEX-OBSERVERS covers every call that adds an index entry (InsertOrderedChild, ReorderChild, InsertIndexEntryAt): the owner session is flagged as having indexing present (found and fixed: REORDERDATA and CloneDataNodeSubtree did not).',
}
for _k, _v in ADDED3.items():
    CLAIMS[_k]['text'] = CLAIMS[_k]['text'] + _v
# added after round 3 of the adversarial changes (see DESIGN.md section 9)
ADDED4 = {
    'C01': ' Round 3: COUNT-AGREE (the entry-count word of Flatten counts exactly the entries written), ITEM-SIZE (the divisor that turns a payload length into an item count is the wire width of the type), RESTORE-VERBATIM (Point/Rect readers do not normalise what they read).',
    'C02': ' Round 3: FAIL-CLEAN (a Message parser that fails clears the Message before it returns the error; found and fixed TemplatedUnflatten, which left an empty field behind that aborted the next FlattenedSize()) and SIGN-EXTEND (a signed value decoded from wire bytes is not widened into an unsigned length without a sign test).',
    'C03': ' Round 3: QUEUE-ENDS (the C gateway clears its tail pointer when the last output buffer is freed), CODEC-DIRECTION (the input path never uses the send codec and vice versa), SIGN-EXTEND in the gateway input paths.',
    'C04': ' Round 3: NodeCreated records the match count without a payload too; a subscription with a new filter replaces the old filter for the same key; shared subscriber tables are modified in place only under an exact reference count, and a cache hit compares contents.',
    'C05': ' Round 3: the shortcut around the full-path re-check needs both counts to be one; broadcast honours the reflect-to-self parameter; the traversal callbacks return the depth the traversal resumes from.',
    'C06': ' Round 3: a cached subscriber table is reused only after its contents were compared; the existing-subscription lookup and the insert use the same (normalised) key.',
    'C07': ' Round 3: results that may be null (matcher of a ban pattern, node of a name filter) are tested before use; PROGRESS also treats locals that are only recomputed from loop-invariant values as derived inputs and reports a cycle that changes nothing it tests.',
    'C08': ' Round 3: C-CACHED (the C codecs keep their cached lengths and offsets consistent: every fresh output buffer is sent from the same offset, a renamed field stores the length of the new name).',
    'C10': ' Round 3: IncrementRefCount is one atomic increment (no load-then-store), SetRef references before it releases, and the pool frees a slab only when none of its objects is in use.',
    'C11': ' Round 3: DRAIN (DispatchCallbacks takes replies until none is left, because a signal is sent only when the queue was empty), EAGER-INIT (objects both threads reach are constructed before the internal thread exists), EINTR (an interrupted wait is not an error).',
    'C12': ' Round 3: ADVANCE-ALWAYS (the reader moves past a chunk whether it accepts it or not), HOLD-PACKET (the pending packet is forgotten only after its Write), PACK-WIDTH (the packet-id counter stays inside its bit field).',
    'C13': ' Round 3: INDEX-TO-ALL (every existing subscriber, the originator included, is told about an index change), FULL-SCAN (index searches by name look at every position), a push of subscription Messages is deferred inside a batch only.',
    'C14': ' Round 3: DEFAULT-SUBSTITUTE (the assumed default of a value filter is substituted for the missing value and then processed exactly like a found value).',
    'C15': ' Round 3: FIRST-POSITION (IsRegexToken is asked about the position the character really has), PER-ITERATION (range bounds and escape state are not carried from one clause / character to the next except where the dialect says so).',
    'C16': ' Round 3: HEAD-TAIL (where the ring is re-based the tail index is computed from the new head index).',
    'C17': ' Round 3: SELF-ALIAS is path-based (the argument-aliases-own-buffer test is found true or false on every path to a contents-keeping buffer move).',
    'C18': ' Round 3: a failed try leaves no trace in the tables, COUNT-PAIR (per-thread and total write counts move together), CHRONO-UNIT (durations handed to the condition variable are microseconds).',
    'C19': ' Round 3: each client waits on its own condition, a client\'s older batch is dispatched before its newer one, a thread is marked available before the next dispatch decision.',
    'C20': ' Round 3: ROOTS (the server asks and pulses every root node it owns on every pass, dependent only on the node existing), LINKS unlink-complete (an unlink clears both neighbours\' links and the list ends).',
}
for _k, _v in ADDED4.items():
    CLAIMS[_k]['text'] = CLAIMS[_k]['text'] + _v
# rules written from the round-3 observations (DESIGN.md sections 0.2b and 9.4b)
ADDED5 = {
    'C01': ' From the round-3 observations: EQ-CONTENT (ByteBuffer::operator== lets the buffer pointers decide only for non-empty buffers; found and fixed: an emptied buffer was not == to its round-tripped copy).',
    'C02': ' From the round-3 observations: COUNT-CONSULTED (shared with C03), STREAM-END (a loop around inflate() does not go round again after Z_STREAM_END, decided on the cyclic paths with contradiction pruning; found and fixed the ReadAndInflateAndWrite hang), MICRO-WALK also bounds item lengths handed out through out-parameters (found and fixed UMFindData).',
    'C03': ' From the round-3 observations: COUNT-CONSULTED (the byte count of every DataIO transfer in the gateways is consulted on every non-error path; found and fixed the WebSocket handshake that appended an unread byte after a zero-byte read) and BYTE-VIEW (an integer local is not used both through its memory bytes and through a byte-order converting writer; found and fixed the WebSocket client masking key).',
    'C04': ' From the round-3 observations: LEAVE-ALL (the removed-flag for a node that stays in the tree is raised only where _subscriptions.MatchesNode() over all subscriptions was found false; ChangeQueryFilterCallback is the one known finding: overlapping subscriptions).',
    'C05': ' From the round-3 observations: unescape-once (a clause split by the comma-list fast path is unescaped exactly once before GetChild(); found and fixed the double unescape) and ONCE abandon-child (after a callback or recursion returned a depth above the child\'s own depth nothing more is done for that child, decided on all paths between the callback and recursion sites; found and fixed the double delivery for keys selecting a session node and a node below it).',
    'C12': ' From the round-3 observations: PENDING-VISIBLE (HasBytesToOutput() reads the member that mirrors the size of a packet DoOutput() may still hold; found and fixed in both tunnels).',
    'C13': ' From the round-3 observations: ENTRY-ONCE (an index entry is added only for a node created in the same function or after RemoveIndexEntry() for it on the same node; found and fixed the duplicated entries of a clone onto an existing destination); FULL-SCAN reads while-form loops and helper queues.',
    'C14': ' From the round-3 observations: PARSED-USED (every local ParseFieldName() fills in flows into the CreateSubexpression() call; found and fixed: the documented name:index and name|default forms never matched the field they name).',
    'C16': ' From the round-3 observations: ABANDON-INLINE (the inline slots are reset before _queue leaves the inline buffer; found and fixed SwapContents, which an earlier frozen exception had wrongly excused) and ALIAS-GUARD for pointer and Queue parameters and any in-place shift loop (found and fixed InsertItemsAt(i, &q[k], n)).',
    'C17': ' From the round-3 observations: CHAR-ORDER (no signed ordering comparison of two chars outside digit runs; found and fixed the numeric-aware comparison, which sorted bytes >= 0x80 before ASCII).',
    'C19': ' From the round-3 observations: UNREGISTER-ATOMIC (the "nothing outstanding" test and the removal of the client share one guard object, or the wake-up registration failed; found and fixed a check-then-act race between submission and unregistration).',
    'C20': ' LINKS unlink-complete looks through PulseNode helpers.',
}
for _k, _v in ADDED5.items():
    CLAIMS[_k]['text'] = CLAIMS[_k]['text'] + _v
CLAIMS['C17']['note'] = 'Narrow: the serialisation sentence plus three structural necessary conditions of the in-memory operations (LENGTH-LAST, SELF-ALIAS, CHAR-ORDER); the ideal-string refinement is not decided.'
_TECH5 = {
    'C01': '; path rule on ByteBuffer::operator== (pointer-dependent false returns only under a non-zero length fact)',
    'C02': '; API typestate on cyclic CFG paths (no inflate() after Z_STREAM_END, contradictory branch decisions pruned); transfer-count consultation on all non-error paths',
    'C03': '; transfer-count consultation on all non-error paths; byte-view / byte-order-writer exclusion per integer local',
    'C04': '; dominance of flag-raising sites by a negative whole-subscription-set test',
    'C05': '; unescape counting along the clause flow; path enumeration between callback and recursion sites with once-only flag pruning',
    'C12': '; sibling agreement between the held-packet member of DoOutput and the HasBytesToOutput predicate',
    'C13': '; must-precede of RemoveIndexEntry / freshness at every index insertion site',
    'C14': '; def-use closure from parser out-arguments to the factory call',
    'C16': '; path rule on every re-pointing of _queue (inline slots reset or not-inline proven)',
    'C17': '; type-level rule on ordering comparisons of plain char operands',
    'C19': '; check-then-act atomicity at guard-object granularity (RAII guard instances from the lock-set data flow)',
}
for _k, _v in _TECH5.items():
    CLAIMS[_k]['technique'] = CLAIMS[_k]['technique'] + _v
# rules added after round 4 of the adversarial changes (DESIGN.md section 9)
ADDED6 = {
    'C01': ' Round 4: INDEX-SENTINEL (the narrow slot indices of the Hashtable that holds a Message\'s fields never have to represent their own sentinel).',
    'C02': ' Round 4: budget-underflow (a DataUnflattener budget `length - constant` needs length >= constant where the reader is built) and C-INIT (a C struct fresh from malloc has every field written before it is handed out).',
    'C03': ' Round 4: ACCUMULATE (a pending-Message member that collects the chunks decoded from one read is re-created only where it was found NULL); CODEC-STEP also requires the converse (zlib label only where Deflate() returned a buffer).',
    'C04': ' Round 4: the literal-lookup fast path of the traversal, per call site: the clause is unescaped exactly once before GetChild(), and the accumulator is empty when the splitting of an entry begins (shared with C05 and C06).',
    'C05': ' Round 4: the per-call-site unescape count and accumulator-fresh obligations (shared), ESCAPE-PARITY of RemoveEscapeChars (C15\'s scanner rule, run here for the function routing depends on), and DEFAULT-ROUTE replace (UpdateDefaultMessageRoute clears before it refills).',
    'C06': ' Round 4: the traversal\'s literal lookup names the nodes the patterns match (shared clause-lookup obligations): marks are placed by matching and removed by traversal.',
    'C07': ' Round 4: UNDERFLOW (a subtraction of two unsigned parameters is reached only where the two were compared), over every function reachable from the dispatcher.',
    'C08': ' Round 4: the frame\'s encoding word describes its body (CODEC-STEP, shared with C03) and the mini field list\'s unlink resets the field\'s own links.',
    'C11': ' Round 4: FD-VALID (descriptor 0 is valid), StartInternalThread signals only after the sockets exist, and the new thread announces replies queued before it started.',
    'C12': ' Round 4: SOURCE-AFTER-READ (the packet\'s source address is asked for after the packet was read) and BUFFER-FREE (PacketizedProxyDataIO refills its packet buffer only where HasBufferedOutput() was found false).',
    'C14': ' Round 4: PAIRED-LENGTH (in Matches() a buffer local is indexed from the length local obtained together with it).',
    'C15': ' Round 4: NULL-SEGMENT (SegmentedStringMatcher::IsPatternUnique answers false for a match-anything segment).',
    'C16': ' Round 4: BAD-INDEX (a logical index is turned into a slot only under index < item count).',
    'C17': ' Round 4: STALE-PTR (no character pointer saved before a contents-keeping buffer move is used after it).',
    'C18': ' Round 4: wake-coverage (NotifySomeWaitingThreads returns without a notification only when no reader and no writer is waiting, by path enumeration).',
    'C19': ' Round 4: Shutdown empties every per-client table; publish-before-signal in ThreadPoolThread::SendMessagesToInternalThread.',
    'C20': ' Round 4: invalidate-always (InvalidatePulseTime clears the valid flag whenever it was set).',
}
for _k, _v in ADDED6.items():
    CLAIMS[_k]['text'] = CLAIMS[_k]['text'] + _v
# rules added in the last session (round 5 of the adversarial changes and two changes that had been listed as not caught; DESIGN.md section 9.2 "Round 5")
ADDED7 = {
    'C03': ' Round 5: CODEC-KEPT (GetCodec discards the codec it was handed only on paths that store a newly created one: the receive codec survives un-deflated frames inside a zlib stream).',
    'C04': ' Round 5: COUNT-DECIDES (a session\'s entry leaves a node\'s subscriber table only under a test of the count that would otherwise be stored).',
    'C06': ' Round 5: UNSUBSCRIBE-PAIR (every successful _subscriptions.RemovePathString is followed on every path by the -1 marks traversal for the same path) and MARKS-ALWAYS (the notify-on-set-parent argument of PutChild/InsertOrderedChild is never conditional or NULL).',
    'C05': ' Round 5: ONLY-COMMAS (once CanWildcardStringMatchMultipleValues raised its only-commas answer, no return inside the scan loop is reachable without the answer being lowered again; decided on the paths between the two, the NULL-out-parameter paths pruned).',
    'C08': ' Last session: RECV-EXACT (Python transceiver: a recv() feeding an accumulator tested by len(acc) == want asks for want - len(acc)) and NULL-SLOT-AGREE (every NULL-tested MMGetFlattenedSize() site of MiniMessage.c gives the NULL sub-Message slot the same treatment).',
    'C11': ' Last session: NFDS-COVERS (the bound handed to select() is a running maximum over all descriptor sets), TIMEOUT-TOLERATED (the stock internal-thread loop gives up after a failed wait only where the status was found different from B_TIMED_OUT), CLEAR-FIRST (ICallbackMechanism::DispatchCallbacks clears its pending flag before it collects the work).',
    'C12': ' Round 5: ID-PER-BUFFER (every finished send buffer moves the message ID on).',
    'C19': ' Round 5: UNREGISTER-ATOMIC reads the decisions of || chains in join blocks (engine correction) and derives operand facts from them.',
    'C20': ' Round 5: DETACH-FIRST (the old parent detaches a child before its _parent is overwritten) and REQUEST-VERBATIM (_myScheduledTime is assigned from GetPulseTime() or a constant, never from the sweep time).',
}
for _k, _v in ADDED7.items():
    CLAIMS[_k]['text'] = CLAIMS[_k]['text'] + _v
_TECH7 = {
    'C03': '; must-follow of a new-codec store after every discard of the codec out-parameter',
    'C04': '; guard-reads-the-stored-value rule at the entry removal',
    'C06': '; must-follow pairing of unsubscribe and marks traversal; argument-shape rule on the attach calls',
    'C05': '; path enumeration between the raising of an out-parameter and the early returns of the scan loop',
    'C08': '; Python-ast rule on accumulating recv() sites; sibling agreement of the NULL-slot alternatives in the C mini codec',
    'C11': '; reduction-shape rule on the select() bound; loop-exit edge atoms (status compared with B_TIMED_OUT); must-precede of the flag reset before the dispatch call',
    'C12': '; must-follow / same-block pairing of buffer completion and ID increment',
    'C20': '; must-precede of the detach call before the parent-field write; value-origin rule on the scheduled-time member',
}
for _k, _v in _TECH7.items():
    CLAIMS[_k]['technique'] = CLAIMS[_k]['technique'] + _v
for _k in CLAIMS:
    CLAIMS[_k]['text'] = CLAIMS[_k]['text'] + ' Robustness: every condition is read independently of its spelling; the thorough tier re-runs the rules on the facts with all comparisons exchanged and all negations respelled and requires the same verdict, and requires silence on the behaviour-preserving patches under equivalents/ (over 300, most of them written by independent sub-agents).'
