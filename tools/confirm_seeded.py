#!/usr/bin/env python3
"""confirm_seeded.py ID [k...]: independently re-confirm an adversary's seeded change in its scratch worktree /tmp/adv/ID (never in /repo):
apply out/k/patch.diff, rebuild, run the test suite (testserial excluded: fails on the unchanged tree), build and run the demonstration;
then revert, rebuild the library, and run the same demonstration again.  Writes out/k/confirm.json."""
import sys, os, subprocess, json, re, glob

def sh(cmd, cwd=None, timeout=1800):
    try:
        p = subprocess.run(cmd, shell=True, cwd=cwd, stdout=subprocess.PIPE, stderr=subprocess.STDOUT, text=True, timeout=timeout)
        return p.returncode, p.stdout
    except subprocess.TimeoutExpired as e:
        return 124, (e.stdout or '') + '\n[timeout]'

def run_meta_cmd(W, d, meta):
    cmd = meta.get('demo_cmd', '')
    # strip "git apply / cmake --build" prefixes (the tool does that itself); keep from the first `cd <demo dir>`
    i = cmd.find('cd %s' % d)
    if i < 0:
        i = cmd.find('cd ' + os.environ.get('ADV_ROOT', '/tmp/adv'))
    cmd = cmd[i:] if i >= 0 else cmd
    cmd = cmd.split('#')[0].split(' ; ')[0]
    return sh(cmd, timeout=900)


def build_demo(W, d, meta):
    if os.path.exists(os.path.join(d, 'build.sh')):
        return sh('sh build.sh %s/_build/libmuscle.a demo_confirm' % W, cwd=d)
    if os.path.exists(os.path.join(d, 'demo.cpp')):
        return sh('g++ -std=gnu++17 -w -DMUSCLE_ENABLE_ZLIB_ENCODING -I%s demo.cpp %s/_build/libmuscle.a -lz -lpthread -o demo_confirm' % (W, W), cwd=d)
    if os.path.exists(os.path.join(d, 'demo.c')):
        srcs = sorted(set(re.findall(r'(%s/lang/c/\S+?\.c)\b' % re.escape(W), meta.get('demo_cmd', ''))))
        return sh('gcc -w -I%s -I%s/lang/c demo.c %s -o demo_confirm' % (W, W, ' '.join(srcs)), cwd=d)
    return 1, 'no demo.cpp / demo.c'

def main():
    ID = sys.argv[1]
    W = os.environ.get('ADV_ROOT', '/tmp/adv') + '/' + ID
    ks = sys.argv[2:] or sorted(os.path.basename(os.path.dirname(p)) for p in glob.glob(W + '/out/*/patch.diff'))
    for k in ks:
        o = os.path.join(W, 'out', k)
        d = os.path.join(o, 'demo')
        meta = json.load(open(os.path.join(o, 'meta.json')))
        r = {'id': ID, 'k': k}
        sh('git checkout -q -- .', cwd=W)
        rc, out = sh('git apply out/%s/patch.diff' % k, cwd=W)
        r['applies'] = rc == 0
        rc, out = sh('cmake --build _build -j8 2>&1 | tail -3', cwd=W)
        r['builds'] = rc == 0 and 'FAILED' not in out and 'error' not in out.lower()
        rc, out = sh('ctest --test-dir _build -j8 --timeout 120 -E testserial 2>&1 | tail -12', cwd=W)
        m = re.search(r'(\d+)% tests passed, (\d+) tests failed out of (\d+)', out)
        r['tests'] = m.group(0) if m else out[-300:]
        r['tests_pass'] = bool(m) and m.group(2) == '0'
        if not r['tests_pass'] and m:
            failed = re.findall(r'^\s*\d+ - (\S+)', out, re.M)
            r['failed_tests'] = failed
            # timing-sensitive tests: rerun the failed ones alone once
            ok = True
            for t in failed:
                rc2, o2 = sh('ctest --test-dir _build --timeout 300 -R "^%s$" 2>&1 | tail -5' % t, cwd=W)
                ok = ok and '100% tests passed' in o2
            r['tests_pass_after_rerun'] = ok
        runsh = os.path.exists(os.path.join(d, 'run.sh'))
        runarg = '' if (runsh and 'SRC' in open(os.path.join(d, 'run.sh')).read()) else '%s/_build/libmuscle.a' % W
        use_meta = os.environ.get('CONFIRM_USE_META') == '1'
        if use_meta:
            rc, out = run_meta_cmd(W, d, meta)
            r['demo_builds_changed'] = True
        else:
            rc, out = (0, '') if runsh else build_demo(W, d, meta)
            r['demo_builds_changed'] = rc == 0
            rc, out = sh('sh run.sh %s' % runarg, cwd=d, timeout=900) if runsh else sh('./demo_confirm', cwd=d, timeout=300)
        r['demo_changed_rc'] = rc
        r['demo_changed_tail'] = out[-1500:]
        sh('git checkout -q -- .', cwd=W)
        sh('cmake --build _build -j8 --target muscle 2>&1 | tail -2', cwd=W)
        if use_meta:
            rc, out = run_meta_cmd(W, d, meta)
            r['demo_builds_unchanged'] = True
        else:
            rc, out = (0, '') if runsh else build_demo(W, d, meta)
            r['demo_builds_unchanged'] = rc == 0
            rc, out = sh('sh run.sh %s' % runarg, cwd=d, timeout=900) if runsh else sh('./demo_confirm', cwd=d, timeout=300)
        r['demo_unchanged_rc'] = rc
        r['demo_unchanged_tail'] = out[-800:]
        r['confirmed'] = bool(r['applies'] and r['builds'] and (r['tests_pass'] or r.get('tests_pass_after_rerun')) and r['demo_changed_rc'] != 0 and r['demo_unchanged_rc'] == 0)
        json.dump(r, open(os.path.join(o, 'confirm.json'), 'w'), indent=1)
        print(ID, k, 'confirmed' if r['confirmed'] else 'NOT-CONFIRMED', r['tests'], 'demo changed rc=%s unchanged rc=%s' % (r['demo_changed_rc'], r['demo_unchanged_rc']), flush=True)
    sh('git checkout -q -- .', cwd=W)

if __name__ == '__main__':
    main()
