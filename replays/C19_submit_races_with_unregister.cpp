// Observation (UNCHANGED library): a Message that is accepted by SendMessageToThreadPool() (B_NO_ERROR) while another thread is
// inside SetThreadPool(NULL)/UnregisterClient() for the same client can be handled AFTER the unregister call has returned,
// or can be silently dropped.
//
// One submitter thread keeps submitting Messages for client c;  the main thread calls c.SetThreadPool(NULL).
// PROPERTY: every accepted Message is handled exactly once, and unregistering returns only after all submitted Messages are handled.
#include <stdio.h>
#include <stdlib.h>
#include <unistd.h>
#include <atomic>
#include <thread>

#include "system/ThreadPool.h"
#include "system/SetupSystem.h"
#include "util/TimeUtilityFunctions.h"

using namespace muscle;

class Client : public IThreadPoolClient
{
public:
   Client() : IThreadPoolClient(NULL), _unregisterReturned(false), _numHandled(0), _numHandledLate(0) {/* empty */}

   virtual void MessageReceivedFromThreadPool(const MessageRef &, uint32)
   {
      if (_unregisterReturned) _numHandledLate++;   // handler entered although SetThreadPool(NULL) has already returned
      _numHandled++;
      if (_unregisterReturned) _numHandledLate2++;  // ... or was still running when it returned
   }

   std::atomic<bool> _unregisterReturned;
   std::atomic<int> _numHandled, _numHandledLate, _numHandledLate2{0};
};

static void BusyWaitMicros(uint64 micros) {const uint64 until = GetRunTime64()+micros; while(GetRunTime64() < until) {/* spin */}}

int main(int argc, char ** argv)
{
   const int numTrials = (argc > 1) ? atoi(argv[1]) : 300;

   CompleteSetupSystem css;

   int trialsWithLateHandling = 0, trialsWithLostMessages = 0, totalLate = 0, totalLost = 0;
   for (int t=0; t<numTrials; t++)
   {
      ThreadPool pool(2);
      Client * c = new Client;
      c->SetThreadPool(&pool);

      std::atomic<bool> stop(false);
      std::atomic<int> numAccepted(0);
      std::thread submitter([&]() {
         uint32 seq = 0;
         while(stop == false)
         {
            if (c->SendMessageToThreadPool(GetMessageFromPool(seq++)).IsOK()) numAccepted++;
            BusyWaitMicros(30);
         }
      });

      (void) Snooze64(3000);
      c->SetThreadPool(NULL);            // must return only after every submitted (accepted) Message has been handled
      c->_unregisterReturned = true;

      (void) Snooze64(2000);
      stop = true;
      submitter.join();
      (void) Snooze64(20000);            // let any straggling handler calls happen

      const int late = muscleMax((int)c->_numHandledLate, (int)c->_numHandledLate2);
      const int lost = numAccepted - c->_numHandled;
      if (late > 0) {trialsWithLateHandling++; totalLate += late;}
      if (lost > 0) {trialsWithLostMessages++; totalLost += lost;}
      if (((late > 0)||(lost > 0))&&(trialsWithLateHandling+trialsWithLostMessages <= 5))
         printf("trial %3i: accepted=%i handled=%i  handled after SetThreadPool(NULL) had returned=%i  accepted but never handled=%i\n", t, (int)numAccepted, (int)c->_numHandled, late, lost);

      delete c;  // (c is unregistered;  a real program would now be exposed to a use-after-free by the late handler call)
   }

   printf("%i trials: %i with a Message handled after SetThreadPool(NULL) returned (%i Messages), %i with accepted Messages that were never handled (%i Messages)\n", numTrials, trialsWithLateHandling, totalLate, trialsWithLostMessages, totalLost);
   const bool bad = ((trialsWithLateHandling > 0)||(trialsWithLostMessages > 0));
   printf("%s\n", bad ? "RESULT: PROPERTY VIOLATED" : "RESULT: OK (race not hit in this run)");
   return bad ? 1 : 0;
}
