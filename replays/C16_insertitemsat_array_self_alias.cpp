// Repro: Queue::InsertItemsAt(uint32 index, const ItemType * items, uint32 numNewItems)
// when (items) points into the Queue's own storage.
#include <stdio.h>
#include <vector>
#include <string>
#include "system/SetupSystem.h"
#include "util/Queue.h"
#include "util/String.h"
using namespace muscle;

template<class T> static std::string S(const T & t);
template<> std::string S<int>(const int & t) {char b[32]; snprintf(b, sizeof(b), "%d", t); return b;}
template<> std::string S<String>(const String & t) {return std::string("\"")+t()+"\"";}

template<class T> static bool Check(const char * title, const Queue<T> & q, const std::vector<T> & model)
{
   bool ok = (q.GetNumItems() == model.size());
   for (uint32 i=0; (ok)&&(i<q.GetNumItems()); i++) if (!(q[i] == model[i])) ok = false;
   printf("%s\n   queue: ", title); for (uint32 i=0; i<q.GetNumItems(); i++) printf("%s ", S(q[i]).c_str());
   printf("\n   ideal: ");          for (size_t i=0; i<model.size(); i++)    printf("%s ", S(model[i]).c_str());
   printf("\n   => %s\n", ok?"ok":"MISMATCH");
   return ok;
}

int main()
{
   CompleteSetupSystem css;
   int bad = 0;

   // Case A: trivially copyable items, no reallocation needed (capacity 8, 4 items):  source range overlaps the region that gets shifted
   {
      Queue<int> q; (void) q.EnsureSize(8);
      std::vector<int> m;
      for (int i=1; i<=4; i++) {(void) q.AddTail(i*10); m.push_back(i*10);}
      const std::vector<int> src(m.begin()+2, m.begin()+4);    // ideal: the values of items 2,3 at the time of the call
      const status_t r = q.InsertItemsAt(1, &q[2], 2);         // insert copies of items 2..3 at position 1
      m.insert(m.begin()+1, src.begin(), src.end());
      printf("A: returned %s\n", r());
      if (!Check("A: Queue<int> cap=8 {10,20,30,40}.InsertItemsAt(1, &q[2], 2)", q, m)) bad++;
   }

   // Case B: owning items, reallocation needed (heap array full):  the old array is kept alive, but its items have been moved-from
   {
      Queue<String> q; (void) q.EnsureSize(4);
      std::vector<String> m;
      const char * names[] = {"alpha-long-enough-to-be-on-the-heap-0", "bravo-long-enough-to-be-on-the-heap-1", "charlie-long-enough-to-be-on-the-heap-2", "delta-long-enough-to-be-on-the-heap-3"};
      for (int i=0; i<4; i++) {(void) q.AddTail(String(names[i])); m.push_back(String(names[i]));}
      const std::vector<String> src(m.begin()+2, m.begin()+4);
      const status_t r = q.InsertItemsAt(1, &q[2], 2);
      m.insert(m.begin()+1, src.begin(), src.end());
      printf("B: returned %s\n", r());
      if (!Check("B: Queue<String> cap=4 (full) .InsertItemsAt(1, &q[2], 2)", q, m)) bad++;
   }

   // Case C: owning items held in the inline small-buffer (3 slots, full): migration to the heap resets the inline slots before they are read
   {
      Queue<String> q;
      std::vector<String> m;
      const char * names[] = {"a", "b", "c"};
      for (int i=0; i<3; i++) {(void) q.AddTail(String(names[i])); m.push_back(String(names[i]));}
      const std::vector<String> src(m.begin()+1, m.begin()+3);
      const status_t r = q.InsertItemsAt(1, &q[1], 2);
      m.insert(m.begin()+1, src.begin(), src.end());
      printf("C: returned %s\n", r());
      if (!Check("C: Queue<String> inline {a,b,c}.InsertItemsAt(1, &q[1], 2)", q, m)) bad++;
   }

   // Control: the Queue-argument overload guards against this (tempQ copy) and gives the ideal result
   {
      Queue<int> q; (void) q.EnsureSize(8);
      std::vector<int> m;
      for (int i=1; i<=4; i++) {(void) q.AddTail(i*10); m.push_back(i*10);}
      const std::vector<int> src(m.begin()+2, m.begin()+4);
      (void) q.InsertItemsAt(1, q, 2, 2);
      m.insert(m.begin()+1, src.begin(), src.end());
      if (!Check("control: q.InsertItemsAt(1, q, 2, 2)  (Queue overload)", q, m)) bad++;
   }

   printf("%d case(s) deviate from the ideal sequence\n", bad);
   return bad ? 1 : 0;
}
