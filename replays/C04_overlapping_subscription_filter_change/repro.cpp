// Observation on the UNCHANGED library: changing the filter of one subscription sends a "node removed"
// notice for a node that is still matched by another (overlapping) subscription of the same session.
// History:
//   P publishes n1{v=5}.
//   S subscribes to /*/*/n*   (no filter)      -> S holds n1
//   S subscribes to /*/*/*1   (no filter)      -> n1 matched by both subscriptions
//   S re-subscribes to /*/*/n* with filter (v > 10)
//        -> n1 no longer matches subscription 1, but it still matches subscription 2 (/*/*/*1, unfiltered),
//           so it must stay in S's mirror.
#include "harness.h"

int main()
{
   CompleteSetupSystem css;
   ReflectServer server;
   StartServer(server);

   Client P("P"), S("S"), O("observer");
   S._verbose = true;

   SetNode(P, "n1", 5); Sync(P);

   Int32QueryFilter gt10("v", Int32QueryFilter::OP_GREATER_THAN, 10);

   Subscribe(S, "/*/*/n*"); Sync(S);
   Subscribe(S, "/*/*/*1"); Sync(S);
   Quiesce();

   bool ok = true;
   Mirror expected;
   QueryServer(O, "/*/*/n*", NULL, expected);
   QueryServer(O, "/*/*/*1", NULL, expected);
   ok &= Check("step 1: S subscribed to /*/*/n* and /*/*/*1, both unfiltered", S, expected);

   Subscribe(S, "/*/*/n*", &gt10); Sync(S);   // same path, new filter
   Quiesce();
   expected.clear();
   QueryServer(O, "/*/*/n*", &gt10, expected);
   QueryServer(O, "/*/*/*1", NULL,  expected);
   ok &= Check("step 2: S changed the filter of /*/*/n* to (v > 10); /*/*/*1 is still unfiltered", S, expected);

   // Variant: the filter change and the (new) overlapping subscription arrive in ONE SETPARAMETERS message
   Client T("T");
   T._verbose = true;
   Subscribe(T, "/*/*/n*"); Sync(T);
   {
      MessageRef m = GetMessageFromPool(PR_COMMAND_SETPARAMETERS);
      MessageRef fm = GetMessageFromPool();
      (void) gt10.SaveToArchive(*fm());
      (void) m()->AddMessage("SUBSCRIBE:/*/*/n*", fm);   // existing subscription, new filter
      (void) m()->AddBool("SUBSCRIBE:/*/*/*1", true);    // new, unfiltered, also matches n1
      T.Send(m);
      Sync(T);
   }
   Quiesce();
   ok &= Check("step 3: client T: filter change of /*/*/n* and new subscription /*/*/*1 in one SETPARAMETERS message", T, expected);

   return Finish(ok);
}
