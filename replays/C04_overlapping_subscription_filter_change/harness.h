// Shared single-threaded test harness: an in-process ReflectServer with StorageReflectSessions, plus
// real TCP clients (non-blocking sockets) that keep a "mirror" of the subscribed node tree by applying
// every PR_RESULT_DATAITEMS update in order (removals first, then sets, within one update).
#ifndef C04_HARNESS_H
#define C04_HARNESS_H

#include <map>
#include <string>
#include <vector>
#include <stdio.h>
#include <stdlib.h>

#include "dataio/TCPSocketDataIO.h"
#include "iogateway/MessageIOGateway.h"
#include "reflector/ReflectServer.h"
#include "reflector/StorageReflectSession.h"
#include "reflector/StorageReflectConstants.h"
#include "regex/QueryFilter.h"
#include "system/SetupSystem.h"
#include "util/NetworkUtilityFunctions.h"
#include "syslog/SysLog.h"

using namespace muscle;

typedef std::map<std::string, std::string> Mirror;   // node path -> payload summary

static std::string Summarize(const Message & m)
{
   int32 v;
   char buf[64];
   if (m.FindInt32("v", v).IsOK()) {snprintf(buf, sizeof(buf), "v=%i", (int)v); return buf;}
   return m.HasNames() ? "(other)" : "(empty)";
}

class Client;
static std::vector<Client *> _clients;
static ReflectServer * _server = NULL;
static uint16 _port = 0;

class Client
{
public:
   Client(const char * name) : _name(name), _io(NULL), _pongs(0), _verbose(false)
   {
      _sock = Connect(IPAddressAndPort(localhostIP, _port), NULL, name, true);
      if (_sock() == NULL) {printf("connect failed\n"); exit(10);}
      _io = new TCPSocketDataIO(_sock, false);
      _gw.SetDataIO(DataIORef(_io));
      _clients.push_back(this);
   }

   ~Client() {Disconnect();}

   void Disconnect()
   {
      for (size_t i=0; i<_clients.size(); i++) if (_clients[i] == this) {_clients.erase(_clients.begin()+i); break;}
      _gw.SetDataIO(DataIORef());
      _sock.Reset();
   }

   void Send(const MessageRef & m) {(void) _gw.AddOutgoingMessage(m);}

   // one non-blocking I/O pass
   void Pump()
   {
      if (_sock() == NULL) return;
      while(_gw.HasBytesToOutput()) {if (_gw.DoOutput().GetByteCount() <= 0) break;}
      (void) _gw.DoInput(_inq);
      MessageRef m;
      while(_inq.RemoveHead(m).IsOK()) if (m()) Handle(*m());
   }

   void Handle(const Message & m)
   {
      switch(m.what)
      {
         case PR_RESULT_PONG: _pongs++; break;
         case PR_RESULT_PARAMETERS:
         {
            const String * r; if (m.FindString(PR_NAME_SESSION_ROOT, &r).IsOK()) _root = r->Cstr();
         }
         break;
         case PR_RESULT_DATAITEMS:
         {
            if (_verbose) printf("   [%s] update:", _name.c_str());
            const String * rs;
            for (int32 i=0; m.FindString(PR_NAME_REMOVED_DATAITEMS, i, &rs).IsOK(); i++)
            {
               if (_verbose) printf(" -%s", rs->Cstr());
               _mirror.erase(rs->Cstr());
            }
            for (MessageFieldNameIterator it = m.GetFieldNameIterator(B_MESSAGE_TYPE); it.HasData(); it++)
            {
               ConstMessageRef sub;
               for (int32 i=0; m.FindMessage(it.GetFieldName(), i, sub).IsOK(); i++)
               {
                  if (_verbose) printf(" +%s{%s}", it.GetFieldName()(), Summarize(*sub()).c_str());
                  _mirror[it.GetFieldName()()] = Summarize(*sub());
               }
            }
            if (_verbose) printf("\n");
         }
         break;
         default: break;
      }
   }

   std::string _name;
   ConstSocketRef _sock;
   TCPSocketDataIO * _io;
   MessageIOGateway _gw;
   QueueGatewayMessageReceiver _inq;
   Mirror _mirror;
   std::string _root;
   int _pongs;
   bool _verbose;
};

static void PumpAll()
{
   (void) _server->ServerProcessLoop(0);
   for (size_t i=0; i<_clients.size(); i++) _clients[i]->Pump();
}

// Waits until the server has processed everything (c) has sent so far and (c) has received everything queued for it up to then.
static void Sync(Client & c)
{
   const int want = c._pongs+1;
   c.Send(GetMessageFromPool(PR_COMMAND_PING));
   const uint64 giveUp = GetRunTime64()+SecondsToMicros(10);
   while(c._pongs < want)
   {
      PumpAll();
      if (GetRunTime64() > giveUp) {printf("Sync(%s) timed out!\n", c._name.c_str()); exit(10);}
   }
}

// Server-side quiescence:  every client in turn does a ping/pong round trip, twice.
static void Quiesce()
{
   for (int pass=0; pass<2; pass++) for (size_t i=0; i<_clients.size(); i++) Sync(*_clients[i]);
   for (int i=0; i<20; i++) PumpAll();
}

static void StartServer(ReflectServer & server)
{
   SetConsoleLogLevel(MUSCLE_LOG_ERROR);
   _server = &server;
   if (server.PutAcceptFactory(0, ReflectSessionFactoryRef(new StorageReflectSessionFactory), localhostIP, &_port).IsError()) {printf("PutAcceptFactory failed\n"); exit(10);}
   (void) server.ServerProcessLoop(0);
}

static void FetchRoot(Client & c)
{
   c.Send(GetMessageFromPool(PR_COMMAND_GETPARAMETERS));
   Sync(c);
}

static MessageRef MakePayload(int32 v)
{
   MessageRef m = GetMessageFromPool(1234);
   (void) m()->AddInt32("v", v);
   return m;
}

static void SetNode(Client & c, const char * path, int32 v)
{
   MessageRef m = GetMessageFromPool(PR_COMMAND_SETDATA);
   (void) m()->AddMessage(path, MakePayload(v));
   c.Send(m);
}

static void RemoveNodes(Client & c, const char * path)
{
   MessageRef m = GetMessageFromPool(PR_COMMAND_REMOVEDATA);
   (void) m()->AddString(PR_NAME_KEYS, path);
   c.Send(m);
}

static void Subscribe(Client & c, const char * path, const QueryFilter * optFilter = NULL, bool quietly = false)
{
   MessageRef m = GetMessageFromPool(PR_COMMAND_SETPARAMETERS);
   String fn = String("SUBSCRIBE:")+path;
   if (optFilter)
   {
      MessageRef fm = GetMessageFromPool();
      (void) optFilter->SaveToArchive(*fm());
      (void) m()->AddMessage(fn, fm);
   }
   else (void) m()->AddBool(fn, true);
   if (quietly) (void) m()->AddBool(PR_NAME_SUBSCRIBE_QUIETLY, true);
   c.Send(m);
}

static void Unsubscribe(Client & c, const char * path)
{
   MessageRef m = GetMessageFromPool(PR_COMMAND_REMOVEPARAMETERS);
   String fn = String("SUBSCRIBE:")+path;
   (void) m()->AddString(PR_NAME_KEYS, EscapeRegexTokens(fn));
   c.Send(m);
}

static void PrintMirror(const char * label, const Mirror & m)
{
   printf("%s {", label);
   bool first = true;
   for (Mirror::const_iterator it = m.begin(); it != m.end(); ++it) {printf("%s%s=%s", first?"":", ", it->first.c_str(), it->second.c_str()); first = false;}
   printf("}\n");
}

// Compares the client's mirror with the expected set; prints and returns true iff they agree.
static bool Check(const char * what, const Client & c, const Mirror & expected)
{
   const bool ok = (c._mirror == expected);
   printf("%s\n", what);
   PrintMirror("   expected (server tree restricted to the subscriptions):", expected);
   PrintMirror("   subscriber's mirror:                                  ", c._mirror);
   printf("   => %s\n", ok ? "OK (mirror == server)" : "VIOLATION (mirror != server)");
   return ok;
}

// Asks the server (via a plain PR_COMMAND_GETDATA issued by a separate, unsubscribed observer client) which nodes currently match
// (path [, filter]).  The results are merged into (into).  This is the "server's tree restricted to the subscription".
static void QueryServer(Client & observer, const char * path, const QueryFilter * optFilter, Mirror & into)
{
   observer._mirror.clear();
   MessageRef m = GetMessageFromPool(PR_COMMAND_GETDATA);
   (void) m()->AddString(PR_NAME_KEYS, path);
   if (optFilter)
   {
      MessageRef fm = GetMessageFromPool();
      (void) optFilter->SaveToArchive(*fm());
      (void) m()->AddMessage(PR_NAME_FILTERS, fm);
   }
   observer.Send(m);
   Sync(observer);
   for (Mirror::const_iterator it = observer._mirror.begin(); it != observer._mirror.end(); ++it) into[it->first] = it->second;
   observer._mirror.clear();
}

static int Finish(bool ok)
{
   printf("RESULT: %s\n", ok ? "PASS (property holds on this history)" : "FAIL (property C04 violated)");
   fflush(stdout);
   _server->Cleanup();
   return ok ? 0 : 1;
}

#endif
