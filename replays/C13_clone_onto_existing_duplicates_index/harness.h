// Small in-process harness for the C13 demonstrations.
//
// A ReflectServer is created but its event loop is never run; StorageReflectSessions are attached
// without sockets and driven by handing them the same PR_COMMAND_* Messages a client would send
// (through the public CallMessageReceivedFromGateway(), i.e. exactly the path used for a Message
// that arrived from the session's gateway).  Every Message the server would send to the session's
// client is captured in MessageReceivedFromSession() and fed to a tiny "client model" that keeps a
// replica of every ordered index by replaying PR_RESULT_INDEXUPDATED instructions in order.
#ifndef C13_HARNESS_H
#define C13_HARNESS_H

#include <stdio.h>
#include <map>
#include <string>
#include <vector>

#include "reflector/ReflectServer.h"
#include "reflector/StorageReflectSession.h"
#include "reflector/StorageReflectConstants.h"
#include "system/SetupSystem.h"

using namespace muscle;

typedef std::vector<std::string> StrVec;

static std::string VecToString(const StrVec & v)
{
   std::string s = "[";
   for (size_t i=0; i<v.size(); i++) {if (i) s += ","; s += v[i];}
   return s+"]";
}

class TestSession : public StorageReflectSession
{
public:
   explicit TestSession(const char * label) : _label(label), _verbose(true), _muted(false) {/* empty */}

   // ---- the "client" side: replica of all ordered indices, keyed by absolute node path ----
   std::map<std::string, StrVec> _replica;
   std::string _label;
   bool _verbose;
   bool _muted;   // set before server shutdown, so that the teardown traffic is ignored

   virtual void MessageReceivedFromSession(AbstractReflectSession & /*from*/, const MessageRef & msgRef, void * /*userData*/)
   {
      const Message * m = msgRef();
      if ((m == NULL)||(_muted)) return;
      if (m->what == PR_RESULT_INDEXUPDATED)
      {
         for (MessageFieldNameIterator it = m->GetFieldNameIterator(B_STRING_TYPE); it.HasData(); it++)
         {
            const String & path = it.GetFieldName();
            StrVec & idx = _replica[path()];
            const String * ins;
            for (int32 i=0; m->FindString(path, i, &ins).IsOK(); i++)
            {
               if (_verbose) printf("      [%s's client] <- INDEXUPDATED %s : %s\n", _label.c_str(), path(), ins->Cstr());
               const char op = (*ins)[0];
               if (op == INDEX_OP_CLEARED) idx.clear();
               else
               {
                  const int32 colon = ins->IndexOf(':');
                  const uint32 pos  = (uint32) atol(ins->Cstr()+1);
                  const std::string name = ins->Substring(colon+1)();
                  if (op == INDEX_OP_ENTRYINSERTED)
                  {
                     if (pos <= idx.size()) idx.insert(idx.begin()+pos, name);
                                       else printf("      [%s's client] !!! insert position %u is beyond the end of my replica (size %u)\n", _label.c_str(), pos, (unsigned) idx.size());
                  }
                  else if (op == INDEX_OP_ENTRYREMOVED)
                  {
                     if (pos < idx.size())
                     {
                        if (idx[pos] != name) printf("      [%s's client] !!! remove position %u holds [%s] in my replica, server says [%s]\n", _label.c_str(), pos, idx[pos].c_str(), name.c_str());
                        idx.erase(idx.begin()+pos);
                     }
                     else printf("      [%s's client] !!! remove position %u is beyond the end of my replica (size %u)\n", _label.c_str(), pos, (unsigned) idx.size());
                  }
               }
            }
         }
      }
      else if (m->what == PR_RESULT_DATAITEMS)
      {
         // a node that was removed takes its index with it
         const String * rp;
         for (int32 i=0; m->FindString(PR_NAME_REMOVED_DATAITEMS, i, &rp).IsOK(); i++) _replica.erase(rp->Cstr());
      }
   }

   // ---- the "wire" side: hand a client command to the session, the way the gateway would ----
   void Client(const MessageRef & cmd) {CallMessageReceivedFromGateway(cmd, NULL);}

   void ClientSubscribe(const char * path, bool quietly = false)
   {
      MessageRef m = GetMessageFromPool(PR_COMMAND_SETPARAMETERS);
      (void) m()->AddBool(String("SUBSCRIBE:")+path, true);
      if (quietly) (void) m()->AddBool(PR_NAME_SUBSCRIBE_QUIETLY, true);
      Client(m);
   }
   void ClientUnsubscribe(const char * path)
   {
      MessageRef m = GetMessageFromPool(PR_COMMAND_REMOVEPARAMETERS);
      (void) m()->AddString(PR_NAME_KEYS, String("SUBSCRIBE:")+path);
      Client(m);
   }
   static MessageRef MakeSetData(const char * relPath)
   {
      MessageRef m = GetMessageFromPool(PR_COMMAND_SETDATA);
      MessageRef d = GetMessageFromPool(1234); (void) d()->AddString("v", relPath);
      (void) m()->AddMessage(relPath, d);
      return m;
   }
   static MessageRef MakeInsert(const char * parentRelPath, const char * before, int count = 1)
   {
      MessageRef m = GetMessageFromPool(PR_COMMAND_INSERTORDEREDDATA);
      (void) m()->AddString(PR_NAME_KEYS, parentRelPath);
      for (int i=0; i<count; i++) {MessageRef d = GetMessageFromPool(1234); (void) d()->AddInt32("n", i); (void) m()->AddMessage(before, d);}
      return m;
   }
   static MessageRef MakeReorder(const char * childRelPath, const char * before)
   {
      MessageRef m = GetMessageFromPool(PR_COMMAND_REORDERDATA);
      (void) m()->AddString(childRelPath, before);
      return m;
   }
   static MessageRef MakeRemove(const char * relPath, bool quietly = false)
   {
      MessageRef m = GetMessageFromPool(PR_COMMAND_REMOVEDATA);
      (void) m()->AddString(PR_NAME_KEYS, relPath);
      if (quietly) (void) m()->AddBool(PR_NAME_REMOVE_QUIETLY, true);
      return m;
   }
   static MessageRef MakeGetData(const char * path)
   {
      MessageRef m = GetMessageFromPool(PR_COMMAND_GETDATA);
      (void) m()->AddString(PR_NAME_KEYS, path);
      return m;
   }
   void ClientSetData(const char * relPath)                               {Client(MakeSetData(relPath));}
   void ClientInsert(const char * parent, const char * before, int n = 1) {Client(MakeInsert(parent, before, n));}
   void ClientReorder(const char * child, const char * before)            {Client(MakeReorder(child, before));}
   void ClientRemove(const char * relPath, bool quietly = false)          {Client(MakeRemove(relPath, quietly));}
   void ClientGetData(const char * path)                                  {Client(MakeGetData(path));}

   // ---- server-side peeking (for the oracle) ----
   DataNode * Node(const char * relPath) const {return GetDataNode(relPath);}
   std::string AbsPath(const char * relPath) const {return std::string(GetSessionRootPath()()) + "/" + relPath;}
   using StorageReflectSession::SetDataNode;
   using StorageReflectSession::CloneDataNodeSubtree;
   using StorageReflectSession::SaveNodeTreeToMessage;
   using StorageReflectSession::RestoreNodeTreeFromMessage;
   using StorageReflectSession::RemoveDataNodes;
   using StorageReflectSession::MoveIndexEntries;
   using StorageReflectSession::PushSubscriptionMessages;
};
DECLARE_REFTYPES(TestSession);

static StrVec ServerIndex(const DataNode * n)
{
   StrVec r;
   const Queue<DataNodeRef> * q = n ? n->GetIndex() : NULL;
   if (q) for (uint32 i=0; i<q->GetNumItems(); i++) r.push_back((*q)[i]()->GetNodeName()());
   return r;
}

// Checks the "lists only existing children, each at most once" half of the property on the server's own index.
static bool CheckServerIndexSane(const DataNode * n)
{
   bool ok = true;
   const Queue<DataNodeRef> * q = n ? n->GetIndex() : NULL;
   if (q)
   {
      for (uint32 i=0; i<q->GetNumItems(); i++)
      {
         const DataNode * e = (*q)[i]();
         DataNodeRef c = n->GetChild(e->GetNodeName());
         if (c() != e)            {printf("   VIOLATION: server index slot %u names [%s], which is not a current child of [%s]\n", i, e->GetNodeName()(), n->GetNodePath()()); ok = false;}
         for (uint32 j=0; j<i; j++) if ((*q)[j]()->GetNodeName() == e->GetNodeName()) {printf("   VIOLATION: server index of [%s] lists [%s] twice (slots %u and %u)\n", n->GetNodePath()(), e->GetNodeName()(), j, i); ok = false;}
      }
   }
   return ok;
}

// Compares one client's replica of the index of (n) with the server's index of (n).
static bool CheckReplica(const TestSession & s, const DataNode * n)
{
   const StrVec srv = ServerIndex(n);
   std::map<std::string, StrVec>::const_iterator it = s._replica.find(n->GetNodePath()());
   const StrVec cli = (it != s._replica.end()) ? it->second : StrVec();
   const bool ok = (srv == cli);
   printf("   %s: server index of %s = %s, %s's replayed replica = %s\n", ok?"ok":"VIOLATION", n->GetNodePath()(), VecToString(srv).c_str(), s._label.c_str(), VecToString(cli).c_str());
   return ok;
}

#endif
