// Observation (UNCHANGED library): StorageReflectSession::CloneDataNodeSubtree() onto a destination
// that already exists and already has (part of) the same ordered index inserts every index entry a
// second time, because DataNode::InsertIndexEntryAt() does not check whether the child is already
// listed and CloneDataNodeSubtree() does not clear / reconcile the destination's index first.
#include "harness.h"

int main()
{
   CompleteSetupSystem css;
   SetConsoleLogLevel(MUSCLE_LOG_ERROR);

   ReflectServer server;
   TestSessionRef a(new TestSession("A"));
   TestSessionRef b(new TestSession("B"));
   if ((server.AddNewSession(a).IsError())||(server.AddNewSession(b).IsError())) {printf("setup failed\n"); return 10;}

   bool ok = true;
   b()->ClientSubscribe("/*/*/*");

   a()->ClientSetData("src");
   a()->ClientInsert("src", "", 3);     // src index = [I0,I1,I2]

   printf("first  CloneDataNodeSubtree(src -> dst):\n");
   status_t r = a()->CloneDataNodeSubtree(*a()->Node("src"), "dst");
   a()->PushSubscriptionMessages();
   printf("   returned [%s]\n", r());
   ok &= CheckServerIndexSane(a()->Node("dst"));
   ok &= CheckReplica(*b(), a()->Node("dst"));

   printf("second CloneDataNodeSubtree(src -> dst)  (e.g. a periodic 'refresh the copy'):\n");
   r = a()->CloneDataNodeSubtree(*a()->Node("src"), "dst");
   a()->PushSubscriptionMessages();
   printf("   returned [%s]\n", r());
   ok &= CheckServerIndexSane(a()->Node("dst"));
   ok &= CheckReplica(*b(), a()->Node("dst"));
   printf("   dst has %u children, its index has %u entries\n", a()->Node("dst")->GetNumChildren(), (unsigned) ServerIndex(a()->Node("dst")).size());

   printf("follow-up: A: PR_COMMAND_REMOVEDATA dst/I1\n");
   a()->ClientRemove("dst/I1");
   printf("   dst has child I1: %s\n", a()->Node("dst")->HasChild("I1") ? "yes" : "no");
   ok &= CheckServerIndexSane(a()->Node("dst"));
   ok &= CheckReplica(*b(), a()->Node("dst"));

   printf("\nRESULT: %s\n", ok ? "PASS" : "FAIL (index lists a child more than once)");
   a()->_muted = b()->_muted = true;
   server.Cleanup();
   return ok ? 0 : 1;
}
