// UNCHANGED library: NumericAwareStrcmp()/String::NumericAwareCompareTo() order bytes >= 0x80 as NEGATIVE (plain char compare),
// i.e. opposite to strcmp()/String::CompareTo(), although they are documented as "same as strcmp() except numbers are sorted numerically".
#include <stdio.h>
#include "util/String.h"
#include "system/SetupSystem.h"
using namespace muscle;
static int sgn(int x) {return (x>0)-(x<0);}
int main()
{
   CompleteSetupSystem css;
   const char * pairs[][2] = {{"\xC3\xA9t\xC3\xA9", "zoo"}, {"file\xC3\xA9""1", "filez1"}, {"abc", "abd"}, {"\xE2\x82\xAC", "~"}};
   int bad = 0;
   for (uint32 i=0; i<ARRAYITEMS(pairs); i++)
   {
      const String a(pairs[i][0]), b(pairs[i][1]);
      const int ideal = sgn(strcmp(a(), b()));
      const int nat   = sgn(a.NumericAwareCompareTo(b));
      const int natic = sgn(a.NumericAwareCompareToIgnoreCase(b));
      printf("a=[%s] b=[%s]: strcmp=%d CompareTo=%d (a<b)=%d | NumericAwareCompareTo=%d NumericAwareCompareToIgnoreCase=%d NumericAwareStrcmp=%d  %s\n", a(), b(), ideal, sgn(a.CompareTo(b)), (int)(a<b), nat, natic, sgn(NumericAwareStrcmp(a(), b())), (nat==ideal)?"ok":"MISMATCH (no digits involved)");
      if (nat != ideal) bad++;
   }
   printf("%d mismatches\n", bad);
   return bad?1:0;
}
