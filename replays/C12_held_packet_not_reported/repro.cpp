// Observation on the UNCHANGED library: when the DataIO refuses a packet (Write() returns 0, would-block), both
// tunnel gateways keep the packet in their private output buffer "until the next call", but HasBytesToOutput()
// only looks at the Message queues, not at the held packet.  A standard MUSCLE event loop calls DoOutput() only
// while HasBytesToOutput() is true (see test/testpackettunnel.cpp, AbstractMessageIOGateway::ExecuteSynchronousMessaging(),
// the reflector's session code), so the held packet -- and the Messages in it -- is never transmitted unless some
// later Message happens to be queued.
#include "harness.h"

class GateIO : public DataIO
{
public:
   GateIO() : blocked(false) {}
   virtual io_status_t Read(void *, uint32) {return io_status_t(0);}
   virtual io_status_t Write(const void * buffer, uint32 size)
   {
      if (blocked) return io_status_t(0);
      packets.push_back(GetByteBufferFromPool(size, (const uint8 *) buffer));
      return io_status_t((int32)size);
   }
   virtual void FlushOutput() {}
   virtual void Shutdown() {}
   virtual const ConstSocketRef & GetReadSelectSocket()  const {return GetNullSocket();}
   virtual const ConstSocketRef & GetWriteSelectSocket() const {return GetNullSocket();}
   bool blocked;
   Packets packets;
};

template<class GW> static int RunTest(const char * name)
{
   const uint32 mtu = 300;
   GateIO * sio = new GateIO; DataIORef sioRef(sio);
   ByteBufferPacketDataIO * rio = new ByteBufferPacketDataIO(mtu); DataIORef rioRef(rio);
   GW sgw(AbstractMessageIOGatewayRef(), mtu); sgw.SetDataIO(sioRef);
   GW rgw(AbstractMessageIOGatewayRef(), mtu); rgw.SetDataIO(rioRef);

   MessageRef a = GetMessageFromPool(1); (void) a()->AddString("hello", "world");
   (void) sgw.AddOutgoingMessage(a);

   // Standard event loop:  "if (gateway.HasBytesToOutput()) wait for write-ready, then call DoOutput()"
   uint32 numDoOutputCalls = 0;
   for (int iter=0; iter<1000; iter++)
   {
      sio->blocked = (iter == 0);   // the socket is momentarily not writable during the first iteration only
      if (sgw.HasBytesToOutput()) {(void) sgw.DoOutput(); numDoOutputCalls++;}
   }

   Rx rx;
   const IPAddressAndPort from(IPAddress("10.0.0.1"), 5000);
   for (size_t i=0; i<sio->packets.size(); i++) Deliver(rgw, *rio, rx, sio->packets[i], from);
   printf("%s: 1 Message sent; event loop ran 1000 iterations (DataIO refused a packet only during the first one); DoOutput() was called %u time(s); HasBytesToOutput()=%d; packets transmitted=%u; Messages delivered=%u\n",
          name, (unsigned)numDoOutputCalls, (int)sgw.HasBytesToOutput(), (unsigned)sio->packets.size(), (unsigned)rx.got.size());
   return (rx.got.size() == 1) ? 0 : 1;
}

int main(int, char **)
{
   CompleteSetupSystem css;
   int bad = 0;
   bad += RunTest<PacketTunnelIOGateway>("PacketTunnelIOGateway");
   bad += RunTest<MiniPacketTunnelIOGateway>("MiniPacketTunnelIOGateway");
   printf("%s\n", bad ? "RESULT: PROPERTY VIOLATED on the unchanged library (the sent Message is stuck in the gateway and never delivered)" : "RESULT: ok");
   return bad?1:0;
}
