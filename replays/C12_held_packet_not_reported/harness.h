// Small in-memory harness for the packet tunnel gateways
#include <stdio.h>
#include <vector>
#include <string>
#include "dataio/ByteBufferPacketDataIO.h"
#include "iogateway/PacketTunnelIOGateway.h"
#include "iogateway/MiniPacketTunnelIOGateway.h"
#include "iogateway/MessageIOGateway.h"
#include "system/SetupSystem.h"
#include "util/MiscUtilityFunctions.h"

using namespace muscle;

struct Delivered {MessageRef msg; IPAddressAndPort from;};

class Rx : public AbstractGatewayMessageReceiver
{
public:
   std::vector<Delivered> got;
protected:
   virtual void MessageReceivedFromGateway(const MessageRef & msg, void * userData)
   {
      Delivered d; d.msg = msg; if (userData) d.from = *static_cast<const IPAddressAndPort *>(userData);
      got.push_back(d);
   }
};

typedef std::vector<ByteBufferRef> Packets;

// Drains everything the gateway wants to send into a vector of packets
static inline Packets SendAll(AbstractMessageIOGateway & gw, ByteBufferPacketDataIO & io)
{
   Packets ret;
   while(gw.HasBytesToOutput())
   {
      const io_status_t r = gw.DoOutput();
      if (r.IsError()) {printf("DoOutput error [%s]\n", r.GetStatus()()); break;}
      if (r.GetByteCount() == 0) break;
   }
   Queue<ByteBufferRefAndIPAddressAndPort> & q = io.GetWrittenBuffers();
   for (uint32 i=0; i<q.GetNumItems(); i++) ret.push_back(q[i].GetByteBufferRef());
   q.Clear();
   return ret;
}

static inline void Deliver(AbstractMessageIOGateway & gw, ByteBufferPacketDataIO & io, Rx & rx, const ByteBufferRef & pkt, const IPAddressAndPort & from)
{
   io.GetBuffersToRead().AddTail(ConstByteBufferRefAndIPAddressAndPort(pkt, from));
   while(io.GetBuffersToRead().HasItems()) {if (gw.DoInput(rx).IsError()) break;}
}
