// Observation (UNCHANGED library):  WebSocketMessageIOGateway::DoInputImplementation(), HTTP-handshake state.
//
//    char c;
//    const io_status_t readRet = GetDataIO()()->Read(&c, 1);
//    if (readRet.IsError()) {ret = readRet.GetStatus(); break;}
//    _receivedHTTPText += c;          // <-- also executed when Read() returned 0 bytes ("nothing available right now")
//
// A non-blocking DataIO returns 0 (not an error) when no byte is available yet.  In that case (c) was not
// written by Read():  it is uninitialized on the first pass (UB) or still holds the previous character, and it
// is appended to the HTTP text anyway;  maxBytes is not decremented either, so the loop keeps spinning and
// appending the stale byte until the text exceeds 25KB, whereupon the gateway declares B_BAD_DATA and
// becomes unusable.  So a perfectly valid upgrade request that merely arrives in two TCP segments
// (or a DoInput() call made before the first byte arrives) is rejected / corrupts the parser state,
// while the same bytes delivered in a single segment are accepted:  the result depends on the segmentation.
#include <stdio.h>
#include <string.h>
#include "dataio/DataIO.h"
#include "iogateway/WebSocketMessageIOGateway.h"
#include "iogateway/PlainTextMessageIOGateway.h"
#include "system/SetupSystem.h"
#include "util/Queue.h"

using namespace muscle;

// Delivers the scripted segments one at a time;  when the current segment is used up, Read() returns 0
// (like a non-blocking socket with an empty receive buffer) until NextSegment() is called.
class SegmentedDataIO : public DataIO
{
public:
   SegmentedDataIO() : _pos(0), _numZeroReads(0) {}
   void AddSegment(const ByteBuffer & bb) {(void) _segs.AddTail(bb);}
   bool NextSegment() {if (_segs.HasItems()) {_cur = _segs.Head(); (void) _segs.RemoveHead(); _pos = 0; return true;} return false;}

   virtual io_status_t Read(void * buffer, uint32 size)
   {
      const uint32 avail = _cur.GetNumBytes()-_pos;
      const uint32 n = muscleMin(avail, size);
      if (n == 0) {_numZeroReads++; return io_status_t(0);}
      memcpy(buffer, _cur.GetBuffer()+_pos, n); _pos += n;
      return io_status_t((int32)n);
   }
   virtual io_status_t Write(const void *, uint32 size) {return io_status_t((int32)size);}
   virtual void FlushOutput() {}
   virtual void Shutdown() {}
   virtual const ConstSocketRef & GetReadSelectSocket()  const {return GetNullSocket();}
   virtual const ConstSocketRef & GetWriteSelectSocket() const {return GetNullSocket();}

   uint32 _numZeroReads;
private:
   Queue<ByteBuffer> _segs;
   ByteBuffer _cur;
   uint32 _pos;
};

static ByteBuffer MakeBB(const void * p, uint32 n) {ByteBuffer b; (void) b.SetBuffer(n, (const uint8 *)p); return b;}

static int RunCase(const char * desc, uint32 splitAt)
{
   const char * http = "GET /chat HTTP/1.1\r\nHost: example.com\r\nUpgrade: websocket\r\nConnection: Upgrade\r\nSec-WebSocket-Key: dGhlIHNhbXBsZSBub25jZQ==\r\nSec-WebSocket-Version: 13\r\n\r\n";
   const uint32 httpLen = (uint32) strlen(http);
   // one masked, final TEXT frame carrying "Hi"
   const uint8 mask[4] = {1,2,3,4};
   const uint8 frame[] = {0x81, 0x82, mask[0], mask[1], mask[2], mask[3], (uint8)('H'^mask[0]), (uint8)('i'^mask[1])};

   ByteBuffer all; (void) all.AppendBytes((const uint8 *)http, httpLen); (void) all.AppendBytes(frame, sizeof(frame));

   SegmentedDataIO io;
   if (splitAt == 0) io.AddSegment(all);
   else
   {
      io.AddSegment(MakeBB(all.GetBuffer(), splitAt));
      io.AddSegment(MakeBB(all.GetBuffer()+splitAt, all.GetNumBytes()-splitAt));
   }

   WebSocketMessageIOGateway gw;   // server side, expects the HTTP upgrade request first
   gw.SetDataIO(DummyDataIORef(io));
   QueueGatewayMessageReceiver q;

   printf("--- %s\n", desc);
   int segIdx = 0;
   status_t lastErr;
   while(io.NextSegment())
   {
      const io_status_t r = gw.DoInput(q, MUSCLE_NO_LIMIT);
      printf("   segment %i: DoInput() -> byteCount=%i status=[%s]  (zero-byte Read() calls so far: %u)\n", segIdx++, (int) r.GetByteCount(), r.GetStatus()(), (unsigned) io._numZeroReads);
      if (r.IsError()) lastErr = r.GetStatus();
   }
   uint32 numLines = 0;
   while(q.GetMessages().HasItems())
   {
      MessageRef m; (void) q.GetMessages().RemoveHead(m);
      const String * s;
      for (uint32 i=0; m()->FindString(PR_NAME_TEXT_LINE, i, &s).IsOK(); i++) {printf("   received text line [%s]\n", s->Cstr()); numLines++;}
   }
   const bool ok = ((numLines == 1)&&(lastErr.IsOK()));
   printf("   => %s\n", ok ? "OK: upgrade accepted and the text frame was delivered" : "VIOLATION: valid input was rejected / frame lost, only because of how it was segmented");
   return ok ? 0 : 1;
}

int main()
{
   CompleteSetupSystem css;
   int bad = 0;
   bad += RunCase("whole stream delivered in ONE segment", 0);
   bad += RunCase("same bytes, HTTP preamble split after 30 bytes (two segments, Read() returns 0 in between)", 30);
   return bad ? 1 : 0;
}
