// Shared helper for the observation repros: flatten, parse, compare, re-flatten.
#include <stdio.h>
#include <string.h>
#include "message/Message.h"
#include "system/SetupSystem.h"
using namespace muscle;

static int RoundTrip(const char * desc, const Message & orig)
{
   int bad = 0;
   const uint32 fs = orig.FlattenedSize();
   ByteBufferRef buf = GetByteBufferFromPool(fs);
   orig.FlattenToBytes(buf()->GetBuffer(), fs);

   Message parsed;
   const status_t ret = parsed.UnflattenFromBytes(buf()->GetBuffer(), fs);
   if (ret.IsError()) {printf("[%s] VIOLATION: Unflatten of our own bytes failed: %s\n", desc, ret()); return 1;}

   if (!(parsed == orig)) {printf("[%s] VIOLATION: (parsed == orig) is false\n", desc); bad = 1;}
   if (!(orig == parsed)) {printf("[%s] VIOLATION: (orig == parsed) is false\n", desc); bad = 1;}
   if (parsed.CalculateChecksum() != orig.CalculateChecksum()) {printf("[%s] VIOLATION: checksum changed (" UINT32_FORMAT_SPEC " -> " UINT32_FORMAT_SPEC ")\n", desc, orig.CalculateChecksum(), parsed.CalculateChecksum()); bad = 1;}
   if (parsed.FlattenedSize() != fs) {printf("[%s] VIOLATION: flattened size changed (" UINT32_FORMAT_SPEC " -> " UINT32_FORMAT_SPEC ")\n", desc, fs, parsed.FlattenedSize()); bad = 1;}
   else
   {
      ByteBufferRef buf2 = GetByteBufferFromPool(fs);
      parsed.FlattenToBytes(buf2()->GetBuffer(), fs);
      if (memcmp(buf2()->GetBuffer(), buf()->GetBuffer(), fs) != 0) {printf("[%s] VIOLATION: re-serialised bytes differ\n", desc); bad = 1;}
   }
   if (bad == 0) printf("[%s] OK: round trip exact\n", desc);
   return bad;
}
int main()
{
   CompleteSetupSystem css;
   int bad = 0;

   // control: a zero-length raw item whose ByteBuffer never had an allocation
   {
      Message m(1);
      (void) m.AddFlat("raw", GetByteBufferFromPool(0));
      bad += RoundTrip("0-byte ByteBuffer, never allocated", m);
   }
   // a zero-length raw item whose ByteBuffer still owns an allocation (10 bytes allocated, then truncated to 0)
   {
      ByteBufferRef bb = GetByteBufferFromPool(10);
      (void) bb()->SetNumBytes(0, false);
      printf("bb: GetNumBytes()=" UINT32_FORMAT_SPEC " GetBuffer()=%s\n", bb()->GetNumBytes(), bb()->GetBuffer()?"non-NULL":"NULL");
      Message m(1);
      (void) m.AddFlat("raw", bb);
      bad += RoundTrip("0-byte ByteBuffer, truncated (inline field)", m);

      Message m2(1);
      (void) m2.AddFlat("raw", bb);
      (void) m2.AddFlat("raw", GetByteBufferFromPool(3, (const uint8 *)"abc"));
      bad += RoundTrip("0-byte ByteBuffer, truncated (array field)", m2);
   }
   printf("%s\n", bad ? "RESULT: PROPERTY VIOLATED" : "RESULT: all round trips exact");
   return bad?1:0;
}
