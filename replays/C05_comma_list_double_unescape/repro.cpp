// Observation (UNCHANGED library): for a comma-list clause containing an escaped backslash, e.g.  a\\b,c  (matches the node
// names  a\b  and  c ), the traversal's direct-lookup branch un-escapes each list item TWICE and therefore looks up the
// child "ab".  Because the looked-up child is then treated as "known to match" (no regex check, and with a single pattern
// no full-path re-check either), the node "ab" is visited although it does not match, and the node "a\b" is not visited
// although it does.
#include "harness.h"
#include "regex/StringMatcher.h"

int main()
{
   CompleteSetupSystem css;
   SetConsoleLogLevel(MUSCLE_LOG_ERROR);

   const char * pat = "a\\\\b,c";   // the 6 characters  a \ \ b , c
   StringMatcher sm(pat);
   printf("pattern [%s]:  Match(\"ab\")=%d  Match(\"a\\b\")=%d  Match(\"c\")=%d   (this is what a per-node full-path test says)\n", pat, sm.Match("ab"), sm.Match("a\\b"), sm.Match("c"));

   TestServer srv;
   Client A(srv, "A"), B(srv, "B"), C(srv, "C"), D(srv, "D");
   B.SetNode("ab");       // does NOT match
   C.SetNode("a\\b");     // matches (node name is the 3 characters  a \ b)
   D.SetNode("c");        // matches
   B.Sync(); C.Sync(); D.Sync();

   int bad = 0;
   {MessageRef m = UserMsg("m1"); (void) m()->AddString(PR_NAME_KEYS, pat); A.Send(m);}
   SyncAll(A, {&B, &C, &D});
   printf("keys=[%s]   : B(owns ab) got %d (expect 0), C(owns a\\b) got %d (expect 1), D(owns c) got %d (expect 1)\n", pat, B.Count("m1"), C.Count("m1"), D.Count("m1"));
   if ((B.Count("m1") != 0)||(C.Count("m1") != 1)||(D.Count("m1") != 1)) bad++;

   // the same pattern with a wildcard pattern next to it goes through the iterate-all-children branch, which is correct
   {MessageRef m = UserMsg("m2"); (void) m()->AddString(PR_NAME_KEYS, pat); (void) m()->AddString(PR_NAME_KEYS, "zzz*"); A.Send(m);}
   SyncAll(A, {&B, &C, &D});
   printf("keys=[%s, zzz*]: B(owns ab) got %d (expect 0), C(owns a\\b) got %d (expect 1), D(owns c) got %d (expect 1)\n", pat, B.Count("m2"), C.Count("m2"), D.Count("m2"));
   if ((B.Count("m2") != 0)||(C.Count("m2") != 1)||(D.Count("m2") != 1)) bad++;

   printf("%s\n", bad ? "RESULT: PROPERTY VIOLATED by the unchanged library (traversal result differs from the per-node pattern test)" : "RESULT: OK");
   fflush(stdout);
   _exit(bad ? 1 : 0);
}
