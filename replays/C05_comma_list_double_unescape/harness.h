// Small test harness: runs a muscle ReflectServer (StorageReflectSession or DumbReflectSession factory)
// in a background thread of this process, and offers simple blocking TCP clients that talk to it.
#ifndef C05_HARNESS_H
#define C05_HARNESS_H

#include <stdio.h>
#include <stdlib.h>
#include <unistd.h>
#include <sys/select.h>
#include <thread>
#include <string>
#include <vector>

#include "dataio/TCPSocketDataIO.h"
#include "iogateway/MessageIOGateway.h"
#include "reflector/ReflectServer.h"
#include "reflector/StorageReflectSession.h"
#include "reflector/DumbReflectSession.h"
#include "reflector/StorageReflectConstants.h"
#include "regex/QueryFilter.h"
#include "system/SetupSystem.h"
#include "util/NetworkUtilityFunctions.h"

using namespace muscle;

enum {USER_MSG = 0x75736572};  // 'user' -- any what-code outside the PR_COMMAND range is a client-to-client Message

class TestServer
{
public:
   explicit TestServer(bool dumb = false) : _port(0)
   {
      ReflectSessionFactoryRef f;
      if (dumb) f.SetRef(new DumbReflectSessionFactory); else f.SetRef(new StorageReflectSessionFactory);
      if (_server.PutAcceptFactory(0, f, invalidIP, &_port).IsError()) {printf("PutAcceptFactory failed\n"); exit(10);}
      _thread = std::thread([this]() {(void) _server.ServerProcessLoop();});
      _thread.detach();
   }
   uint16 GetPort() const {return _port;}

private:
   ReflectServer _server;
   uint16 _port;
   std::thread _thread;
};

class Client
{
public:
   Client(const TestServer & s, const char * name) : _name(name)
   {
      _sock = Connect(IPAddressAndPort(localhostIP, s.GetPort()), NULL, NULL, true);
      if (_sock() == NULL) {printf("connect failed\n"); exit(10);}
      _gw.SetDataIO(DataIORef(new TCPSocketDataIO(_sock, false)));
      // learn our session id / root path
      Send(GetMessageFromPool(PR_COMMAND_GETPARAMETERS));
      MessageRef r = WaitFor(PR_RESULT_PARAMETERS);
      _root = r()->GetString(PR_NAME_SESSION_ROOT);   // e.g. /127.0.0.1/3
      _id   = _root.Substring("/");
   }

   const String & Root() const {return _root;}
   const String & ID()   const {return _id;}
   const char * Name()   const {return _name.c_str();}

   void Send(const MessageRef & m)
   {
      if (_gw.AddOutgoingMessage(m).IsError()) {printf("AddOutgoingMessage failed\n"); exit(10);}
      while(_gw.HasBytesToOutput())
      {
         WaitForSocket(false);
         if (_gw.DoOutput().IsError()) {printf("DoOutput failed\n"); exit(10);}
      }
   }

   // Creates (or overwrites) a node in our own subtree
   void SetNode(const char * relPath, const MessageRef & data = MessageRef())
   {
      MessageRef m = GetMessageFromPool(PR_COMMAND_SETDATA);
      (void) m()->AddMessage(relPath, data() ? data : GetMessageFromPool(0));
      Send(m);
   }

   // Blocks until the server has processed everything we sent so far, and we have read everything it sent us up to that point.
   // All user (client-to-client) Messages seen on the way are appended to _inbox.
   void Sync()
   {
      static int32 pingCounter = 0;
      const int32 tag = ++pingCounter;
      MessageRef ping = GetMessageFromPool(PR_COMMAND_PING);
      (void) ping()->AddInt32("tag", tag);
      Send(ping);
      while(true)
      {
         MessageRef r = WaitFor(PR_RESULT_PONG);
         if (r()->GetInt32("tag") == tag) return;
      }
   }

   std::vector<MessageRef> & Inbox() {return _inbox;}

   // number of user Messages in the inbox whose "tag" string equals (tag)
   int Count(const char * tag) const
   {
      int c = 0;
      for (size_t i=0; i<_inbox.size(); i++) if (_inbox[i]()->GetString("tag") == tag) c++;
      return c;
   }

private:
   void WaitForSocket(bool forRead)
   {
      const int fd = _sock.GetFileDescriptor();
      fd_set s; FD_ZERO(&s); FD_SET(fd, &s);
      struct timeval tv = {20, 0};  // if nothing happens for 20 seconds, something is badly wrong (e.g. the server hangs)
      const int r = select(fd+1, forRead?&s:NULL, forRead?NULL:&s, NULL, &tv);
      if (r <= 0) {printf("[%s] TIMEOUT waiting for the server (server hung or crashed?)\n", _name.c_str()); fflush(stdout); _exit(20);}
   }

   MessageRef WaitFor(uint32 what)
   {
      while(true)
      {
         while(_q.HasItems())
         {
            MessageRef m; (void) _q.RemoveHead(m);
            if (m()->what == what) return m;
            if (m()->what == USER_MSG) _inbox.push_back(m);
         }
         WaitForSocket(true);
         if (_gw.DoInput(_q).IsError()) {printf("[%s] connection closed by server\n", _name.c_str()); exit(10);}
      }
   }

   std::string _name;
   ConstSocketRef _sock;
   MessageIOGateway _gw;
   QueueGatewayMessageReceiver _q;
   std::vector<MessageRef> _inbox;
   String _root, _id;
};

static inline MessageRef UserMsg(const char * tag)
{
   MessageRef m = GetMessageFromPool(USER_MSG);
   (void) m()->AddString("tag", tag);
   return m;
}

// After (sender) has sent something, make sure every client has received whatever was routed to it
static inline void SyncAll(Client & sender, std::vector<Client *> all)
{
   sender.Sync();
   for (size_t i=0; i<all.size(); i++) all[i]->Sync();
}

#endif
