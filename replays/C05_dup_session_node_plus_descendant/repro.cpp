// Observation (UNCHANGED library): a Message whose patterns select BOTH a session node itself (depth 2, e.g. "/*/*")
// AND a node below it (e.g. "foo" == "/*/*/foo") is delivered TWICE to that session.
#include "harness.h"

static int Check(Client & A, Client & B, Client & C, const char * tag, std::vector<const char *> keys, int expB, int expC)
{
   MessageRef m = UserMsg(tag);
   String ks;
   for (size_t i=0; i<keys.size(); i++) {(void) m()->AddString(PR_NAME_KEYS, keys[i]); ks += (i?", ":""); ks += keys[i];}
   A.Send(m);
   SyncAll(A, {&B, &C});
   const bool ok = ((A.Count(tag) == 0)&&(B.Count(tag) == expB)&&(C.Count(tag) == expC));
   printf("keys=[%-16s]: A got %d (expect 0), B(owns foo) got %d (expect %d), C(owns nothing) got %d (expect %d)  %s\n", ks(), A.Count(tag), B.Count(tag), expB, C.Count(tag), expC, ok?"ok":"<-- WRONG");
   return ok ? 0 : 1;
}

int main()
{
   CompleteSetupSystem css;
   SetConsoleLogLevel(MUSCLE_LOG_ERROR);
   TestServer srv;
   Client A(srv, "A"), B(srv, "B"), C(srv, "C");
   B.SetNode("foo");
   B.Sync();

   int bad = 0;
   bad += Check(A, B, C, "m1", {"/*/*"},            1, 1);   // every session owns its session node
   bad += Check(A, B, C, "m2", {"foo"},             1, 0);
   bad += Check(A, B, C, "m3", {"/*/*", "foo"},     1, 1);   // B is selected by both patterns -> must still get the Message once
   bad += Check(A, B, C, "m4", {"foo", "/*/*"},     1, 1);
   String bPath = B.Root();                                  // e.g. /::1/1  -- a literal (wildcard-free) session path
   bad += Check(A, B, C, "m5", {bPath(), "foo"},    1, 0);

   printf("%s\n", bad ? "RESULT: PROPERTY VIOLATED by the unchanged library (duplicate delivery)" : "RESULT: OK");
   fflush(stdout);
   _exit(bad ? 1 : 0);
}
