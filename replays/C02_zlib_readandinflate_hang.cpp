// Observation (UNCHANGED library):  ZLibCodec::ReadAndInflateAndWrite() (zlib/ZLibCodec.cpp) never terminates
// for a crafted 27-byte input.
//
// The loop is   while(_inflater.total_out < numBytesToBeWritten) { ...if (avail_in==0) read more... inflate(Z_SYNC_FLUSH) ... }
// and it only leaves early on a zlib *error* or when the source runs dry.  If the deflate stream ENDS
// (final block + adler trailer -> inflate() returns Z_STREAM_END) before the declared raw length has been produced,
// and at least one more input byte follows, then every further inflate() call returns Z_STREAM_END again without
// consuming input or producing output:  avail_in stays >0 (so no Read(), no B_IO_ERROR), total_out stays put -> spin forever.
//
// Input:  'zlic' magic | raw-length = 1000 | a complete zlib stream that inflates to only 10 bytes | 1 junk byte
#include <stdio.h>
#include <string.h>
#include <signal.h>
#include <unistd.h>
#include <zlib.h>
#include "dataio/ByteBufferDataIO.h"
#include "zlib/ZLibCodec.h"
#include "system/SetupSystem.h"

using namespace muscle;

static void OnAlarm(int)
{
   const char msg[] = "VIOLATION: ReadAndInflateAndWrite() still had not returned after 5 seconds (it spins forever on this small input)\n";
   (void) !write(1, msg, sizeof(msg)-1);
   _exit(14);
}

int main()
{
   CompleteSetupSystem css;

   const uint8 raw[10] = {'0','1','2','3','4','5','6','7','8','9'};
   uint8 comp[128]; uLongf compLen = sizeof(comp);
   if (compress2(comp, &compLen, raw, sizeof(raw), 6) != Z_OK) {printf("compress2 failed\n"); return 99;}   // a *finished* zlib stream

   ByteBufferRef in = GetByteBufferFromPool(0);
   uint8 hdr[8];
   DefaultEndianConverter::Export((uint32)2053925219, &hdr[0]);  // 'zlic' (independent)
   DefaultEndianConverter::Export((uint32)1000,       &hdr[4]);  // declared inflated size:  more than the stream will ever yield
   (void) in()->AppendBytes(hdr, sizeof(hdr));
   (void) in()->AppendBytes(comp, (uint32) compLen);
   const uint8 junk = 0x00;
   (void) in()->AppendBytes(&junk, 1);
   printf("input is %u bytes (8 header + %u deflated + 1 trailing byte)\n", (unsigned) in()->GetNumBytes(), (unsigned) compLen);
   fflush(stdout);

   ByteBufferRef out = GetByteBufferFromPool(0);
   ByteBufferDataIO src(in), dst(out);

   signal(SIGALRM, OnAlarm);
   alarm(5);
   ZLibCodec codec(6);
   const status_t r = codec.ReadAndInflateAndWrite(src, dst);
   alarm(0);
   printf("ReadAndInflateAndWrite returned [%s] after producing %u bytes -- OK (terminated)\n", r(), (unsigned) out()->GetNumBytes());
   return 0;
}
