// Repro (UNCHANGED library): the documented "fieldname:index" and "fieldname|default" forms of the
// expression grammar do not select the documented item, because the index/default suffix is left
// inside the field name that is handed to the created filter.
#include <stdio.h>
#include "regex/QueryFilter.h"
#include "system/SetupSystem.h"
using namespace muscle;

static int _bad = 0;

static void Check(const char * expr, const Message & m, bool expected)
{
   ConstQueryFilterRef qf = CreateQueryFilterFromExpression(expr);
   if (qf() == NULL) {printf("[%s] -> parse error [%s]\n", expr, qf.GetStatus()()); _bad++; return;}
   DummyConstMessageRef r(m);
   ConstMessageRef cr = r;
   const bool got = qf()->Matches(cr, NULL);
   printf("[%s] -> %d (documented result: %d) %s\n", expr, got, expected, (got==expected)?"ok":"VIOLATION");
   printf("     built filter: "); qf()->Print(stdout);
   if (got != expected) _bad++;
}

int main()
{
   CompleteSetupSystem css;
   Message m(1234);
   (void) m.AddInt32("age", 10);
   (void) m.AddInt32("age", 30);
   (void) m.AddInt32("age", 50);

   Check("age:1 == 30",   m, true);   // second value in "age" is 30
   Check("age:2 >= 21",   m, true);   // third value in "age" is 50
   Check("exists age:2",  m, true);   // a third value exists
   Check("age|99 <= 21",  m, true);   // age[0] exists (10), so the default (99) must NOT be used
   Check("age:1|5 > 21",  m, true);   // age[1] exists (30), so the default (5) must NOT be used

   // hand-built equivalents, to show the filter classes themselves are fine
   {
      Int32QueryFilter f("age", Int32QueryFilter::OP_EQUAL_TO, 30, 1);
      DummyConstMessageRef r(m); ConstMessageRef cr = r;
      printf("hand-built Int32QueryFilter(\"age\", ==, 30, idx=1) -> %d\n", f.Matches(cr, NULL));
   }
   printf("%d violation(s)\n", _bad);
   return _bad ? 1 : 0;
}
