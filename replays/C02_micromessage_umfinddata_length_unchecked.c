/* Observation (UNCHANGED code):  UMFindData() in lang/c/micromessage/MicroMessage.c returns CB_NO_ERROR with a
 * (pointer, length) pair whose length has never been compared with the bytes actually left in the field/buffer.
 *
 *    *retDataBytes = pointerToBlob;
 *    *retNumBytes  = UMReadInt32(pointerToBlob-sizeof(uint32));     <-- taken from the wire as-is
 *
 * The intermediate items ARE checked while walking to item #idx ("paranoia" test inside the while-loop), but the
 * length word of the item that is finally returned is not (UMFindMessage(), by contrast, does check:  "the
 * sub-Message must fit inside its field").  So a single-word corruption of a blob's length word (e.g. to
 * 0x7fffffff) makes the micro-Message parser hand the application a "well-formed" blob that extends ~2GB past
 * the end of the received buffer;  any use of it (memcpy, checksum, UMAddData() into a reply...) reads out of bounds.
 *
 * build:  gcc -I/tmp/adv3/C02 repro.c /tmp/adv3/C02/lang/c/micromessage/MicroMessage.c -o repro
 */
#include <stdio.h>
#include <string.h>
#include <stdlib.h>
#include "lang/c/micromessage/MicroMessage.h"

int main(void)
{
   uint8 buf[256];
   UMessage w;
   const uint8 blob[6] = {1,2,3,4,5,6};
   if (UMInitializeToEmptyMessage(&w, buf, sizeof(buf), 1234) != CB_NO_ERROR) return 99;
   if (UMAddData(&w, "blob", B_RAW_TYPE, blob, sizeof(blob)) != CB_NO_ERROR) return 99;

   const uint32 N = UMGetFlattenedSize(&w);
   uint8 * rx = (uint8 *) malloc(N);   /* the "received" bytes:  exactly N of them */
   memcpy(rx, buf, N);

   /* layout of the tail:  ... numItems(=1) | blobLen(=6) | 6 blob bytes   -> blobLen word is at N-6-4 */
   const uint32 lenOff = N-6-4;
   uint32 v; memcpy(&v, rx+lenOff, 4);
   if (v != 6) {printf("repro bug: unexpected layout (%u)\n", (unsigned) v); return 99;}

   {
      UMessage r; const void * p = NULL; uint32 n = 0;
      (void) UMInitializeWithExistingData(&r, rx, N);
      const c_status_t s = UMFindData(&r, "blob", B_RAW_TYPE, 0, &p, &n);
      printf("valid buffer   (%u bytes): UMFindData -> %s, numBytes=%u\n", (unsigned) N, (s==CB_NO_ERROR)?"CB_NO_ERROR":"CB_ERROR", (unsigned) n);
   }

   v = 0x7fffffff; memcpy(rx+lenOff, &v, 4);   /* single-word corruption (host is little-endian like the wire format) */
   {
      UMessage r; const void * p = NULL; uint32 n = 0;
      (void) UMInitializeWithExistingData(&r, rx, N);
      const c_status_t s = UMFindData(&r, "blob", B_RAW_TYPE, 0, &p, &n);
      printf("corrupted buffer (%u bytes): UMFindData -> %s, numBytes=%u\n", (unsigned) N, (s==CB_NO_ERROR)?"CB_NO_ERROR":"CB_ERROR", (unsigned) n);
      if (s == CB_NO_ERROR)
      {
         const uint32 left = (uint32)((rx+N)-(const uint8 *)p);
         if (n > left) {printf("VIOLATION: returned blob claims %u bytes but only %u bytes of the buffer remain after its start\n", (unsigned) n, (unsigned) left); free(rx); return 1;}
      }
   }
   printf("OK\n");
   free(rx);
   return 0;
}
