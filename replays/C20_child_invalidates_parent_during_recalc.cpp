#include "util/PulseNode.h"
#include <stdio.h>
using namespace muscle;
class Node : public PulseNode {
public:
   Node(const char * n) : _name(n), _want(MUSCLE_TIME_NEVER), _asked(0), _pulsed(0), _other(NULL) {}
   virtual uint64 GetPulseTime(const PulseArgs &) {_asked++; if (_other) {Node * o = _other; _other = NULL; o->Want(1000);} return _want;}
   virtual void Pulse(const PulseArgs &) {_pulsed++; _want = MUSCLE_TIME_NEVER;}
   void Want(uint64 t) {_want = t; InvalidatePulseTime();}
   const char * _name; uint64 _want; int _asked, _pulsed; Node * _other;
};
class Mgr : public PulseNodeManager {
public:
   uint64 Ask(PulseNode & n, uint64 now) {uint64 m = MUSCLE_TIME_NEVER; CallGetPulseTimeAux(n, now, m); return m;}
   void Pulse(PulseNode & n, uint64 now) {CallPulseAux(n, now);}
};
int main()
{
   Node R("R"), P("P"), A("A"); Mgr m;
   R.PutPulseChild(&P); P.PutPulseChild(&A);
   A._other = &P;     // when A is asked for its time, it asks its parent P to wake up at t=1000
   for (int pass=1; pass<=3; pass++) printf("pass %d: root reports wake-up at %llu; P asked %d time(s)\n", pass, (unsigned long long) m.Ask(R, 0), P._asked);
   m.Pulse(R, 2000); (void) m.Ask(R, 2000);
   printf("after pulsing the tree at t=2000: P was pulsed %d time(s) (it asked for t=1000)\n", P._pulsed);
   P.Want(3000);
   printf("P asks again for t=3000: root reports wake-up at %llu\n", (unsigned long long) m.Ask(R, 2000));
   return (P._pulsed == 1) ? 0 : 1;
}
