// Minimal in-memory byte pipe DataIO with configurable segmentation
#include <deque>
#include <vector>
#include <functional>
#include "dataio/DataIO.h"
#include "util/NetworkUtilityFunctions.h"
using namespace muscle;
struct ByteQ { std::deque<uint8> q; };
class PipeIO : public DataIO
{
public:
   PipeIO(ByteQ * in, ByteQ * out) : _in(in), _out(out), _maxRead(MUSCLE_NO_LIMIT), _maxWrite(MUSCLE_NO_LIMIT), _rc(0), _wc(0), _zeroEvery(0) {}
   virtual io_status_t Read(void * b, uint32 size)
   {
      _rc++;
      if ((_zeroEvery)&&((_rc%_zeroEvery)==0)) return io_status_t(0);  // simulated would-block
      uint32 n = muscleMin(size, _maxRead, (uint32)_in->q.size());
      uint8 * p = (uint8*)b;
      for (uint32 i=0;i<n;i++) {p[i]=_in->q.front(); _in->q.pop_front();}
      return io_status_t((int32)n);
   }
   virtual io_status_t Write(const void * b, uint32 size)
   {
      _wc++;
      if ((_zeroEvery)&&((_wc%_zeroEvery)==0)) return io_status_t(0);
      uint32 n = muscleMin(size, _maxWrite);
      const uint8 * p = (const uint8*)b;
      for (uint32 i=0;i<n;i++) _out->q.push_back(p[i]);
      return io_status_t((int32)n);
   }
   virtual void FlushOutput() {}
   virtual void Shutdown() {}
   virtual const ConstSocketRef & GetReadSelectSocket() const {return GetNullSocket();}
   virtual const ConstSocketRef & GetWriteSelectSocket() const {return GetNullSocket();}
   ByteQ * _in; ByteQ * _out; uint32 _maxRead, _maxWrite; uint32 _rc, _wc, _zeroEvery;
};
