// Observation: WebSocket client->server direction never delivers a Message (unchanged library, little-endian host).
#include "pipe.h"
#include "iogateway/WebSocketMessageIOGateway.h"
#include "iogateway/MessageIOGateway.h"
#include "system/SetupSystem.h"
int main()
{
   CompleteSetupSystem css;
   ByteQ c2s, s2c;
   PipeIO cio(&s2c,&c2s), sio(&c2s,&s2c);
   const bool t=true, f=false;
   WebSocketMessageIOGateway cg(&t), sg(&f);   // client / server, no HTTP handshake phase
   cg.SetSlaveGateway(AbstractMessageIOGatewayRef(new MessageIOGateway));
   sg.SetSlaveGateway(AbstractMessageIOGatewayRef(new MessageIOGateway));
   cg.SetDataIO(DummyDataIORef(cio)); sg.SetDataIO(DummyDataIORef(sio));

   // Part 1: show the wire bytes of one client frame
   {
      MessageRef m = GetMessageFromPool(0x11223344);
      (void) cg.AddOutgoingMessage(m);
      (void) cg.DoOutput();
      std::vector<uint8> v(c2s.q.begin(), c2s.q.end());
      printf("client frame for an empty Message with what=0x11223344:\n  "); for (auto b : v) printf(" %02x", b); printf("\n");
      const uint8 * mask = &v[2];
      printf("   payload unmasked with the masking key in wire order (RFC 6455, and what the MUSCLE server gateway does):\n  "); for (size_t i=6;i<v.size();i++) printf(" %02x", v[i]^mask[(i-6)%4]); printf("\n");
      printf("   payload unmasked with the masking key bytes reversed (= what the client actually XORed with):\n  ");                   for (size_t i=6;i<v.size();i++) printf(" %02x", v[i]^mask[3-((i-6)%4)]); printf("   <- valid MessageIOGateway stream (0c 00 00 00 'Enc0' 'PM00' what count)\n");
      QueueGatewayMessageReceiver tmp; while(sg.DoInput(tmp).GetByteCount() > 0) {/* empty */}
      printf("   server gateway delivered %u Message(s) for this frame\n\n", tmp.GetMessages().GetNumItems());
   }

   // Part 2: five Messages in each direction on fresh gateways
   ByteQ c2s2, s2c2;
   PipeIO cio2(&s2c2,&c2s2), sio2(&c2s2,&s2c2);
   WebSocketMessageIOGateway cg2(&t), sg2(&f);
   cg2.SetSlaveGateway(AbstractMessageIOGatewayRef(new MessageIOGateway));
   sg2.SetSlaveGateway(AbstractMessageIOGatewayRef(new MessageIOGateway));
   cg2.SetDataIO(DummyDataIORef(cio2)); sg2.SetDataIO(DummyDataIORef(sio2));
   QueueGatewayMessageReceiver rs, rc;
   for (int i=0;i<5;i++)
   {
      MessageRef m  = GetMessageFromPool(1000+i); (void) m()->AddString("s", String("from client %1").Arg(i)); (void) cg2.AddOutgoingMessage(m);
      MessageRef m2 = GetMessageFromPool(2000+i); (void) m2()->AddString("s", String("from server %1").Arg(i)); (void) sg2.AddOutgoingMessage(m2);
   }
   for (int k=0;k<100;k++) {(void) cg2.DoOutput(); (void) sg2.DoOutput(); (void) sg2.DoInput(rs); (void) cg2.DoInput(rc);}
   printf("server->client: sent 5, client received %u\n", rc.GetMessages().GetNumItems());
   printf("client->server: sent 5, server received %u   %s\n", rs.GetMessages().GetNumItems(), (rs.GetMessages().GetNumItems()==5)?"":"<-- *** Messages lost ***");
   return (rs.GetMessages().GetNumItems()==5) ? 0 : 1;
}
