#include "system/ReaderWriterMutex.h"
#include "util/TimeUtilityFunctions.h"
#include <thread>
#include <stdio.h>
using namespace muscle;
int main()
{
   ReaderWriterMutex m;   // prefer writers (default)
   std::thread B([&]{ (void) m.LockReadOnly(); std::this_thread::sleep_for(std::chrono::seconds(3)); (void) m.UnlockReadOnly(); });
   std::this_thread::sleep_for(std::chrono::milliseconds(200));
   (void) m.LockReadOnly();                                   // A (main) reads as well
   std::thread C([&]{ (void) m.LockReadWrite(); std::this_thread::sleep_for(std::chrono::seconds(1)); (void) m.UnlockReadWrite(); });
   std::this_thread::sleep_for(std::chrono::milliseconds(300));   // C is now waiting for A and B
   const uint64 t0 = GetRunTime64();
   const status_t r = m.LockReadWrite(GetRunTime64()+MillisToMicros(100));  // timed upgrade: must return within 100 ms
   const uint64 dt = GetRunTime64()-t0;
   printf("LockReadWrite(now+100ms) returned [%s] after %llu ms\n", r(), (unsigned long long)(dt/1000));
   if (r.IsOK()) (void) m.UnlockReadWrite();
   (void) m.UnlockReadOnly();
   B.join(); C.join();
   return (dt > 500000) ? 1 : 0;
}
