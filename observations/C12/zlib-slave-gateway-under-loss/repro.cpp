// Observation on the UNCHANGED library: tunnel gateway with a zlib-compressing MessageIOGateway as slave gateway
// (the configuration test/testpackettunnel.cpp selects with "usegw") over a transport that loses one packet.
// MessageIOGateway deflates each Message as a continuation of the previous Messages' zlib stream
// (AreOutgoingMessagesIndependent() returns false).  When the tunnel loses a Message, the receiver's inflater
// decodes the following Messages against the wrong history: back-references that pointed into the lost Message
// now resolve into an older Message, and zlib has no way to notice.
#include "harness.h"
#include "reflector/StorageReflectConstants.h"  // PR_NAME_PACKET_REMOTE_LOCATION

static String MakeText(uint32 seed, uint32 len)
{
   String s; uint32 x = seed;
   for (uint32 i=0; i<len; i++) {x = x*1103515245+12345; s += (char)('a'+((x>>16)%26));}
   return s;
}

int main(int, char **)
{
   CompleteSetupSystem css;
   const uint32 mtu = 1000;
   ByteBufferPacketDataIO * sio = new ByteBufferPacketDataIO(mtu); DataIORef sioRef(sio);
   ByteBufferPacketDataIO * rio = new ByteBufferPacketDataIO(mtu); DataIORef rioRef(rio);
   PacketTunnelIOGateway sgw(AbstractMessageIOGatewayRef(new MessageIOGateway(MUSCLE_MESSAGE_ENCODING_ZLIB_6)), mtu); sgw.SetDataIO(sioRef);
   PacketTunnelIOGateway rgw(AbstractMessageIOGatewayRef(new MessageIOGateway(MUSCLE_MESSAGE_ENCODING_ZLIB_6)), mtu); rgw.SetDataIO(rioRef);

   // Three Messages of the same shape.  #2 and #3 carry the same text, #1 carries a different one.
   std::vector<MessageRef> sent;
   const String t1 = MakeText(1, 300), t2 = MakeText(2, 300);
   for (uint32 i=1; i<=3; i++)
   {
      MessageRef m = GetMessageFromPool(i);
      (void) m()->AddString("text", (i==1)?t1:t2);
      sent.push_back(m);
   }

   // Each Message is flushed into its own packet
   std::vector<Packets> pk;
   for (size_t i=0; i<sent.size(); i++) {(void) sgw.AddOutgoingMessage(sent[i]); pk.push_back(SendAll(sgw, *sio)); printf("Message what=%u sent in %u packet(s)\n", (unsigned)sent[i]()->what, (unsigned)pk.back().size());}

   Rx rx;
   const IPAddressAndPort from(IPAddress("10.0.0.1"), 5000);
   printf("transport: the packet carrying Message what=2 is lost; everything else is delivered once, in order\n");
   for (size_t i=0; i<pk.size(); i++) if (i != 1) for (size_t j=0; j<pk[i].size(); j++) Deliver(rgw, *rio, rx, pk[i][j], from);

   int bad = 0;
   printf("receiver got %u Message(s)\n", (unsigned) rx.got.size());
   for (size_t i=0; i<rx.got.size(); i++)
   {
      Message copy = *rx.got[i].msg();
      (void) copy.RemoveName(PR_NAME_PACKET_REMOTE_LOCATION);
      bool same = false; for (size_t k=0; k<sent.size(); k++) if (copy == *sent[k]()) same = true;
      const String * t = copy.GetStringPointer("text");
      printf("  delivered what=%u  text=%s  identical-to-a-sent-Message=%s\n", (unsigned)copy.what, (t==NULL)?"(none)":((*t==t1)?"<text of Message 1>":((*t==t2)?"<text of Messages 2 and 3>":"<some other text>")), same?"yes":"NO");
      if (!same) bad++;
   }
   printf("%s\n", bad ? "RESULT: PROPERTY VIOLATED on the unchanged library (a delivered Message is not identical to any Message that was sent)" : "RESULT: ok");
   return bad?1:0;
}
