// Observation on the UNCHANGED library: MiniPacketTunnelIOGateway with compression enabled, loss-free transport.
// A packet that did not shrink when deflated gets its header patched (compression level -> 0) IN PLACE in
// _outputPacketBuffer.  If the DataIO then refuses the packet (Write() returns 0, would-block), the packet is
// held for the next DoOutput() call.  If more Messages are appended to the held packet and this time the
// deflated form IS smaller, the (already patched, level 0) header is copied in front of the deflated payload.
// The receiver sees "compression level 0" followed by zlib data, can't parse it, and drops every Message in the packet.
#include "harness.h"

// A packet sink that can be told to refuse packets for a while (returns 0 = "try again later", never an error)
class GateIO : public DataIO
{
public:
   GateIO() : blocked(false) {}
   virtual io_status_t Read(void *, uint32) {return io_status_t(0);}
   virtual io_status_t Write(const void * buffer, uint32 size)
   {
      if (blocked) return io_status_t(0);
      packets.push_back(GetByteBufferFromPool(size, (const uint8 *) buffer));
      return io_status_t((int32)size);
   }
   virtual void FlushOutput() {}
   virtual void Shutdown() {}
   virtual const ConstSocketRef & GetReadSelectSocket()  const {return GetNullSocket();}
   virtual const ConstSocketRef & GetWriteSelectSocket() const {return GetNullSocket();}
   bool blocked;
   Packets packets;
};

int main(int argc, char ** argv)
{
   CompleteSetupSystem css;
   const uint8 level = (argc > 1) ? (uint8) atoi(argv[1]) : 6;
   const uint32 mtu = 300;
   GateIO * sio = new GateIO; DataIORef sioRef(sio);
   ByteBufferPacketDataIO * rio = new ByteBufferPacketDataIO(mtu); DataIORef rioRef(rio);
   MiniPacketTunnelIOGateway sgw(AbstractMessageIOGatewayRef(), mtu); sgw.SetDataIO(sioRef); sgw.SetZLibCompressionLevel(level);
   MiniPacketTunnelIOGateway rgw(AbstractMessageIOGatewayRef(), mtu); rgw.SetDataIO(rioRef);

   // Message A: small, does not get smaller when deflated
   MessageRef a = GetMessageFromPool(1); (void) a()->AddInt32("x", 0x12345678);
   // Message B: very compressible
   MessageRef b = GetMessageFromPool(2); {String s; for (int i=0; i<150; i++) s += 'A'; (void) b()->AddString("spam", s);}

   (void) sgw.AddOutgoingMessage(a);
   sio->blocked = true;                 // the socket's send buffer is full right now
   const io_status_t r1 = sgw.DoOutput();
   printf("DoOutput #1 (DataIO would block): returned %d, packets on the wire so far: %u\n", (int) r1.GetByteCount(), (unsigned) sio->packets.size());

   (void) sgw.AddOutgoingMessage(b);
   sio->blocked = false;                // writable again
   const io_status_t r2 = sgw.DoOutput();
   printf("DoOutput #2 (DataIO writable):    returned %d, packets on the wire so far: %u\n", (int) r2.GetByteCount(), (unsigned) sio->packets.size());
   for (int i=0; i<3; i++) (void) sgw.DoOutput();

   Rx rx;
   const IPAddressAndPort from(IPAddress("10.0.0.1"), 5000);
   for (size_t i=0; i<sio->packets.size(); i++)
   {
      const ByteBuffer & p = *sio->packets[i]();
      const uint32 w = DefaultEndianConverter::Import<uint32>(p.GetBuffer()+8);
      printf("packet #%u: %u bytes, header says compression level %u, packet id %u\n", (unsigned)i, (unsigned)p.GetNumBytes(), (unsigned)(w>>24), (unsigned)(w&0xFFFFFF));
      Deliver(rgw, *rio, rx, sio->packets[i], from);
   }

   printf("compression level %u: sent 2 Messages, transport delivered every packet once and in order; receiver got %u Message(s):", (unsigned)level, (unsigned)rx.got.size());
   for (size_t i=0; i<rx.got.size(); i++) printf(" what=%u(%s)", (unsigned)rx.got[i].msg()->what, ((*rx.got[i].msg() == *a())||(*rx.got[i].msg() == *b())) ? "identical" : "NOT IDENTICAL");
   printf("\n");
   const bool ok = ((rx.got.size() == 2)&&(*rx.got[0].msg() == *a())&&(*rx.got[1].msg() == *b()));
   printf("%s\n", ok ? "RESULT: ok" : "RESULT: PROPERTY VIOLATED on the unchanged library (sent Messages were not delivered)");
   return ok?0:1;
}
