// Observation on the UNCHANGED library: a tunnel gateway that has a slave gateway (e.g. MessageIOGateway) and sits on
// a packet-type DataIO (UDP, ByteBufferPacketDataIO, ...) never delivers a Message whose slave-encoded size exceeds
// MUSCLE_MAX_PAYLOAD_BYTES_PER_UDP_ETHERNET_PACKET, whatever the tunnel's MTU is -- i.e. exactly the Messages that the
// PacketTunnelIOGateway exists to fragment and reassemble.
#include "harness.h"
#include "reflector/StorageReflectConstants.h"  // PR_NAME_PACKET_REMOTE_LOCATION

template<class GW> static int RunTest(const char * name, uint32 mtu, uint32 strLen, bool useSlave)
{
   ByteBufferPacketDataIO * sio = new ByteBufferPacketDataIO(mtu); DataIORef sioRef(sio);
   ByteBufferPacketDataIO * rio = new ByteBufferPacketDataIO(mtu); DataIORef rioRef(rio);
   GW sgw(useSlave ? AbstractMessageIOGatewayRef(new MessageIOGateway) : AbstractMessageIOGatewayRef(), mtu); sgw.SetDataIO(sioRef);
   GW rgw(useSlave ? AbstractMessageIOGatewayRef(new MessageIOGateway) : AbstractMessageIOGatewayRef(), mtu); rgw.SetDataIO(rioRef);

   MessageRef m = GetMessageFromPool(1234);
   String s; for (uint32 i=0; i<strLen; i++) s += (char)('A'+(i%26));
   (void) m()->AddString("spam", s);
   (void) sgw.AddOutgoingMessage(m);
   Packets p = SendAll(sgw, *sio);

   Rx rx;
   const IPAddressAndPort from(IPAddress("10.0.0.1"), 5000);
   for (size_t i=0; i<p.size(); i++) Deliver(rgw, *rio, rx, p[i], from);

   uint32 numIdentical = 0;
   for (size_t i=0; i<rx.got.size(); i++)
   {
      Message copy = *rx.got[i].msg();
      (void) copy.RemoveName(PR_NAME_PACKET_REMOTE_LOCATION);  // MessageIOGateway tags incoming packet-Messages with their source; ignore that
      if (copy == *m()) numIdentical++;
   }
   const bool ok = ((rx.got.size() == 1)&&(numIdentical == 1));
   printf("%-26s slave=%-16s mtu=%5u  Message flattened size=%5u  packets=%3u  delivered=%u identical=%u  %s\n", name, useSlave?"MessageIOGateway":"(none)", (unsigned)mtu, (unsigned)m()->FlattenedSize(), (unsigned)p.size(), (unsigned)rx.got.size(), (unsigned)numIdentical, ok?"ok":"<-- sent Message NOT delivered");
   return ok?0:1;
}

int main(int, char **)
{
   CompleteSetupSystem css;
   printf("MUSCLE_MAX_PAYLOAD_BYTES_PER_UDP_ETHERNET_PACKET = %u\n", (unsigned) MUSCLE_MAX_PAYLOAD_BYTES_PER_UDP_ETHERNET_PACKET);
   int bad = 0;
   const uint32 mtus[] = {25, 100, 300, 1400};
   for (uint32 i=0; i<ARRAYITEMS(mtus); i++)
   {
      bad += RunTest<PacketTunnelIOGateway>("PacketTunnelIOGateway", mtus[i], 1000, true);
      bad += RunTest<PacketTunnelIOGateway>("PacketTunnelIOGateway", mtus[i], 1200, true);
      bad += RunTest<PacketTunnelIOGateway>("PacketTunnelIOGateway", mtus[i], 5000, true);
      (void)   RunTest<PacketTunnelIOGateway>("PacketTunnelIOGateway", mtus[i], 5000, false);   // control: no slave gateway
   }
   bad += RunTest<MiniPacketTunnelIOGateway>("MiniPacketTunnelIOGateway", 8000, 1000, true);
   bad += RunTest<MiniPacketTunnelIOGateway>("MiniPacketTunnelIOGateway", 8000, 5000, true);
   (void)   RunTest<MiniPacketTunnelIOGateway>("MiniPacketTunnelIOGateway", 8000, 5000, false);
   printf("%s\n", bad ? "RESULT: PROPERTY VIOLATED on the unchanged library (loss-free in-order transport, Messages within the gateway's limits are not delivered)" : "RESULT: ok");
   return bad?1:0;
}
