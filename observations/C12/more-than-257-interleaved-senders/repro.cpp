// Observation on the UNCHANGED library (borderline: an undocumented internal limit): PacketTunnelIOGateway keeps at
// most 257 per-sender reassembly states.  When more senders than that have fragmented Messages in flight at the same
// time, the least-recently-heard sender's partial Message is thrown away, although the transport lost nothing.
#include "harness.h"

int main(int argc, char ** argv)
{
   CompleteSetupSystem css;
   const uint32 numSenders = (argc > 1) ? atoi(argv[1]) : 300;
   const uint32 mtu = 200;
   ByteBufferPacketDataIO * rio = new ByteBufferPacketDataIO(mtu); DataIORef rioRef(rio);
   PacketTunnelIOGateway rgw(AbstractMessageIOGatewayRef(), mtu); rgw.SetDataIO(rioRef);

   std::vector<Packets> pk; std::vector<MessageRef> sent; std::vector<IPAddressAndPort> addrs;
   for (uint32 i=0; i<numSenders; i++)
   {
      ByteBufferPacketDataIO * sio = new ByteBufferPacketDataIO(mtu); DataIORef sioRef(sio);
      PacketTunnelIOGateway sgw(AbstractMessageIOGatewayRef(), mtu); sgw.SetDataIO(sioRef);
      MessageRef m = GetMessageFromPool(i);
      String s; for (uint32 j=0; j<250; j++) s += (char)('A'+((i+j)%26));
      (void) m()->AddString("spam", s);
      (void) sgw.AddOutgoingMessage(m);
      pk.push_back(SendAll(sgw, *sio)); sent.push_back(m);
      addrs.push_back(IPAddressAndPort(IPAddress("10.0.0.1"), (uint16)(1000+i)));
   }
   printf("%u senders, each sends one Message in %u packets; the network interleaves them round-robin; nothing is lost, duplicated or reordered per sender\n", (unsigned)numSenders, (unsigned)pk[0].size());

   Rx rx;
   for (size_t round=0; round<pk[0].size(); round++) for (uint32 i=0; i<numSenders; i++) Deliver(rgw, *rio, rx, pk[i][round], addrs[i]);

   uint32 ok = 0, wrong = 0;
   for (size_t i=0; i<rx.got.size(); i++) {const uint32 w = rx.got[i].msg()->what; if ((w < numSenders)&&(*rx.got[i].msg() == *sent[w]())&&(rx.got[i].from == addrs[w])) ok++; else wrong++;}
   printf("delivered %u Messages (%u identical to the sender's Message, %u not); %u sent Messages were never delivered\n", (unsigned)rx.got.size(), (unsigned)ok, (unsigned)wrong, (unsigned)(numSenders-ok));
   const bool good = ((ok == numSenders)&&(wrong == 0));
   printf("%s\n", good ? "RESULT: ok" : "RESULT: PROPERTY VIOLATED on the unchanged library (loss-free transport, sent Messages not delivered)");
   return good?0:1;
}
