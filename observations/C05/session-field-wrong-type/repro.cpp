// Observation (UNCHANGED library): the server normalises the sender-identity field PR_NAME_SESSION ("session") with
// Message::ReplaceString(false, "session", <true id>), i.e. only value #0 of a STRING field.  A client can therefore still
// get a forged sender id through to the receivers (a) as an int32 field called "session" and (b) as 2nd, 3rd... value.
#include "harness.h"
int main()
{
   CompleteSetupSystem css;
   SetConsoleLogLevel(MUSCLE_LOG_ERROR);
   TestServer srv;
   Client A(srv, "A"), B(srv, "B");
   printf("true session id of sender A = %s\n", A.ID()());
   {MessageRef m = UserMsg("s1"); (void) m()->AddString(PR_NAME_SESSION, "999"); A.Send(m);}
   {MessageRef m = UserMsg("s2"); (void) m()->AddInt32(PR_NAME_SESSION, 999); A.Send(m);}
   {MessageRef m = UserMsg("s3"); (void) m()->AddString(PR_NAME_SESSION, "999"); (void) m()->AddString(PR_NAME_SESSION, "998"); A.Send(m);}
   SyncAll(A, {&B});
   int bad = 0;
   for (auto & mr : B.Inbox())
   {
      const Message & m = *mr();
      String s0 = m.GetString(PR_NAME_SESSION, "<none>", 0), s1 = m.GetString(PR_NAME_SESSION, "<none>", 1);
      int32 i0 = m.GetInt32(PR_NAME_SESSION, -1);
      printf("B received [%s]: session(string #0)=%s  session(string #1)=%s  session(int32)=%d\n", m.GetString("tag")(), s0(), s1(), (int) i0);
      if ((i0 == 999)||(s1 == "998")) bad++;
   }
   printf("%s\n", bad ? "RESULT: a forged sender id reached the receiver (unchanged library)" : "RESULT: OK");
   fflush(stdout);
   _exit(bad ? 1 : 0);
}
