// Observation (UNCHANGED library): if one Message lists the SAME pattern string twice with two DIFFERENT filters
// (keys=[foo, foo], filters=[v==1, v==2]), only the LAST filter survives (PathMatcher stores its entries in a table keyed
// by the pattern string).  A session whose node passes the first (pattern, filter) pair but not the last is not served.
#include "harness.h"

static MessageRef IntFilter(const char * field, int32 v)
{
   Int32QueryFilter f(field, Int32QueryFilter::OP_EQUAL_TO, v);
   MessageRef m = GetMessageFromPool();
   if (f.SaveToArchive(*m()).IsError()) {printf("SaveToArchive failed\n"); exit(10);}
   return m;
}

static void SetFoo(Client & c, int32 v) {MessageRef d = GetMessageFromPool(0); (void) d()->AddInt32("v", v); c.SetNode("foo", d); c.Sync();}

int main()
{
   CompleteSetupSystem css;
   SetConsoleLogLevel(MUSCLE_LOG_ERROR);
   TestServer srv;
   Client A(srv, "A"), B(srv, "B"), C(srv, "C"), D(srv, "D");
   SetFoo(B, 1); SetFoo(C, 2); SetFoo(D, 3);

   int bad = 0;
   {MessageRef m = UserMsg("m1"); (void) m()->AddString(PR_NAME_KEYS, "foo"); (void) m()->AddMessage(PR_NAME_FILTERS, IntFilter("v",1)); A.Send(m);}
   SyncAll(A, {&B, &C, &D});
   printf("keys=[foo] filters=[v==1]            : B(v=1) got %d (expect 1), C(v=2) got %d (expect 0), D(v=3) got %d (expect 0)\n", B.Count("m1"), C.Count("m1"), D.Count("m1"));
   if ((B.Count("m1") != 1)||(C.Count("m1") != 0)||(D.Count("m1") != 0)) bad++;

   {MessageRef m = UserMsg("m2"); (void) m()->AddString(PR_NAME_KEYS, "foo"); (void) m()->AddString(PR_NAME_KEYS, "foo"); (void) m()->AddMessage(PR_NAME_FILTERS, IntFilter("v",1)); (void) m()->AddMessage(PR_NAME_FILTERS, IntFilter("v",2)); A.Send(m);}
   SyncAll(A, {&B, &C, &D});
   printf("keys=[foo,foo] filters=[v==1,v==2]   : B(v=1) got %d (expect 1), C(v=2) got %d (expect 1), D(v=3) got %d (expect 0)\n", B.Count("m2"), C.Count("m2"), D.Count("m2"));
   if ((B.Count("m2") != 1)||(C.Count("m2") != 1)||(D.Count("m2") != 0)) bad++;

   // control: two differently spelled but equivalent patterns keep both filters
   {MessageRef m = UserMsg("m3"); (void) m()->AddString(PR_NAME_KEYS, "foo"); (void) m()->AddString(PR_NAME_KEYS, "fo[o]"); (void) m()->AddMessage(PR_NAME_FILTERS, IntFilter("v",1)); (void) m()->AddMessage(PR_NAME_FILTERS, IntFilter("v",2)); A.Send(m);}
   SyncAll(A, {&B, &C, &D});
   printf("keys=[foo,fo[o]] filters=[v==1,v==2] : B(v=1) got %d (expect 1), C(v=2) got %d (expect 1), D(v=3) got %d (expect 0)\n", B.Count("m3"), C.Count("m3"), D.Count("m3"));
   if ((B.Count("m3") != 1)||(C.Count("m3") != 1)||(D.Count("m3") != 0)) bad++;

   printf("%s\n", bad ? "RESULT: PROPERTY VIOLATED by the unchanged library (a session with a node matching a (pattern, filter) pair was not served)" : "RESULT: OK");
   fflush(stdout);
   _exit(bad ? 1 : 0);
}
