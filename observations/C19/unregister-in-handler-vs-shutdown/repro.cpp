// Observation (UNCHANGED library): pool shutdown deadlocks if, at that time, a pool thread is blocked inside UnregisterClient().
//
// Client A's handler (running in a pool thread) unregisters another client B (b.SetThreadPool(NULL)) while B still has a Message
// being handled, so A's pool thread blocks in ThreadPool::UnregisterClient(B) until B's handler is done.  That alone is fine
// (run with argument "late":  the pool is deleted only after everything has settled).  But if the ThreadPool is shut down (deleted)
// while A's thread is blocked there (argument "early", the default), the shutdown never terminates.
#include <stdio.h>
#include <stdlib.h>
#include <string.h>
#include <unistd.h>
#include <atomic>
#include <thread>

#include "system/ThreadPool.h"
#include "system/SetupSystem.h"
#include "util/TimeUtilityFunctions.h"

using namespace muscle;

static uint64 _startTime;
static double Now() {return (GetRunTime64()-_startTime)/1000000.0;}

class ClientB : public IThreadPoolClient
{
public:
   ClientB() : IThreadPoolClient(NULL) {/* empty */}
   virtual void MessageReceivedFromThreadPool(const MessageRef &, uint32)
   {
      printf("[t=%4.2fs] B: handler begins (takes 0.6s)\n", Now()); fflush(stdout);
      (void) Snooze64(600000);
      printf("[t=%4.2fs] B: handler ends\n", Now()); fflush(stdout);
   }
};

class ClientA : public IThreadPoolClient
{
public:
   ClientA(ClientB * b) : IThreadPoolClient(NULL), _b(b) {/* empty */}
   virtual void MessageReceivedFromThreadPool(const MessageRef &, uint32)
   {
      (void) Snooze64(100000);
      printf("[t=%4.2fs] A: handler calls b.SetThreadPool(NULL) (blocks until B's handler is done)\n", Now()); fflush(stdout);
      _b->SetThreadPool(NULL);
      printf("[t=%4.2fs] A: b.SetThreadPool(NULL) returned, handler ends\n", Now()); fflush(stdout);
   }
   ClientB * _b;
};

static std::atomic<bool> _done(false);
static void Watchdog()
{
   for (int i=0; ((i<60)&&(_done == false)); i++) (void) Snooze64(100000);
   if (_done == false)
   {
      printf("[t=%4.2fs] WATCHDOG: 'delete pool' (ThreadPool::~ThreadPool -> Shutdown()) still has not returned  => DEADLOCK\n", Now());
      printf("RESULT: PROPERTY VIOLATED (pool shutdown does not terminate)\n"); fflush(stdout);
      _exit(2);
   }
}

int main(int argc, char ** argv)
{
   const bool late = ((argc > 1)&&(strcmp(argv[1], "late") == 0));

   CompleteSetupSystem css;
   std::thread wd(Watchdog);

   ThreadPool * pool = new ThreadPool(4);
   ClientB b;
   ClientA a(&b);
   a.SetThreadPool(pool);
   b.SetThreadPool(pool);

   _startTime = GetRunTime64();
   (void) b.SendMessageToThreadPool(GetMessageFromPool(1));
   (void) a.SendMessageToThreadPool(GetMessageFromPool(2));

   (void) Snooze64(late ? 1200000 : 300000);
   printf("[t=%4.2fs] main: delete pool ...\n", Now()); fflush(stdout);
   delete pool;
   printf("[t=%4.2fs] main: pool deleted\n", Now()); fflush(stdout);

   _done = true;
   wd.join();
   printf("RESULT: OK\n");
   return 0;
}
