import sys
sys.path.insert(0, '/tmp/adv3/C08/lang/python3')
import message
m = message.Message()
try:
   m.SetFromFlattenedBuffer(open("latin1.bin","rb").read())
   print("Python Unflatten OK:", m.GetString("s"))
except Exception as e:
   print("Python Unflatten raised", type(e).__name__, e)
