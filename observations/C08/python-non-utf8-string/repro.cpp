#include <stdio.h>
#include "system/SetupSystem.h"
#include "message/Message.h"
using namespace muscle;
int main()
{
   CompleteSetupSystem css;
   Message m(9);
   (void) m.AddString("s", "caf\xe9");   // "cafe" with e-acute in ISO-8859-1: a perfectly legal muscle::String, but not valid UTF-8
   ByteBufferRef b = GetFlattenedByteBufferFromPool(m);
   FILE * f = fopen("latin1.bin", "wb"); fwrite(b()->GetBuffer(), 1, b()->GetNumBytes(), f); fclose(f);
   Message back; const status_t r = back.UnflattenFromBytes(b()->GetBuffer(), b()->GetNumBytes());
   printf("C++ round trip: [%s], equal=%i\n", r(), (int)(back==m));
   return 0;
}
