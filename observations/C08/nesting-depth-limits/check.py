import sys
sys.path.insert(0, '/tmp/adv3/C08/lang/python3')
import message
for levels in [400, 600, 1000, 1024, 1025]:
   b = open("deep%d.bin" % levels, "rb").read()
   m = message.Message()
   try:
      m.SetFromFlattenedBuffer(b); res = "Unflatten OK"
      try:
         res += ", re-flatten " + ("identical" if m.GetFlattenedBuffer() == b else "DIFFERENT")
      except Exception as e:
         res += ", re-flatten raised " + type(e).__name__
   except Exception as e:
      res = "Unflatten raised " + type(e).__name__
   print("levels=%4d: Python %s" % (levels, res))
