#include <stdio.h>
#include <stdlib.h>
#include "system/SetupSystem.h"
#include "message/Message.h"
#include "lang/c/minimessage/MiniMessage.h"
using namespace muscle;
int main()
{
   CompleteSetupSystem css;
   const uint32 depths[] = {400, 600, 1000, 1024, 1025};
   for (uint32 d=0; d<ARRAYITEMS(depths); d++)
   {
      const uint32 levels = depths[d];  // total number of Message levels, outermost included
      MessageRef cur = GetMessageFromPool(0);
      for (uint32 i=1; i<levels; i++) {MessageRef p = GetMessageFromPool(i); (void) p()->AddMessage("m", cur); cur = p;}
      ByteBufferRef b = GetFlattenedByteBufferFromPool(*cur());   // the C++ library produces these bytes without complaint
      Message m; status_t r = m.UnflattenFromBytes(b()->GetBuffer(), b()->GetNumBytes());
      MMessage * mm = MMAllocMessage(0);
      const c_status_t cr = MMUnflattenMessage(mm, b()->GetBuffer(), b()->GetNumBytes());
      bool same = false;
      if (cr == CB_NO_ERROR) {const uint32 sz = MMGetFlattenedSize(mm); uint8 * buf = (uint8*)malloc(sz); MMFlattenMessage(mm, buf); same = (sz==b()->GetNumBytes())&&(memcmp(buf,b()->GetBuffer(),sz)==0); free(buf);}
      printf("levels=%4u (%5u bytes produced by C++ Flatten): C++ Unflatten [%s] | Mini unflatten %s, re-flatten %s\n", levels, b()->GetNumBytes(), r(), (cr==CB_NO_ERROR)?"OK":"CB_ERROR", same?"identical":"n/a");
      MMFreeMessage(mm);
      char fn[64]; sprintf(fn, "deep%u.bin", levels); FILE * f = fopen(fn, "wb"); fwrite(b()->GetBuffer(), 1, b()->GetNumBytes(), f); fclose(f);
   }
   return 0;
}
