#include <stdio.h>
#include <stdlib.h>
#include "system/SetupSystem.h"
#include "message/Message.h"
#include "util/MiscUtilityFunctions.h"
#include "lang/c/minimessage/MiniMessage.h"
using namespace muscle;
int main()
{
   CompleteSetupSystem css;
   MMessage * mm = MMAllocMessage(7);
   MByteBuffer ** s = MMPutStringField(mm, false, "strs", 2);
   s[0] = MBStrdupByteBuffer("a");   // s[1] is left NULL, which MiniMessage.h explicitly allows ("when non-NULL ...")
   const uint32 sz = MMGetFlattenedSize(mm); uint8 * buf = (uint8*)malloc(sz); MMFlattenMessage(mm, buf);
   printf("Mini flattened bytes:\n"); PrintHexBytes(stdout, buf, sz);
   Message m; status_t r = m.UnflattenFromBytes(buf, sz);
   printf("C++ Message::Unflatten of those bytes: [%s]\n", r());
   FILE * f = fopen("nullstr.bin", "wb"); fwrite(buf, 1, sz, f); fclose(f);
   free(buf); MMFreeMessage(mm);
   return 0;
}
