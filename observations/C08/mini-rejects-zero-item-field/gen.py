import sys
sys.path.insert(0, '/tmp/adv3/C08/lang/python3')
import message
m = message.Message(1)
m.PutInt32("before", 5)
m.PutInt32("empty", [])      # a field with zero items
m.PutString("after", "x")
open("empty.bin","wb").write(m.GetFlattenedBuffer())
print("python: wrote %d bytes (3 fields, the middle one has 0 items)" % len(m.GetFlattenedBuffer()))
