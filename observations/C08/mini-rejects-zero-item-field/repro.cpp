#include <stdio.h>
#include <stdlib.h>
#include "system/SetupSystem.h"
#include "message/Message.h"
#include "lang/c/minimessage/MiniMessage.h"
using namespace muscle;
int main()
{
   CompleteSetupSystem css;
   FILE * f = fopen("empty.bin", "rb"); if (!f) return 10;
   uint8 buf[4096]; const uint32 n = (uint32) fread(buf, 1, sizeof(buf), f); fclose(f);
   Message m; status_t r = m.UnflattenFromBytes(buf, n);
   ByteBufferRef re = GetFlattenedByteBufferFromPool(m);
   printf("C++ : Unflatten [%s], %u fields, re-flattened bytes %s\n", r(), m.GetNumNames(), ((re())&&(re()->GetNumBytes()==n)&&(memcmp(re()->GetBuffer(),buf,n)==0))?"identical":"DIFFERENT");
   MMessage * mm = MMAllocMessage(0);
   printf("Mini: MMUnflattenMessage -> %s\n", (MMUnflattenMessage(mm, buf, n)==CB_NO_ERROR)?"OK":"CB_ERROR (whole Message rejected)");
   MMFreeMessage(mm);
   return 0;
}
