// Observation (UNCHANGED library):  Message::TemplatedUnflatten() that fails part-way leaves the target
// Message holding a field in its internal "empty" state;  re-using that Message (FlattenedSize(), Flatten(),
// ...) then dies in MASSERT("SingleFlattenedSize() called on empty field") -> abort().
//
// Input:  a template with two fixed-size fields;  the payload bytes are a valid templated-flatten that has
// been TRUNCATED (every truncation that cuts into/before a field's data will do).
#include <stdio.h>
#include <signal.h>
#include <unistd.h>
#include "message/Message.h"
#include "system/SetupSystem.h"
#include "util/ByteBuffer.h"

using namespace muscle;

static void OnAbort(int)
{
   const char msg[] = "VIOLATION: process aborted while re-using a Message object after a failed TemplatedUnflatten()\n";
   (void) !write(1, msg, sizeof(msg)-1);
   _exit(10);
}

int main()
{
   CompleteSetupSystem css;
   signal(SIGABRT, OnAbort); signal(SIGSEGV, OnAbort); signal(SIGILL, OnAbort); signal(SIGTRAP, OnAbort);

   Message payload(1234);
   (void) payload.AddInt32("a", 1);
   (void) payload.AddInt64("b", 2);

   MessageRef templ = payload.CreateMessageTemplate();
   if (templ() == NULL) {printf("demo bug: no template\n"); return 99;}

   const uint32 fs = payload.TemplatedFlattenedSize(*templ());
   ByteBuffer buf; (void) buf.SetNumBytes(fs, false);
   payload.TemplatedFlatten(*templ(), DataFlattener(buf.GetBuffer(), fs));
   printf("templated-flattened size = %u bytes\n", (unsigned) fs);

   // sanity:  the full buffer parses
   {
      Message ok;
      DataUnflattener u(buf.GetBuffer(), fs);
      const status_t r = ok.TemplatedUnflatten(*templ(), u);
      printf("full buffer:      TemplatedUnflatten -> [%s], equal=%i\n", r(), (int)(ok==payload));
   }

   // Truncate by one byte
   Message m;
   DataUnflattener u(buf.GetBuffer(), fs-1);
   const status_t r = m.TemplatedUnflatten(*templ(), u);
   printf("truncated buffer: TemplatedUnflatten -> [%s];  target now has %u field name(s)\n", r(), (unsigned) m.GetNumNames());
   fflush(stdout);

   const uint32 fs2 = m.FlattenedSize();   // aborts on the unchanged library
   printf("FlattenedSize() of the left-over object = %u\n", (unsigned) fs2);
   printf("OK: object reusable\n");
   return 0;
}
