// Observation (UNCHANGED library):  PR_COMMAND_JETTISONRESULTS sent by one unprivileged session empties a
// Message that is queued for delivery to ANOTHER session.
//
// carol sends an ordinary client-to-client Message whose 'what' code happens to be PR_RESULT_DATAITEMS
// (any client may choose any what-code outside the PR_COMMAND range) addressed to alice and bob.  The
// server queues the very same Message object on alice's and on bob's outgoing queue.  alice then sends
// PR_COMMAND_JETTISONRESULTS (no keys), which is documented to drop pending results from HER OWN queue;
// StorageReflectSession::JettisonOutgoingResults() does so by calling msg->Clear() on every queued
// PR_RESULT_DATAITEMS Message -- including the shared one, so bob receives an empty Message.

#include "harness.h"

static void Show(TestClient & c)
{
   MessageRef m;
   bool any = false;
   while(c.RemoveHead(m).IsOK())
   {
      if (m()->what != PR_RESULT_DATAITEMS) continue;
      any = true;
      printf("   %s received what=PR_RESULT_DATAITEMS with %u field(s); text=[%s]\n", c.Name(), (unsigned) m()->GetNumNames(), m()->GetString("text", "<field missing>")());
   }
   if (any == false) printf("   %s received nothing\n", c.Name());
}

static int RunScenario(bool aliceJettisons)
{
   TestServer server;
   if (server.Start().IsError()) {printf("Couldn't start server!\n"); return 10;}

   // connect order matters only for determinism:  the server services sessions in this order within one event-loop pass
   TestClient carol("carol"), alice("alice"), bob("bob");
   if ((carol.Connect(server).IsError())||(alice.Connect(server).IsError())||(bob.Connect(server).IsError())) {printf("Couldn't connect clients!\n"); return 10;}
   TestClient * clients[] = {&carol, &alice, &bob};

   MessageRef chat = GetMessageFromPool(PR_RESULT_DATAITEMS);
   (void) chat()->AddString(PR_NAME_KEYS, alice.Root());
   (void) chat()->AddString(PR_NAME_KEYS, bob.Root());
   (void) chat()->AddString("text", "hello from carol");
   carol.Send(chat);
   if (aliceJettisons) alice.Send(GetMessageFromPool(PR_COMMAND_JETTISONRESULTS));   // both requests are waiting in the server's sockets now

   PumpAll(server, clients, 3);
   Show(alice);
   Show(bob);

   for (uint32 i=0; i<3; i++) clients[i]->Cut();
   server.RunFor(50);
   server.Shutdown();
   return 0;
}

int main(int, char **)
{
   CompleteSetupSystem css;
   SetConsoleLogLevel(MUSCLE_LOG_CRITICALERROR);

   printf("Scenario 1:  carol sends a Message to alice and bob; alice does nothing\n");
   (void) RunScenario(false);
   printf("Scenario 2:  carol sends the same Message; alice sends PR_COMMAND_JETTISONRESULTS at the same time\n");
   (void) RunScenario(true);
   return 0;
}
