// Tiny single-threaded test harness: an in-process MUSCLE ReflectServer (StorageReflectSession
// factory on an ephemeral localhost TCP port) plus any number of real TCP clients that speak the
// normal MessageIOGateway protocol.  The server's event loop is only run when Pump() is called,
// so the interleaving of client actions and server processing is fully deterministic.
#ifndef C06_DEMO_HARNESS_H
#define C06_DEMO_HARNESS_H

#include <stdio.h>
#include "dataio/TCPSocketDataIO.h"
#include "iogateway/MessageIOGateway.h"
#include "reflector/ReflectServer.h"
#include "reflector/StorageReflectSession.h"
#include "reflector/StorageReflectConstants.h"
#include "system/SetupSystem.h"
#include "syslog/SysLog.h"
#include "util/NetworkUtilityFunctions.h"

using namespace muscle;

// A StorageReflectSession that lets the demo look at the server-side database (read-only)
class InspectableSession : public StorageReflectSession
{
public:
   DataNode & Root() const {return GetGlobalRoot();}
};

class InspectableFactory : public StorageReflectSessionFactory
{
public:
   virtual AbstractReflectSessionRef CreateSession(const String &, const IPAddressAndPort &)
   {
      return AbstractReflectSessionRef(new InspectableSession);
   }
};

class TestServer
{
public:
   TestServer() : _port(0) {/* empty */}

   status_t Start()
   {
      _server.SetDoLogging(false);
      return _server.PutAcceptFactory(0, ReflectSessionFactoryRef(new InspectableFactory), localhostIP, &_port);
   }

   void RunFor(uint32 millis) {(void) _server.ServerProcessLoop(GetRunTime64()+MillisToMicros(millis));}

   uint16 GetPort() const {return _port;}
   ReflectServer & Server() {return _server;}

   uint32 GetNumSessions() const {return _server.GetSessions().GetNumItems();}

   // Returns the database root, or NULL if no sessions are attached
   DataNode * GetRoot() const
   {
      for (ConstHashtableIterator<const String *, AbstractReflectSessionRef> iter(_server.GetSessions()); iter.HasData(); iter++)
      {
         const InspectableSession * s = dynamic_cast<const InspectableSession *>(iter.GetValue()());
         if (s) return &s->Root();
      }
      return NULL;
   }

   void Shutdown() {_server.Cleanup();}

private:
   ReflectServer _server;
   uint16 _port;
};

class TestClient : public QueueGatewayMessageReceiver
{
public:
   TestClient(const char * name) : _name(name), _closedByPeer(false) {/* empty */}

   status_t Connect(TestServer & server)
   {
      _sock = muscle::Connect(IPAddressAndPort(localhostIP, server.GetPort()), NULL, NULL, true);
      if (_sock() == NULL) return B_IO_ERROR;
      (void) SetSocketBlockingEnabled(_sock, false);
      _gw.SetDataIO(DataIORef(new TCPSocketDataIO(_sock, false)));
      server.RunFor(30);  // let the server accept us

      // Learn our session-root path (eg "/127.0.0.1/3")
      MessageRef reply = Transact(server, GetMessageFromPool(PR_COMMAND_GETPARAMETERS), PR_RESULT_PARAMETERS);
      if (reply()) _root = reply()->GetString(PR_NAME_SESSION_ROOT);
      return _root.HasChars() ? B_NO_ERROR : B_ERROR("no session root");
   }

   void Send(const MessageRef & msg)
   {
      (void) _gw.AddOutgoingMessage(msg);
      while(_gw.HasBytesToOutput()) if (_gw.DoOutput().IsError()) break;
   }

   // Sends raw bytes down the socket (used to simulate a partially-sent Message)
   void SendRaw(const uint8 * bytes, uint32 numBytes) {(void) SendData(_sock, bytes, numBytes, true);}

   // Reads whatever the server has sent us so far
   void Poll()
   {
      if (_gw.GetDataIO()() == NULL) return;
      while(true)
      {
         const io_status_t r = _gw.DoInput(*this);
         if (r.IsError()) {_closedByPeer = true; break;}
         if (r.GetByteCount() <= 0) break;
      }
   }

   // Sends (msg), runs the server, and returns the first reply with the given what-code (or a NULL ref)
   MessageRef Transact(TestServer & server, const MessageRef & msg, uint32 replyWhat)
   {
      Send(msg);
      for (int i=0; i<10; i++)
      {
         server.RunFor(20);
         Poll();
         for (uint32 j=0; j<GetMessages().GetNumItems(); j++)
         {
            if (GetMessages()[j]()->what == replyWhat)
            {
               MessageRef ret = GetMessages()[j];
               (void) GetMessages().RemoveItemAt(j);
               return ret;
            }
         }
      }
      return MessageRef();
   }

   // Abruptly closes our TCP connection
   void Cut()
   {
      _gw.SetDataIO(DataIORef());
      _sock.Reset();
   }

   bool IsClosedByPeer() const {return _closedByPeer;}
   const String & Root() const {return _root;}       // eg "/127.0.0.1/3"
   String SessionID() const {return _root.Substring("/");}  // eg "3"
   const char * Name() const {return _name;}

   void DumpAndClearInbox(const char * prefix)
   {
      MessageRef m;
      while(RemoveHead(m).IsOK())
      {
         printf("%s[%s] received:  what=%s", prefix, _name, GetTypeCodeString(m()->what)());
         for (MessageFieldNameIterator it = m()->GetFieldNameIterator(); it.HasData(); it++)
         {
            const String & fn = it.GetFieldName();
            if (fn == PR_NAME_REMOVED_DATAITEMS)
            {
               const String * s;
               for (int32 i=0; m()->FindString(fn, i, &s).IsOK(); i++) printf("  REMOVED(%s)", s->Cstr());
            }
            else printf("  field(%s)", fn());
         }
         printf("\n");
      }
   }

private:
   const char * _name;
   ConstSocketRef _sock;
   MessageIOGateway _gw;
   String _root;
   bool _closedByPeer;
};

static inline void PumpAll(TestServer & server, TestClient ** clients, uint32 numClients, int rounds = 3)
{
   for (int r=0; r<rounds; r++)
   {
      server.RunFor(20);
      for (uint32 i=0; i<numClients; i++) if (clients[i]) clients[i]->Poll();
   }
}

static inline void PrintTreeAux(const DataNode & node, int indent)
{
   String np; (void) node.GetNodePath(np);
   printf("%*s%s", indent, "", np());
   const Hashtable<uint32, uint32> & subs = node.GetSubscribers();
   if (subs.HasItems())
   {
      printf("   subscription-marks={");
      for (ConstHashtableIterator<uint32, uint32> it(subs); it.HasData(); it++) printf(" session" UINT32_FORMAT_SPEC ":x" UINT32_FORMAT_SPEC, it.GetKey(), it.GetValue());
      printf(" }");
   }
   printf("\n");
   for (DataNodeRefIterator it = node.GetChildIterator(); it.HasData(); it++) PrintTreeAux(*it.GetValue()(), indent+2);
}

static inline void PrintTree(TestServer & server, const char * title)
{
   printf("%s\n", title);
   const DataNode * root = server.GetRoot();
   if (root) PrintTreeAux(*root, 3);
        else printf("   (no database)\n");
}

#endif
