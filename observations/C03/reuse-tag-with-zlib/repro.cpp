// Observation: a Message tagged with OptimizeMessageForTransmissionToMultipleGateways() breaks a zlib-encoded stream (unchanged library).
#include "pipe.h"
#include "iogateway/MessageIOGateway.h"
#include "system/SetupSystem.h"
static MessageRef Mk(uint32 what, int seed)
{
   MessageRef m = GetMessageFromPool(what);
   String s; for (int i=0;i<40;i++) s += String("item-%1-%2 ").Arg(seed).Arg(i*seed);
   (void) m()->AddString("text", s); (void) m()->AddInt32("seed", seed);
   return m;
}
// compares everything that goes over the wire (the re-use tag itself is a B_TAG_TYPE field and is never flattened)
static bool Same(const Message & a, const Message & b) {return ((a.what==b.what)&&(a.GetString("text")==b.GetString("text"))&&(a.GetInt32("seed")==b.GetInt32("seed")));}
struct Link
{
   Link(int32 enc) : aio(&b2a,&a2b), bio(&a2b,&b2a), ag(enc), bg(enc) {ag.SetDataIO(DummyDataIORef(aio)); bg.SetDataIO(DummyDataIORef(bio));}
   void Send(const MessageRef & m) {(void) sent.AddTail(m); (void) ag.AddOutgoingMessage(m);}
   void Pump(const char * name)
   {
      for (int k=0;k<100;k++) {const io_status_t o=ag.DoOutput(), i=bg.DoInput(rb); if (o.IsError()||i.IsError()) {printf("   %s: gateway error out=[%s] in=[%s]\n", name, o.GetStatus()(), i.GetStatus()()); break;}}
      uint32 good=0; for (uint32 i=0;(i<sent.GetNumItems())&&(i<rb.GetMessages().GetNumItems());i++) if (Same(*sent[i](), *rb.GetMessages()[i]())) good++; else break;
      printf("   %s: sent %u, received %u, %u identical-and-in-order %s\n", name, sent.GetNumItems(), rb.GetMessages().GetNumItems(), good, (good==sent.GetNumItems())?"":"<-- *** VIOLATION ***");
   }
   ByteQ a2b, b2a; PipeIO aio, bio; MessageIOGateway ag, bg; QueueGatewayMessageReceiver rb; Queue<MessageRef> sent;
};
static void Scenario(int32 enc, const char * encName)
{
   printf("encoding %s\n", encName);
   {
      // (a) the documented use: the same tagged Message goes out over two gateways whose streams have different histories
      MessageRef shared = Mk(42, 7);
      (void) OptimizeMessageForTransmissionToMultipleGateways(shared);
      Link l1(enc), l2(enc);
      l1.Send(Mk(1,1));                   l1.Send(shared); l1.Send(Mk(3,3));
      l2.Send(Mk(4,4)); l2.Send(Mk(5,5)); l2.Send(shared); l2.Send(Mk(6,6));
      l1.Pump("(a) link 1 (flattens + caches the tagged Message)");
      l2.Pump("(a) link 2 (re-uses link 1's cached bytes)       ");
   }
   {
      // (b) the same tagged Message queued twice on ONE gateway
      MessageRef shared = Mk(42, 7);
      (void) OptimizeMessageForTransmissionToMultipleGateways(shared);
      Link l(enc);
      l.Send(Mk(1,1)); l.Send(shared); l.Send(Mk(2,2)); l.Send(shared); l.Send(Mk(3,3));
      l.Pump("(b) single link, tagged Message queued twice      ");
   }
}
int main()
{
   CompleteSetupSystem css;
   Scenario(MUSCLE_MESSAGE_ENCODING_DEFAULT, "MUSCLE_MESSAGE_ENCODING_DEFAULT");
   Scenario(MUSCLE_MESSAGE_ENCODING_ZLIB_6,  "MUSCLE_MESSAGE_ENCODING_ZLIB_6");
   return 0;
}
