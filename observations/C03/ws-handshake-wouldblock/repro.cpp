// Observation: the WebSocket HTTP handshake phase does not tolerate a zero-byte (would-block) Read() (unchanged library).
#include "pipe.h"
#include "iogateway/WebSocketMessageIOGateway.h"
#include "iogateway/MessageIOGateway.h"
#include "system/SetupSystem.h"
static bool Run(uint32 clientMaxWrite)
{
   ByteQ c2s, s2c;
   PipeIO cio(&s2c,&c2s), sio(&c2s,&s2c);
   cio._maxWrite = clientMaxWrite;
   WebSocketMessageIOGateway cg("/chat", "localhost", "muscle", ""), sg;   // client-side and server-side handshake constructors
   cg.SetSlaveGateway(AbstractMessageIOGatewayRef(new MessageIOGateway));
   sg.SetSlaveGateway(AbstractMessageIOGatewayRef(new MessageIOGateway));
   cg.SetDataIO(DummyDataIORef(cio)); sg.SetDataIO(DummyDataIORef(sio));
   QueueGatewayMessageReceiver rs, rc;
   for (int i=0;i<5;i++) {MessageRef m = GetMessageFromPool(2000+i); (void) m()->AddString("s", String("from server %1").Arg(i)); (void) sg.AddOutgoingMessage(m);}
   status_t err;
   for (int k=0;(k<200)&&(err.IsOK());k++)
   {
      // each side only calls DoInput() when there really are bytes waiting for it, like a select()-driven event loop would
      (void) cg.DoOutput();
      if (c2s.q.size() > 0) {const io_status_t r = sg.DoInput(rs); if (r.IsError()) {printf("   server DoInput error [%s]\n", r.GetStatus()()); err = r.GetStatus();}}
      (void) sg.DoOutput();
      if (s2c.q.size() > 0) {const io_status_t r = cg.DoInput(rc); if (r.IsError()) {printf("   client DoInput error [%s]\n", r.GetStatus()()); err = r.GetStatus();}}
   }
   printf("   client Write() accepts at most %u bytes per call: handshake still in progress: client=%d server=%d; client received %u of 5 Messages %s\n", clientMaxWrite, cg.IsHandshakeInProgress(), sg.IsHandshakeInProgress(), rc.GetMessages().GetNumItems(), (rc.GetMessages().GetNumItems()==5)?"":"<-- *** VIOLATION ***");
   return (rc.GetMessages().GetNumItems()==5);
}
int main()
{
   CompleteSetupSystem css;
   printf("whole HTTP request available to the server in one piece:\n");
   Run(MUSCLE_NO_LIMIT);
   printf("HTTP request arrives in pieces of 50 bytes (server's Read() returns 0 = would-block after the first piece):\n");
   Run(50);
   return 0;
}
