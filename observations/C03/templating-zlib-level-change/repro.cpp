// Observation: changing the zlib level of a TemplatingMessageIOGateway sender in mid-stream breaks the receiver (unchanged library).
#include "pipe.h"
#include "iogateway/TemplatingMessageIOGateway.h"
#include "system/SetupSystem.h"
static MessageRef Mk(uint32 what, int seed)
{
   MessageRef m = GetMessageFromPool(what);
   String s; for (int i=0;i<40;i++) s += String("item-%1-%2 ").Arg(seed).Arg(i*seed);
   m()->AddString("text", s); m()->AddInt32("seed", seed);
   return m;
}
template<class GW> int run(const char * name)
{
   ByteQ a2b, b2a;
   PipeIO aio(&b2a,&a2b), bio(&a2b,&b2a);
   GW ag, bg;
   ag.SetOutgoingEncoding(MUSCLE_MESSAGE_ENCODING_ZLIB_3);
   ag.SetDataIO(DummyDataIORef(aio)); bg.SetDataIO(DummyDataIORef(bio));
   QueueGatewayMessageReceiver rb;
   uint32 sent=0;
   for (int i=0;i<6;i++)
   {
      if (i==3) ag.SetOutgoingEncoding(MUSCLE_MESSAGE_ENCODING_ZLIB_9);
      (void) ag.AddOutgoingMessage(Mk(i,i+1)); sent++;
      for (int k=0;k<10;k++) {io_status_t o=ag.DoOutput(); io_status_t a=bg.DoInput(rb); if (o.IsError()||a.IsError()) {printf("%s: err out=[%s] in=[%s]\n", name, o.GetStatus()(), a.GetStatus()()); goto done;}}
   }
done:
   printf("%s: queued %u (ZLIB_3 for #0-2, ZLIB_9 for #3-5), received %u %s\n", name, sent, rb.GetMessages().GetNumItems(), (sent==rb.GetMessages().GetNumItems())?"":"<-- *** VIOLATION ***");
   return 0;
}
int main()
{
   CompleteSetupSystem css;
   run<MessageIOGateway>("MessageIOGateway");
   run<TemplatingMessageIOGateway>("TemplatingMessageIOGateway");
   return 0;
}
