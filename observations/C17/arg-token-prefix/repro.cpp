// UNCHANGED library: String::Arg() replaces the token "%1" also where it is only the prefix of a longer token ("%10", "%12", ...).
#include <stdio.h>
#include "util/String.h"
#include "system/SetupSystem.h"
using namespace muscle;
int main()
{
   CompleteSetupSystem css;
   printf("[%s]   (expected [a and %%10]: only the %%1 token is substituted by the first Arg())\n", String("%1 and %10").Arg("a")());
   printf("[%s]   (expected [one ... ten])\n", String("%1 ... %10").Arg("one").Arg("ten")());
   return 0;
}
