// UNCHANGED library: String::Substring(const char * markerString) with a NULL marker crashes (strlen(NULL)) on a non-empty String,
// and an empty marker returns the last character instead of the whole String / an empty suffix.
#include <stdio.h>
#include "util/String.h"
#include "system/SetupSystem.h"
using namespace muscle;
int main()
{
   CompleteSetupSystem css;
   const String s("abc");
   printf("LastIndexOf(\"\")=%d LastIndexOf((const char*)NULL)=%d LastIndexOf(String())=%d  (IndexOf(\"\")=%d)\n", s.LastIndexOf(""), s.LastIndexOf((const char *)NULL), s.LastIndexOf(String()), s.IndexOf(""));
   printf("Substring(\"\")=[%s]  Substring(String())=[%s]\n", s.Substring("")(), s.Substring(String())());
   printf("String().Substring((const char*)NULL)=[%s]  (empty String: fine)\n", String().Substring((const char *)NULL)());
   printf("now calling String(\"abc\").Substring((const char *)NULL) ...\n"); fflush(stdout);
   const String r = s.Substring((const char *)NULL);
   printf("returned [%s]\n", r());
   return 0;
}
