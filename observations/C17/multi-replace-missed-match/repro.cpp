// UNCHANGED library: String::WithReplacements(const Hashtable<String,String>&) / Replace(Hashtable) misses occurrences
#include <stdio.h>
#include "util/String.h"
#include "system/SetupSystem.h"
using namespace muscle;
int main()
{
   CompleteSetupSystem css;
   Hashtable<String,String> m; (void) m.Put("aab", "X");
   const char * inputs[] = {"aaab", "xaaab aab aaaab", "aab", "aaaaab", "0aaab1"};
   int bad = 0;
   for (uint32 i=0; i<ARRAYITEMS(inputs); i++)
   {
      const String in(inputs[i]);
      const String multi  = in.WithReplacements(m);            // table-driven version (ReplaceAux)
      const String single = in.WithReplacements("aab", "X");   // plain single-pair version (uses strstr) == what an ideal string would give
      String inPlace = in; const int32 n = inPlace.Replace(m);
      printf("in=[%s]  WithReplacements({aab->X})=[%s]  Replace(table) -> %d [%s]   ideal/single-pair=[%s]  %s\n", in(), multi(), n, inPlace(), single(), (multi==single)?"ok":"MISMATCH");
      if (multi != single) bad++;
   }
   // second shape of the same defect: key "abac" in "ababac"
   Hashtable<String,String> m2; (void) m2.Put("abac", "Y");
   const String in2("ababac");
   printf("in=[%s]  WithReplacements({abac->Y})=[%s]  ideal=[%s]\n", in2(), in2.WithReplacements(m2)(), in2.WithReplacements("abac","Y")());
   if (in2.WithReplacements(m2) != in2.WithReplacements("abac","Y")) bad++;
   printf("%d mismatches\n", bad);
   return bad?1:0;
}
