// UNCHANGED library: a NUL char can be put into a String via operator+=(char) / Replace(char,char); Length() then disagrees with the
// NUL-terminated contents, equality becomes inconsistent, and Flatten() no longer emits "bytes plus ONE NUL" / does not round-trip.
#include <stdio.h>
#include "util/String.h"
#include "support/DataFlattener.h"
#include "support/DataUnflattener.h"
#include "system/SetupSystem.h"
using namespace muscle;
static void Show(const char * desc, const String & s)
{
   printf("%s: Cstr()=[%s] Length()=%u strlen(Cstr())=%zu  (s==s())=%d  (s==String(s()))=%d  FlattenedSize()=%u\n", desc, s(), s.Length(), strlen(s()), (int)(s==s()), (int)(s==String(s())), s.FlattenedSize());
   uint8 buf[64]; memset(buf, '#', sizeof(buf));
   s.Flatten(DataFlattener(buf, s.FlattenedSize()));
   printf("   flattened bytes:"); for (uint32 i=0; i<s.FlattenedSize(); i++) printf(" %02x", buf[i]); printf("\n");
   String u; DataUnflattener unflat(buf, s.FlattenedSize());
   const status_t r = u.Unflatten(unflat);
   printf("   Unflatten: status=[%s] value=[%s] Length()=%u bytesConsumed=%u of %u  (unflattened==original)=%d\n", r(), u(), u.Length(), unflat.GetNumBytesRead(), s.FlattenedSize(), (int)(u==s));
}
int main()
{
   CompleteSetupSystem css;
   {String s("ab");  s += '\0';              Show("String(\"ab\") += '\\0'", s);  s += "cd"; Show("   ... then += \"cd\"", s);}
   {String s("abc"); (void) s.Replace('b', '\0'); Show("String(\"abc\").Replace('b','\\0')", s);}
   {String s("abc"); String t = s.WithAppend('\0', 3); Show("String(\"abc\").WithAppend('\\0',3)  [InsertCharsAux refuses NUL, for comparison]", t);}
   return 0;
}
