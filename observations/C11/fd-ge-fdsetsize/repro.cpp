// Observation (UNCHANGED library): with the default select() back-end, a socket-pair Thread whose signalling
// sockets get file descriptors >= FD_SETSIZE (1024) never wakes its internal thread, and shutdown never completes.
#include <stdio.h>
#include <stdlib.h>
#include <unistd.h>
#include <fcntl.h>
#include <sys/resource.h>
#include <atomic>
#include "system/Thread.h"
#include "system/SetupSystem.h"

using namespace muscle;

class EchoThread : public Thread
{
public:
   std::atomic<int> _numReceived{0};
protected:
   virtual status_t MessageReceivedFromOwner(const MessageRef & msgRef, uint32)
   {
      if (msgRef() == NULL) return B_SHUTTING_DOWN;
      _numReceived++;
      return SendMessageToOwner(msgRef);
   }
};

static void * Watchdog(void *)
{
   sleep(5);
   printf("  watchdog:  ShutdownInternalThread() still hasn't returned after 5 seconds -> shutdown never completes.  Exiting via _exit().\n");
   printf("RESULT: PROPERTY VIOLATED on the unchanged library\n");
   fflush(stdout);
   _exit(1);
   return NULL;
}

int main(int argc, char ** argv)
{
   CompleteSetupSystem css;

   const int numFDsToBurn = (argc > 1) ? atoi(argv[1]) : 1100;

   struct rlimit rl;
   getrlimit(RLIMIT_NOFILE, &rl);
   if (rl.rlim_cur < 4096) {rl.rlim_cur = (rl.rlim_max < 4096) ? rl.rlim_max : 4096; setrlimit(RLIMIT_NOFILE, &rl);}

   // The process already has many descriptors open (think: a busy server with > 1024 client connections)
   int highest = -1;
   for (int i=0; i<numFDsToBurn; i++) {const int fd = open("/dev/null", O_RDONLY); if (fd > highest) highest = fd;}
   printf("  %i descriptors opened, highest is %i (FD_SETSIZE=%i)\n", numFDsToBurn, highest, (int)FD_SETSIZE);

   EchoThread t;
   if (t.StartInternalThread().IsError()) {printf("couldn't start thread\n"); return 10;}
   printf("  owner wakeup socket fd=%i\n", t.GetOwnerWakeupSocket().GetFileDescriptor());

   (void) Snooze64(MillisToMicros(100));  // let the internal thread block in WaitForNextMessageFromOwner()

   MessageRef msg = GetMessageFromPool(1);
   (void) t.SendMessageToInternalThread(msg);
   MessageRef reply;
   const status_t r = t.GetNextReplyFromInternalThread(reply, GetRunTime64()+SecondsToMicros(2));
   printf("  Message #1:  GetNextReplyFromInternalThread() returned [%s]; internal thread has received %i Message(s)\n", r(), (int)t._numReceived);
   const bool ok = ((r.IsOK())&&(reply() == msg()));
   if (ok == false) printf("  -> the internal thread, blocked waiting for its next Message, was never woken\n");

   pthread_t wd; pthread_create(&wd, NULL, Watchdog, NULL);
   printf("  calling ShutdownInternalThread()...\n"); fflush(stdout);
   t.ShutdownInternalThread();
   printf("  ShutdownInternalThread() returned\n");
   printf("%s\n", ok ? "RESULT: OK" : "RESULT: PROPERTY VIOLATED on the unchanged library");
   return ok ? 0 : 1;
}
