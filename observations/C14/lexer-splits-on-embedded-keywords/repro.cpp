// Repro (UNCHANGED library): the expression lexer ends an unquoted field-name/value as soon as ANY known token
// text starts inside it -- including the word-synonyms "or ", "and ", "is ", "not ", "xor ", "equals " and the
// keyword "what" -- so field names that merely END in (or contain) those letters are cut in two.
#include <stdio.h>
#include "regex/QueryFilter.h"
#include "system/SetupSystem.h"
using namespace muscle;

static void Try(const char * expr, const Message & m, const char * note)
{
   ConstQueryFilterRef qf = CreateQueryFilterFromExpression(expr);
   printf("[%s]   (%s)\n", expr, note);
   if (qf() == NULL) {printf("     -> parse error [%s]\n", qf.GetStatus()()); return;}
   DummyConstMessageRef r(m);
   ConstMessageRef cr = r;
   printf("     -> Matches()=%d, built filter: ", qf()->Matches(cr, NULL)); qf()->Print(stdout);
}

int main()
{
   CompleteSetupSystem css;
   Message m(1234);
   (void) m.AddInt32("age", 30);
   (void) m.AddFloat("weight", 100.0f);
   (void) m.AddString("eyecolor", "green");
   (void) m.AddInt32("axis", 7);
   (void) m.AddInt32("ax", 3);

   Try("(what == 1234) && (age >= 21) && (weight < 155.0f) && (eyecolor == \"green\")", m, "verbatim example from the Beginners Guide; should parse and match");
   Try("eyecolor == \"green\"",  m, "documented; should match");
   Try("eyecolor==\"green\"",    m, "same thing without the space after the field name: works");
   Try("!(eyecolor contains \"green\")", m, "verbatim example from the Beginners Guide; should parse, result 0");
   Try("axis == 7",             m, "should match (axis is 7)");
   Try("axis 3",                m, "not in the grammar (no operator): should be rejected, but is accepted as (ax == 3)");
   Try("whatever == 3",         m, "field name starting with 'what'");
   return 0;
}
