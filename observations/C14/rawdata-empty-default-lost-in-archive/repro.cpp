// Repro (UNCHANGED library): a RawDataQueryFilter whose assumed-default value is a zero-length buffer loses that
// default when it is archived and restored, so the restored filter decides differently on Messages that lack the field.
#include <stdio.h>
#include "regex/QueryFilter.h"
#include "system/SetupSystem.h"
using namespace muscle;

static bool M(const QueryFilter & f, const Message & m) {DummyConstMessageRef r(m); ConstMessageRef cr = r; return f.Matches(cr, NULL);}

int main()
{
   CompleteSetupSystem css;

   ConstByteBufferRef val = GetByteBufferFromPool(3, (const uint8 *)"abc");
   ConstByteBufferRef def = GetByteBufferFromPool(0);   // "if the field is missing, treat it as an empty byte string"
   printf("default buffer: object=%s GetNumBytes()=%u GetBuffer()=%p\n", def()?"non-NULL":"NULL", def()?def()->GetNumBytes():0, def()?(const void *)def()->GetBuffer():NULL);

   const uint8 ops[]     = {RawDataQueryFilter::OP_START_OF, RawDataQueryFilter::OP_END_OF, RawDataQueryFilter::OP_SUBSET_OF, RawDataQueryFilter::OP_LESS_THAN, RawDataQueryFilter::OP_NOT_EQUAL_TO};
   const char * names[]  = {"OP_START_OF", "OP_END_OF", "OP_SUBSET_OF", "OP_LESS_THAN", "OP_NOT_EQUAL_TO"};

   Message m(1); (void) m.AddInt32("unrelated", 1);   // no field "x"

   int bad = 0;
   for (uint32 i=0; i<ARRAYITEMS(ops); i++)
   {
      RawDataQueryFilter f("x", ops[i], val, B_ANY_TYPE, 0, def);
      Message arc; if (f.SaveToArchive(arc).IsError()) {printf("save failed\n"); return 10;}
      QueryFilterRef g = GetGlobalQueryFilterFactory()()->CreateQueryFilter(arc);
      if (g() == NULL) {printf("restore failed\n"); return 10;}
      const bool a = M(f, m), b = M(*g(), m);
      printf("%-16s value=\"abc\" default=<empty>, Message without \"x\":  original=%d  restored=%d  archive-has-def-field=%d  %s\n", names[i], a, b, arc.HasName("def"), (a==b)?"ok":"VIOLATION");
      if (a != b) bad++;
   }
   printf("%d violation(s)\n", bad);
   return bad ? 1 : 0;
}
