// Repro (UNCHANGED library): a parenthesised sub-expression that is itself wrapped in one more pair of parentheses
// is rejected, although "( expr )" nesting is otherwise accepted and documented.
#include <stdio.h>
#include "regex/QueryFilter.h"
#include "system/SetupSystem.h"
using namespace muscle;

static void Try(const char * expr, const Message & m)
{
   ConstQueryFilterRef qf = CreateQueryFilterFromExpression(expr);
   if (qf() == NULL) {printf("%-40s -> parse error [%s]\n", expr, qf.GetStatus()()); return;}
   DummyConstMessageRef r(m); ConstMessageRef cr = r;
   printf("%-40s -> parsed, Matches()=%d\n", expr, qf()->Matches(cr, NULL));
}

int main()
{
   CompleteSetupSystem css;
   Message m(1); (void) m.AddInt32("a", 1); (void) m.AddInt32("b", 2);
   Try("a == 1", m);
   Try("(a == 1)", m);
   Try("((a == 1))", m);                    // rejected
   Try("!((a == 1))", m);                   // rejected
   Try("((a == 1)) && (b == 2)", m);        // rejected
   Try("((a == 1) && (b == 2))", m);        // accepted
   Try("(((a == 1) && (b == 2)))", m);      // rejected
   Try("()", m);                            // rejected (fine) -- but by a different check than the one quoted in README
   return 0;
}
