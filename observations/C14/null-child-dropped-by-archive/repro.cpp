// Repro (UNCHANGED library, corner case): a combinator that holds a NULL child reference evaluates the NULL child as
// "does not match" (and counts it in numKids), but SaveToArchive() silently drops it, so the restored filter has fewer
// children and decides differently.
#include <stdio.h>
#include "regex/QueryFilter.h"
#include "system/SetupSystem.h"
using namespace muscle;

static bool M(const QueryFilter & f, const Message & m) {DummyConstMessageRef r(m); ConstMessageRef cr = r; return f.Matches(cr, NULL);}

template<class F> static int Test(const char * name, const Message & m)
{
   F f;
   (void) f.GetChildren().AddTail(ConstQueryFilterRef(new WhatCodeQueryFilter(1234)));  // matches m
   (void) f.GetChildren().AddTail(ConstQueryFilterRef());                               // NULL child
   Message arc; (void) f.SaveToArchive(arc);
   QueryFilterRef g = GetGlobalQueryFilterFactory()()->CreateQueryFilter(arc);
   if (g() == NULL) {printf("restore failed\n"); return 1;}
   const bool a = M(f, m), b = M(*g(), m);
   printf("%-5s(what==1234, <NULL child>):  original=%d  restored=%d  %s\n", name, a, b, (a==b)?"ok":"VIOLATION");
   return (a==b) ? 0 : 1;
}

int main()
{
   CompleteSetupSystem css;
   Message m(1234);
   int bad = 0;
   bad += Test<AndQueryFilter> ("AND",  m);
   bad += Test<NandQueryFilter>("NAND", m);
   bad += Test<OrQueryFilter>  ("OR",   m);
   bad += Test<NorQueryFilter> ("NOR",  m);
   bad += Test<XorQueryFilter> ("XOR",  m);
   printf("%d violation(s)\n", bad);
   return bad ? 1 : 0;
}
