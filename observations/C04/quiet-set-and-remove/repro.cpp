// Observation on the UNCHANGED library (documented / intentional behaviour, but it contradicts the literal
// wording of C04, whose quantifier explicitly includes "quiet flags"):
//   - PR_COMMAND_SETDATA with SETDATANODE_FLAG_QUIET       -> subscribers never learn about the new node / new value
//   - PR_COMMAND_REMOVEDATA with PR_NAME_REMOVE_QUIETLY    -> subscribers keep a stale node forever
#include "harness.h"

static void SetNodeQuietly(Client & c, const char * path, int32 v)
{
   MessageRef m = GetMessageFromPool(PR_COMMAND_SETDATA);
   (void) m()->AddMessage(path, MakePayload(v));
   (void) m()->AddFlat(PR_NAME_FLAGS, SetDataNodeFlags(SETDATANODE_FLAG_QUIET));
   c.Send(m);
}

static void RemoveNodesQuietly(Client & c, const char * path)
{
   MessageRef m = GetMessageFromPool(PR_COMMAND_REMOVEDATA);
   (void) m()->AddString(PR_NAME_KEYS, path);
   (void) m()->AddBool(PR_NAME_REMOVE_QUIETLY, true);
   c.Send(m);
}

int main()
{
   CompleteSetupSystem css;
   ReflectServer server;
   StartServer(server);

   Client P("P"), S("S"), O("observer");
   S._verbose = true;

   SetNode(P, "a", 1); SetNode(P, "b", 1); Sync(P);
   Subscribe(S, "/*/*/*"); Sync(S); Quiesce();

   bool ok = true;
   Mirror expected;
   QueryServer(O, "/*/*/*", NULL, expected);
   ok &= Check("step 1: S subscribed to /*/*/*", S, expected);

   SetNodeQuietly(P, "a", 2);  // overwrite, quiet
   SetNodeQuietly(P, "c", 2);  // create, quiet
   Sync(P); Quiesce();
   expected.clear(); QueryServer(O, "/*/*/*", NULL, expected);
   ok &= Check("step 2: P overwrote a and created c with SETDATANODE_FLAG_QUIET", S, expected);

   RemoveNodesQuietly(P, "b");
   Sync(P); Quiesce();
   expected.clear(); QueryServer(O, "/*/*/*", NULL, expected);
   ok &= Check("step 3: P removed b with PR_NAME_REMOVE_QUIETLY", S, expected);

   return Finish(ok);
}
