// Shared helper for the observation repros: flatten, parse, compare, re-flatten.
#include <stdio.h>
#include <string.h>
#include "message/Message.h"
#include "system/SetupSystem.h"
using namespace muscle;

static int RoundTrip(const char * desc, const Message & orig)
{
   int bad = 0;
   const uint32 fs = orig.FlattenedSize();
   ByteBufferRef buf = GetByteBufferFromPool(fs);
   orig.FlattenToBytes(buf()->GetBuffer(), fs);

   Message parsed;
   const status_t ret = parsed.UnflattenFromBytes(buf()->GetBuffer(), fs);
   if (ret.IsError()) {printf("[%s] VIOLATION: Unflatten of our own bytes failed: %s\n", desc, ret()); return 1;}

   if (!(parsed == orig)) {printf("[%s] VIOLATION: (parsed == orig) is false\n", desc); bad = 1;}
   if (!(orig == parsed)) {printf("[%s] VIOLATION: (orig == parsed) is false\n", desc); bad = 1;}
   if (parsed.CalculateChecksum() != orig.CalculateChecksum()) {printf("[%s] VIOLATION: checksum changed (" UINT32_FORMAT_SPEC " -> " UINT32_FORMAT_SPEC ")\n", desc, orig.CalculateChecksum(), parsed.CalculateChecksum()); bad = 1;}
   if (parsed.FlattenedSize() != fs) {printf("[%s] VIOLATION: flattened size changed (" UINT32_FORMAT_SPEC " -> " UINT32_FORMAT_SPEC ")\n", desc, fs, parsed.FlattenedSize()); bad = 1;}
   else
   {
      ByteBufferRef buf2 = GetByteBufferFromPool(fs);
      parsed.FlattenToBytes(buf2()->GetBuffer(), fs);
      if (memcmp(buf2()->GetBuffer(), buf()->GetBuffer(), fs) != 0) {printf("[%s] VIOLATION: re-serialised bytes differ\n", desc); bad = 1;}
   }
   if (bad == 0) printf("[%s] OK: round trip exact\n", desc);
   return bad;
}
static int Try(uint32 depth)
{
   MessageRef m = GetMessageFromPool(0);
   (void) m()->AddInt32("leaf", 1);
   for (uint32 i=1; i<depth; i++)
   {
      MessageRef parent = GetMessageFromPool(i);
      (void) parent()->AddMessage("sub", m);
      m = parent;
   }
   char desc[64]; muscleSprintf(desc, "nesting depth " UINT32_FORMAT_SPEC, depth);
   return RoundTrip(desc, *m());
}
int main()
{
   CompleteSetupSystem css;
   int bad = 0;
   bad += Try(10);
   bad += Try(1024);
   bad += Try(1025);
   bad += Try(2000);
   printf("%s\n", bad ? "RESULT: PROPERTY VIOLATED" : "RESULT: all round trips exact");
   return bad?1:0;
}
