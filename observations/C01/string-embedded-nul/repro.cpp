// Shared helper for the observation repros: flatten, parse, compare, re-flatten.
#include <stdio.h>
#include <string.h>
#include "message/Message.h"
#include "system/SetupSystem.h"
using namespace muscle;

static int RoundTrip(const char * desc, const Message & orig)
{
   int bad = 0;
   const uint32 fs = orig.FlattenedSize();
   ByteBufferRef buf = GetByteBufferFromPool(fs);
   orig.FlattenToBytes(buf()->GetBuffer(), fs);

   Message parsed;
   const status_t ret = parsed.UnflattenFromBytes(buf()->GetBuffer(), fs);
   if (ret.IsError()) {printf("[%s] VIOLATION: Unflatten of our own bytes failed: %s\n", desc, ret()); return 1;}

   if (!(parsed == orig)) {printf("[%s] VIOLATION: (parsed == orig) is false\n", desc); bad = 1;}
   if (!(orig == parsed)) {printf("[%s] VIOLATION: (orig == parsed) is false\n", desc); bad = 1;}
   if (parsed.CalculateChecksum() != orig.CalculateChecksum()) {printf("[%s] VIOLATION: checksum changed (" UINT32_FORMAT_SPEC " -> " UINT32_FORMAT_SPEC ")\n", desc, orig.CalculateChecksum(), parsed.CalculateChecksum()); bad = 1;}
   if (parsed.FlattenedSize() != fs) {printf("[%s] VIOLATION: flattened size changed (" UINT32_FORMAT_SPEC " -> " UINT32_FORMAT_SPEC ")\n", desc, fs, parsed.FlattenedSize()); bad = 1;}
   else
   {
      ByteBufferRef buf2 = GetByteBufferFromPool(fs);
      parsed.FlattenToBytes(buf2()->GetBuffer(), fs);
      if (memcmp(buf2()->GetBuffer(), buf()->GetBuffer(), fs) != 0) {printf("[%s] VIOLATION: re-serialised bytes differ\n", desc); bad = 1;}
   }
   if (bad == 0) printf("[%s] OK: round trip exact\n", desc);
   return bad;
}
int main()
{
   CompleteSetupSystem css;
   (void) SetConsoleLogLevel(MUSCLE_LOG_DEBUG);
   int bad = 0;
   String s("abc");
   s += '\0';     // String::operator+=(char) happily appends a NUL char; Length() becomes 4
   s += "def";    // Length() == 7, bytes are 'a','b','c',0,'d','e','f'
   printf("String: Length()=" UINT32_FORMAT_SPEC " FlattenedSize()=" UINT32_FORMAT_SPEC "\n", s.Length(), s.FlattenedSize());
   {
      Message m(1);
      (void) m.AddString("s", s);
      bad += RoundTrip("string with embedded NUL (inline)", m);
   }
   {
      Message m(1);
      (void) m.AddString("s", s);
      (void) m.AddString("s", "second");
      bad += RoundTrip("string with embedded NUL (array)", m);
   }
   {
      Message m(1);
      (void) m.AddInt32(s, 5);   // same thing in a field NAME
      bad += RoundTrip("field name with embedded NUL", m);
   }
   printf("%s\n", bad ? "RESULT: PROPERTY VIOLATED" : "RESULT: all round trips exact");
   return bad?1:0;
}
