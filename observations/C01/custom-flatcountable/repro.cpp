// Shared helper for the observation repros: flatten, parse, compare, re-flatten.
#include <stdio.h>
#include <string.h>
#include "message/Message.h"
#include "system/SetupSystem.h"
using namespace muscle;

static int RoundTrip(const char * desc, const Message & orig)
{
   int bad = 0;
   const uint32 fs = orig.FlattenedSize();
   ByteBufferRef buf = GetByteBufferFromPool(fs);
   orig.FlattenToBytes(buf()->GetBuffer(), fs);

   Message parsed;
   const status_t ret = parsed.UnflattenFromBytes(buf()->GetBuffer(), fs);
   if (ret.IsError()) {printf("[%s] VIOLATION: Unflatten of our own bytes failed: %s\n", desc, ret()); return 1;}

   if (!(parsed == orig)) {printf("[%s] VIOLATION: (parsed == orig) is false\n", desc); bad = 1;}
   if (!(orig == parsed)) {printf("[%s] VIOLATION: (orig == parsed) is false\n", desc); bad = 1;}
   if (parsed.CalculateChecksum() != orig.CalculateChecksum()) {printf("[%s] VIOLATION: checksum changed (" UINT32_FORMAT_SPEC " -> " UINT32_FORMAT_SPEC ")\n", desc, orig.CalculateChecksum(), parsed.CalculateChecksum()); bad = 1;}
   if (parsed.FlattenedSize() != fs) {printf("[%s] VIOLATION: flattened size changed (" UINT32_FORMAT_SPEC " -> " UINT32_FORMAT_SPEC ")\n", desc, fs, parsed.FlattenedSize()); bad = 1;}
   else
   {
      ByteBufferRef buf2 = GetByteBufferFromPool(fs);
      parsed.FlattenToBytes(buf2()->GetBuffer(), fs);
      if (memcmp(buf2()->GetBuffer(), buf()->GetBuffer(), fs) != 0) {printf("[%s] VIOLATION: re-serialised bytes differ\n", desc); bad = 1;}
   }
   if (bad == 0) printf("[%s] OK: round trip exact\n", desc);
   return bad;
}
// A user-defined FlatCountable with its own type code, added with Message::AddFlat()
class MyFlat : public FlatCountable
{
public:
   MyFlat(int32 v = 0) : _v(v) {}
   virtual bool IsFixedSize() const {return true;}
   virtual uint32 TypeCode() const {return 0x4d594654;} // 'MYFT'
   virtual uint32 FlattenedSize() const {return sizeof(int32);}
   virtual void Flatten(DataFlattener flat) const {flat.WriteInt32(_v);}
   virtual status_t Unflatten(DataUnflattener & unflat) {_v = unflat.ReadInt32(); return unflat.GetStatus();}
private:
   int32 _v;
};
int main()
{
   CompleteSetupSystem css;
   int bad = 0;
   { Message m(1); (void) m.AddFlat("obj", FlatCountableRef(new MyFlat(7)));                                                     bad += RoundTrip("AddFlat(custom FlatCountable) inline", m); }
   { Message m(1); (void) m.AddFlat("obj", FlatCountableRef(new MyFlat(7))); (void) m.AddFlat("obj", FlatCountableRef(new MyFlat(8))); bad += RoundTrip("AddFlat(custom FlatCountable) array", m); }
   printf("%s\n", bad ? "RESULT: PROPERTY VIOLATED" : "RESULT: all round trips exact");
   return bad?1:0;
}
