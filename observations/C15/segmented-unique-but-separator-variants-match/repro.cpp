// Observation (UNCHANGED library): SegmentedStringMatcher::IsPatternUnique() answers "unique" for a
// pattern that nevertheless matches several different subject strings (separator variants).
#include <stdio.h>
#include "regex/SegmentedStringMatcher.h"
#include "system/SetupSystem.h"
using namespace muscle;

int main()
{
   CompleteSetupSystem css;
   SegmentedStringMatcher ssm("foo/bar");
   const char * subjects[] = {"foo/bar", "foo//bar", "/foo/bar", "foo/bar/", "//foo///bar//"};
   int n = 0;
   printf("pattern \"foo/bar\": IsPatternUnique() = %d\n", ssm.IsPatternUnique());
   for (uint32 i=0; i<ARRAYITEMS(subjects); i++)
   {
      const bool m = ssm.Match(subjects[i], false);
      printf("   Match(\"%s\", prefixMatchOkay=false) = %d\n", subjects[i], m);
      if (m) n++;
   }
   const bool violated = (ssm.IsPatternUnique())&&(n > 1);
   printf("%d different strings match; %s\n", n, violated ? "VIOLATION: IsPatternUnique() said only one string can match" : "ok");
   return violated ? 1 : 0;
}
