// Observation (UNCHANGED library): inside a [..] character class the simple->regex translation in
// StringMatcher::SetPattern() still rewrites ? , . + * and still handles backslash as outside a class,
// so several classes do not denote the documented set of characters.
#include <stdio.h>
#include "regex/StringMatcher.h"
#include "system/SetupSystem.h"
using namespace muscle;

static int bad = 0;
static void Expect(const char * pat, const char * subj, bool expected)
{
   StringMatcher sm; 
   if (sm.SetPattern(pat).IsError()) {printf("pattern %-8s : parse error\n", pat); return;}
   const bool got = sm.Match(subj);
   printf("pattern %-8s subject %-4s : %-8s (documented meaning: %-8s) %s\n", pat, subj, got?"MATCH":"no match", expected?"MATCH":"no match", (got==expected)?"":"<-- VIOLATION");
   if (got != expected) bad++;
}

int main()
{
   CompleteSetupSystem css;
   Expect("[?]",    "?",    true);    // class containing only '?'
   Expect("[?]",    ".",    false);
   Expect("[,]",    ",",    true);    // class containing only ','
   Expect("[,]",    "|",    false);
   Expect("[a,b]",  ",",    true);
   Expect("[a,b]",  "|",    false);
   Expect("[.]",    ".",    true);
   Expect("[.]",    "\\",   false);   // the backslash inserted to escape '.' becomes a class member
   Expect("[a+]",   "+",    true);
   Expect("[a+]",   "\\",   false);   // ditto for '+'
   Expect("[*]",    "*",    true);
   Expect("[*]",    ".",    false);   // '*' -> ".*" adds '.' to the class
   Expect("[\\]]",  "]",    true);    // backslash makes ']' literal -> class containing ']'
   Expect("[\\]]",  "\\]",  false);   // ... but what is compiled is the class [\] followed by a literal ]
   Expect("[a\\-c]","-",    true);    // class {a,-,c}
   Expect("[a\\-c]","b",    false);   // ... but what is compiled is a, and the range \-c
   Expect("[a\\-c]","\\",   false);
   printf("%d violation(s)\n", bad);
   return bad?1:0;
}
