// Observation (UNCHANGED library): numeric-range patterns <a-b,...> accept subjects that are not
// ASCII representations of an integer in the range, and mis-handle values >= 2^32 and empty clauses.
#include <stdio.h>
#include "regex/StringMatcher.h"
#include "system/SetupSystem.h"
using namespace muscle;

static int bad = 0;
static void Expect(const char * pat, const char * subj, bool expected, const char * why)
{
   StringMatcher sm(pat);
   const bool got = sm.Match(subj);
   printf("pattern %-26s subject %-12s : %-8s (documented meaning: %-8s) %s %s\n", pat, subj, got?"MATCH":"no match", expected?"MATCH":"no match", (got==expected)?"":"<-- VIOLATION:", (got==expected)?"":why);
   if (got != expected) bad++;
}

int main()
{
   CompleteSetupSystem css;
   Expect("<1-10>",  "5",          true,  "");
   Expect("<1-10>",  "11",         false, "");
   Expect("<1-10>",  "5abc",       false, "subject is not an integer; only its leading digits are examined (whole string must match)");
   Expect("<1-10>",  "5.5",        false, "subject is not an integer; only its leading digits are examined");
   Expect("~<1-10>", "5abc",       true,  "negated form inherits the same error");
   Expect("<1-10>",  "4294967301", false, "subject value is truncated to uint32 (4294967301 mod 2^32 == 5)");
   Expect("<4294967296-4294967300>", "3",          false, "range bounds are truncated to uint32 (become 0-4)");
   Expect("<4294967296-4294967300>", "4294967298", true,  "(matches only because both sides wrap)");
   Expect("<1-10,>", "500",        false, "the trailing clause \">\" is turned into the unbounded range 0-4294967295");
   Expect("<1-10,,20>", "0",       false, "the empty clause is turned into the range 0-0");
   printf("%d violation(s)\n", bad);
   return bad?1:0;
}
