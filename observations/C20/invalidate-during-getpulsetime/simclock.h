// Tiny simulated-clock harness for PulseNode trees (shared by the demos).
#ifndef SIMCLOCK_H
#define SIMCLOCK_H

#include <stdio.h>
#include <functional>
#include <string>
#include <vector>
#include "system/SetupSystem.h"
#include "util/PulseNode.h"

using namespace muscle;

static std::string T(uint64 t)
{
   if (t == MUSCLE_TIME_NEVER) return "NEVER";
   char buf[64]; snprintf(buf, sizeof(buf), "%llu", (unsigned long long) t); return buf;
}

class Node : public PulseNode
{
public:
   Node(const char * name, uint64 want) : _name(name), _want(want), _next(MUSCLE_TIME_NEVER), _asked(0), _fired(0) {}

   virtual uint64 GetPulseTime(const PulseArgs & args)
   {
      _asked++;
      if (_onAsk) _onAsk(args.GetCallbackTime());
      return _want;
   }

   virtual void Pulse(const PulseArgs & args)
   {
      _fired++;
      printf("      Pulse(%s) now=%s scheduled=%s (wanted %s)\n", _name.c_str(), T(args.GetCallbackTime()).c_str(), T(args.GetScheduledTime()).c_str(), T(_want).c_str());
      _lastSched = args.GetScheduledTime();
      _wantAtFire = _want;
      _want = _next;  // one-shot unless told otherwise
      if (_onPulse) _onPulse(args.GetCallbackTime());
   }

   void Set(uint64 t) {_want = t; InvalidatePulseTime();}

   std::string _name;
   uint64 _want, _next;
   uint64 _lastSched = MUSCLE_TIME_NEVER, _wantAtFire = MUSCLE_TIME_NEVER;
   int _asked, _fired;
   std::function<void(uint64)> _onAsk, _onPulse;
};

class Mgr : public PulseNodeManager
{
public:
   uint64 Wake(PulseNode & root, uint64 now) {uint64 m = MUSCLE_TIME_NEVER; CallGetPulseTimeAux(root, now, m); return m;}
   void Pulse(PulseNode & root, uint64 now) {CallPulseAux(root, now);}
};

#endif
