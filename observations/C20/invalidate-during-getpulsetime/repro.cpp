// Observation on the UNCHANGED library:
// an InvalidatePulseTime() that reaches a non-root node P while P's own GetPulseTimeAux() is
// running (i.e. from inside P's own GetPulseTime() callback, or from the GetPulseTime() callback
// of one of P's descendants) is lost, and P is left "deaf": _myScheduledTimeValid==false while
// P sits in its parent's SCHEDULED/UNSCHEDULED list.  From then on
//   - P is not asked again for its time,
//   - further InvalidatePulseTime() calls on P are no-ops (the flag is already false),
//   - PulseAux() refuses to call P's Pulse() (it requires the flag to be true).
#include "simclock.h"

static int Scenario1()
{
   printf("--- Scenario 1: child's GetPulseTime() callback invalidates its (non-root) parent ---\n");
   Mgr mgr;
   int bad = 0;
   Node R("R", MUSCLE_TIME_NEVER), P("P", 100), C("C", 200);
   R.PutPulseChild(&P); P.PutPulseChild(&C);
   uint64 w = mgr.Wake(R, 0);
   printf("t=0  wake-up: %s (expected 100)\n", T(w).c_str());

   // At t=1 C is invalidated; while C is being asked for its new time it tells P to move to t=5.
   C._onAsk = [&](uint64) {if (P._want != 5) {printf("      (C's GetPulseTime callback: P.Set(5))\n"); P.Set(5);}};
   C.Set(300);
   w = mgr.Wake(R, 1);
   printf("t=1  wake-up: %s (P was invalidated during this pass and wants 5)\n", T(w).c_str());
   w = mgr.Wake(R, 2);
   printf("t=2  wake-up: %s (expected 5: before the next wait P must have been asked again)\n", T(w).c_str());
   if (w != 5) bad++;

   printf("t=3  P.Set(7) from outside any callback\n");
   P.Set(7);
   w = mgr.Wake(R, 3);
   printf("t=3  wake-up: %s (expected 7)\n", T(w).c_str());
   if (w != 7) bad++;

   const uint64 instants[] = {7, 50, 100, 101};
   for (uint64 t : instants)
   {
      printf("t=%s pulse\n", T(t).c_str());
      mgr.Pulse(R, t);
      w = mgr.Wake(R, t);
      printf("      next wake-up: %s\n", T(w).c_str());
   }
   printf("P fired %d time(s), with scheduled time %s (expected: once, at t=7, scheduled=7)\n", P._fired, T(P._lastSched).c_str());
   if ((P._fired != 1)||(P._lastSched != 7)) bad++;
   return bad;
}

static int Scenario2()
{
   printf("--- Scenario 2: node invalidates itself from inside its own GetPulseTime() and returns NEVER ---\n");
   Mgr mgr;
   int bad = 0;
   Node R("R", MUSCLE_TIME_NEVER), X("X", MUSCLE_TIME_NEVER);
   bool once = true;
   X._onAsk = [&](uint64) {if (once) {once = false; printf("      (X's GetPulseTime callback: X.InvalidatePulseTime())\n"); X.InvalidatePulseTime();}};
   R.PutPulseChild(&X);
   uint64 w = mgr.Wake(R, 0);
   printf("t=0  wake-up: %s, X asked %d time(s)\n", T(w).c_str(), X._asked);
   w = mgr.Wake(R, 1);
   printf("t=1  wake-up: %s, X asked %d time(s) (expected 2: it invalidated itself)\n", T(w).c_str(), X._asked);
   if (X._asked != 2) bad++;

   printf("t=2  X.Set(10) from outside any callback\n");
   X.Set(10);
   w = mgr.Wake(R, 2);
   printf("t=2  wake-up: %s (expected 10)\n", T(w).c_str());
   if (w != 10) bad++;
   printf("t=10 pulse\n");
   mgr.Pulse(R, 10);
   printf("X fired %d time(s) (expected 1)\n", X._fired);
   if (X._fired != 1) bad++;
   return bad;
}

static int Scenario3()
{
   printf("--- Scenario 3: child's GetPulseTime() callback invalidates the ROOT (root variant: not lost, but one wait is mis-timed) ---\n");
   Mgr mgr;
   int bad = 0;
   Node R("R", 100), C("C", 200);
   R.PutPulseChild(&C);
   uint64 w = mgr.Wake(R, 0);
   printf("t=0  wake-up: %s (expected 100)\n", T(w).c_str());
   C._onAsk = [&](uint64) {if (R._want != 5) {printf("      (C's GetPulseTime callback: R.Set(5))\n"); R.Set(5);}};
   C.Set(300);
   w = mgr.Wake(R, 1);
   printf("t=1  wake-up: %s (expected 5: this is the value the server would now sleep on)\n", T(w).c_str());
   if (w != 5) bad++;
   w = mgr.Wake(R, 2);
   printf("t=2  wake-up: %s (a second pass, if something else happens to wake the server, does pick it up)\n", T(w).c_str());
   return bad;
}

int main()
{
   CompleteSetupSystem css;
   int bad = Scenario1();
   bad += Scenario2();
   bad += Scenario3();
   printf("%s\n", bad ? "RESULT: PROPERTY VIOLATED (on unchanged library)" : "RESULT: ok");
   return bad ? 1 : 0;
}
