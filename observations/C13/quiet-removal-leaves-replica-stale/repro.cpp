// Observation (UNCHANGED library): the "quiet" variants of removal change the server's ordered index
// without emitting the corresponding index-update instruction, so a subscriber's replayed replica no
// longer equals the server's index (it keeps listing a child that no longer exists / is no longer indexed).
//   (a) PR_COMMAND_REMOVEDATA carrying PR_NAME_REMOVE_QUIETLY  (client-reachable)
//   (b) SetDataNode(path, data, SETDATANODE_FLAG_QUIET, PR_NAME_REMOVE_FROM_INDEX)  (server-side API)
#include "harness.h"

int main()
{
   CompleteSetupSystem css;
   SetConsoleLogLevel(MUSCLE_LOG_ERROR);

   ReflectServer server;
   TestSessionRef a(new TestSession("A"));
   TestSessionRef b(new TestSession("B"));
   if ((server.AddNewSession(a).IsError())||(server.AddNewSession(b).IsError())) {printf("setup failed\n"); return 10;}

   bool ok = true;
   a()->ClientSetData("list");
   b()->ClientSubscribe("/*/*/list");
   a()->ClientInsert("list", "", 4);     // [I0,I1,I2,I3]
   ok &= CheckReplica(*b(), a()->Node("list"));

   printf("(a) A: PR_COMMAND_REMOVEDATA list/I1 with PR_NAME_REMOVE_QUIETLY\n");
   a()->ClientRemove("list/I1", true);
   ok &= CheckServerIndexSane(a()->Node("list"));
   ok &= CheckReplica(*b(), a()->Node("list"));

   printf("    A: PR_COMMAND_INSERTORDEREDDATA (append) -- the position in the instruction no longer fits B's replica\n");
   a()->ClientInsert("list", "", 1);
   ok &= CheckReplica(*b(), a()->Node("list"));

   printf("(b) server-side: SetDataNode(list/I2, QUIET, PR_NAME_REMOVE_FROM_INDEX)\n");
   {
      MessageRef d = GetMessageFromPool(1234);
      const status_t r = a()->SetDataNode("list/I2", d, SetDataNodeFlags(SETDATANODE_FLAG_QUIET), PR_NAME_REMOVE_FROM_INDEX);
      a()->PushSubscriptionMessages();
      printf("   returned [%s]\n", r());
   }
   ok &= CheckReplica(*b(), a()->Node("list"));

   printf("\nRESULT: %s\n", ok ? "PASS" : "FAIL (replayed replica differs from the server's index)");
   a()->_muted = b()->_muted = true;
   server.Cleanup();
   return ok ? 0 : 1;
}
