// Repro: after a small(inline) <-> large(heap) SwapContents(), the formerly-small Queue's inline buffer still holds
// copies of its old items (for item types that have no move-assignment, or whose move leaves the source intact).
// When that Queue later falls back to its inline buffer, EnsureSize(n, true) / AddTailAndGet() expose those stale items
// as if they were default-constructed ones.
#include <stdio.h>
#include <vector>
#include "system/SetupSystem.h"
#include "util/Queue.h"
#include "util/NetworkUtilityFunctions.h"   // IPAddressAndPort
using namespace muscle;

// An "owning" (non-trivial) item type with ordinary copy semantics and no move operations
class Tag
{
public:
   Tag() : _v(0) {}
   Tag(int v) : _v(v) {}
   Tag(const Tag & rhs) : _v(rhs._v) {}
   ~Tag() {}
   Tag & operator=(const Tag & rhs) {_v = rhs._v; return *this;}
   bool operator==(const Tag & rhs) const {return _v == rhs._v;}
   int _v;
};

template<class Q> static void PrintTags(const char * title, const Q & q) {printf("%s [", title); for (uint32 i=0; i<q.GetNumItems(); i++) printf(" %d", q[i]._v); printf(" ]\n");}

int main()
{
   CompleteSetupSystem css;
   int bad = 0;

   {
      Queue<Tag> a;                                         // will stay in its inline buffer (3 slots)
      Queue<Tag> b;                                         // will live on the heap
      for (int i=1; i<=3; i++) (void) a.AddTail(Tag(100+i));  // a = 101 102 103  (inline)
      for (int i=1; i<=6; i++) (void) b.AddTail(Tag(i));      // b = 1..6          (heap)
      PrintTags("a before swap:", a);
      PrintTags("b before swap:", b);

      a.SwapContents(b);                                    // a = 1..6 (heap), b = 101 102 103 (inline)
      PrintTags("a after  swap:", a);
      PrintTags("b after  swap:", b);

      a.Clear(true);                                        // ideal: a = {}   (heap buffer released)
      (void) a.EnsureSize(3, true);                         // ideal: a = {default, default, default}
      PrintTags("a after Clear(true); EnsureSize(3,true):  ", a);
      for (uint32 i=0; i<a.GetNumItems(); i++) if (!(a[i] == Tag())) bad++;
      printf("   ideal:                                    [ 0 0 0 ]   => %s\n", bad?"STALE ITEMS EXPOSED":"ok");
   }

   // Same history, second way of getting back into the inline buffer (ShrinkToFit) and second way of exposing the slot (AddTailAndGet())
   {
      int bad2 = 0;
      Queue<Tag> a, b;
      for (int i=1; i<=3; i++) (void) a.AddTail(Tag(100+i));
      for (int i=1; i<=6; i++) (void) b.AddTail(Tag(i));
      muscleSwap(a, b);
      (void) a.RemoveTailMulti(5);                          // a = {1}
      (void) a.ShrinkToFit();                               // a = {1}, back in the 3-slot inline buffer
      Tag * t = a.AddTailAndGet();                          // documented: "Appends a default-initialized item"
      PrintTags("a after RemoveTailMulti(5); ShrinkToFit(); AddTailAndGet():", a);
      if ((t)&&(!(*t == Tag()))) bad2++;
      printf("   ideal:                                                     [ 1 0 ]   => %s\n", bad2?"STALE ITEM EXPOSED":"ok");
      bad += bad2;
   }

   // Same thing with a real MUSCLE value type (IPAddressAndPort: user-provided constructors => not std::is_trivial, no move operations)
   {
      int bad3 = 0;
      Queue<IPAddressAndPort> a, b;
      for (int i=1; i<=3; i++) (void) a.AddTail(IPAddressAndPort(IPAddress(0x0A000000+i), (uint16)(8000+i)));
      for (int i=1; i<=6; i++) (void) b.AddTail(IPAddressAndPort(IPAddress(0xC0A80000+i), (uint16)i));
      a.SwapContents(b);
      a.Clear(true);
      (void) a.EnsureSize(2, true);
      printf("Queue<IPAddressAndPort> after swap; Clear(true); EnsureSize(2,true):");
      for (uint32 i=0; i<a.GetNumItems(); i++) {printf(" [%s]", a[i].ToString()()); if (!(a[i] == IPAddressAndPort())) bad3++;}
      printf("\n   ideal: two default (invalid) IPAddressAndPort items   => %s\n", bad3?"STALE ITEMS EXPOSED":"ok");
      bad += bad3;
   }

   printf("%d stale item(s) exposed\n", bad);
   return bad ? 1 : 0;
}
