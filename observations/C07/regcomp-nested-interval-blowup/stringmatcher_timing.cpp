#include <stdio.h>
#include <sys/time.h>
#include <sys/resource.h>
#include "regex/StringMatcher.h"
#include "system/SetupSystem.h"
using namespace muscle;
static double now(){struct timeval tv; gettimeofday(&tv,NULL); return tv.tv_sec+tv.tv_usec/1e6;}
int main(int argc, char ** argv)
{
   CompleteSetupSystem css;
   const char * pat = argv[1];
   const char * subj = (argc>2)?argv[2]:"aaaaaaaaaaaaaaaaaaaaaaaaaaaaaaaaaaaaaaaaaaaaaaaa";
   StringMatcher sm;
   double t0=now();
   status_t r = sm.SetPattern(pat);
   double t1=now();
   bool m = sm.Match(subj);
   double t2=now();
   struct rusage ru; getrusage(RUSAGE_SELF,&ru);
   printf("pattern=[%s] SetPattern=%s in %.3fs, Match=%d in %.3fs, maxrss=%ldMB\n", pat, r(), t1-t0, m, t2-t1, ru.ru_maxrss/1024);
   return 0;
}
