// Small self-contained harness shared by the C07 demos:
//  - forks a child process that runs a stock MUSCLE ReflectServer + StorageReflectSessionFactory on an ephemeral port
//  - gives the parent a trivial blocking TCP client that speaks the MessageIOGateway framing
#ifndef C07_HARNESS_H
#define C07_HARNESS_H

#include <stdio.h>
#include <stdlib.h>
#include <string.h>
#include <unistd.h>
#include <errno.h>
#include <signal.h>
#include <poll.h>
#include <fcntl.h>
#include <sys/types.h>
#include <sys/wait.h>
#include <sys/socket.h>
#include <sys/time.h>
#include <netinet/in.h>
#include <netinet/tcp.h>
#include <arpa/inet.h>

#include "system/SetupSystem.h"
#include "reflector/ReflectServer.h"
#include "reflector/StorageReflectSession.h"
#include "reflector/StorageReflectConstants.h"
#include "regex/QueryFilter.h"
#include "iogateway/MessageIOGateway.h"
#include "message/Message.h"
#include "syslog/SysLog.h"

using namespace muscle;

static double NowSecs() {struct timeval tv; gettimeofday(&tv, NULL); return tv.tv_sec + tv.tv_usec/1e6;}

// Runs the server in a child process.  Returns the child's pid, and the port via (retPort).
static pid_t StartServerChild(uint16 & retPort, bool grantAllPrivileges = false)
{
   int pfd[2];
   if (pipe(pfd) != 0) {perror("pipe"); exit(10);}
   const pid_t pid = fork();
   if (pid < 0) {perror("fork"); exit(10);}
   if (pid == 0)
   {
      close(pfd[0]);
      CompleteSetupSystem css;
      SetConsoleLogLevel(MUSCLE_LOG_CRITICALERROR);
      ReflectServer server;
      if (grantAllPrivileges) (void) server.GetCentralState().AddString("priv3", "*");  // priv<PR_NUM_PRIVILEGES> == all privileges
      StorageReflectSessionFactory factory;
      uint16 port = 0;
      if (server.PutAcceptFactory(0, DummyReflectSessionFactoryRef(factory), invalidIP, &port).IsError()) {fprintf(stderr, "PutAcceptFactory failed\n"); _exit(11);}
      if (write(pfd[1], &port, sizeof(port)) != (ssize_t)sizeof(port)) _exit(12);
      close(pfd[1]);
      (void) server.ServerProcessLoop();
      server.Cleanup();
      _exit(0);
   }
   close(pfd[1]);
   if (read(pfd[0], &retPort, sizeof(retPort)) != (ssize_t)sizeof(retPort)) {fprintf(stderr, "could not read the server's port\n"); exit(10);}
   close(pfd[0]);
   return pid;
}

class Client
{
public:
   Client() : _fd(-1) {}
   ~Client() {if (_fd >= 0) close(_fd);}

   bool Connect(uint16 port, int optRcvBuf = 0)
   {
      _fd = socket(AF_INET, SOCK_STREAM, 0);
      if (_fd < 0) return false;
      if (optRcvBuf > 0) (void) setsockopt(_fd, SOL_SOCKET, SO_RCVBUF, &optRcvBuf, sizeof(optRcvBuf));  // must be done before connect()
      int one = 1; (void) setsockopt(_fd, IPPROTO_TCP, TCP_NODELAY, &one, sizeof(one));
      struct sockaddr_in sa; memset(&sa, 0, sizeof(sa));
      sa.sin_family = AF_INET; sa.sin_port = htons(port); sa.sin_addr.s_addr = htonl(INADDR_LOOPBACK);
      return (connect(_fd, (struct sockaddr *)&sa, sizeof(sa)) == 0);
   }

   // Appends the framed (header+body) bytes of (m) to (buf)
   static void AppendFramed(const Message & m, ByteBuffer & buf)
   {
      const uint32 fs = m.FlattenedSize();
      const uint32 old = buf.GetNumBytes();
      (void) buf.SetNumBytes(old+8+fs, true);
      uint8 * p = buf.GetBuffer()+old;
      const uint32 leSize = B_HOST_TO_LENDIAN_INT32(fs);
      const uint32 leEnc  = B_HOST_TO_LENDIAN_INT32((uint32)MUSCLE_MESSAGE_ENCODING_DEFAULT);
      memcpy(p, &leSize, 4); memcpy(p+4, &leEnc, 4);
      m.FlattenToBytes(p+8, fs);
   }

   // blocking write of all of the bytes; returns false on error or if it takes longer than (timeoutSecs)
   bool SendBytes(const uint8 * b, size_t n, double timeoutSecs = 60.0)
   {
      const double deadline = NowSecs()+timeoutSecs;
      while(n > 0)
      {
         struct pollfd pf; pf.fd = _fd; pf.events = POLLOUT; pf.revents = 0;
         const double left = deadline-NowSecs();
         if (left <= 0) return false;
         if (poll(&pf, 1, (int)(left*1000)+1) <= 0) return false;
         const ssize_t w = send(_fd, b, n, MSG_NOSIGNAL|MSG_DONTWAIT);
         if (w < 0) {if ((errno == EAGAIN)||(errno == EINTR)) continue; return false;}
         b += w; n -= w;
      }
      return true;
   }

   bool Send(const Message & m) {ByteBuffer bb; AppendFramed(m, bb); return SendBytes(bb.GetBuffer(), bb.GetNumBytes());}

   // Returns 1 if a Message was received, 0 on timeout, -1 if the connection was closed/reset
   int Recv(Message & ret, double timeoutSecs)
   {
      const double deadline = NowSecs()+timeoutSecs;
      uint8 hdr[8];
      int r = ReadFully(hdr, 8, deadline); if (r != 1) return r;
      uint32 sz; memcpy(&sz, hdr, 4); sz = B_LENDIAN_TO_HOST_INT32(sz);
      ByteBuffer body; if (body.SetNumBytes(sz, false).IsError()) return -1;
      r = ReadFully(body.GetBuffer(), sz, deadline); if (r != 1) return r;
      return ret.UnflattenFromBytes(body.GetBuffer(), sz).IsOK() ? 1 : -1;
   }

   // Waits until a Message with the given what-code arrives (discarding others)
   int RecvWhat(uint32 what, Message & ret, double timeoutSecs)
   {
      const double deadline = NowSecs()+timeoutSecs;
      while(true)
      {
         const double left = deadline-NowSecs();
         if (left <= 0) return 0;
         const int r = Recv(ret, left);
         if (r != 1) return r;
         if (ret.what == what) return 1;
      }
   }

   // Sends a PR_COMMAND_PING and waits for the PR_RESULT_PONG.  Returns 1 on pong, 0 on timeout, -1 on disconnect.
   int Ping(double timeoutSecs, int tag = 0)
   {
      Message ping(PR_COMMAND_PING); (void) ping.AddInt32("tag", tag);
      if (Send(ping) == false) return -1;
      Message pong;
      while(true)
      {
         const int r = RecvWhat(PR_RESULT_PONG, pong, timeoutSecs);
         if (r != 1) return r;
         if (pong.GetInt32("tag", -1) == tag) return 1;
      }
   }

   int fd() const {return _fd;}

private:
   int ReadFully(uint8 * b, size_t n, double deadline)
   {
      while(n > 0)
      {
         struct pollfd pf; pf.fd = _fd; pf.events = POLLIN; pf.revents = 0;
         const double left = deadline-NowSecs();
         if (left <= 0) return 0;
         const int pr = poll(&pf, 1, (int)(left*1000)+1);
         if (pr < 0) {if (errno == EINTR) continue; return -1;}
         if (pr == 0) return 0;
         const ssize_t r = recv(_fd, b, n, 0);
         if (r == 0) return -1;
         if (r < 0) {if ((errno == EAGAIN)||(errno == EINTR)) continue; return -1;}
         b += r; n -= r;
      }
      return 1;
   }

   int _fd;
};

// Reports on (and reaps) the server child.  Returns a short description.
static const char * DescribeServerState(pid_t pid, char * buf, size_t bufLen)
{
   int st = 0;
   const pid_t r = waitpid(pid, &st, WNOHANG);
   if (r == 0) snprintf(buf, bufLen, "still running");
   else if (r == pid)
   {
      if (WIFSIGNALED(st)) snprintf(buf, bufLen, "KILLED BY SIGNAL %d (%s)", WTERMSIG(st), strsignal(WTERMSIG(st)));
                      else snprintf(buf, bufLen, "exited with status %d", WEXITSTATUS(st));
   }
   else snprintf(buf, bufLen, "waitpid error");
   return buf;
}

static void KillServer(pid_t pid) {kill(pid, SIGKILL); int st; (void) waitpid(pid, &st, 0);}

#endif
