// Observation (UNCHANGED library): StringMatcher::SetPattern() passes '(', ')', '{', '}' through to regcomp() untouched, and
// glibc's regcomp() expands nested bounded repetitions multiplicatively.  A 26-byte node-path clause makes the server spend
// seconds of CPU and gigabytes of RAM inside regcomp() while handling ONE small Message; one more nesting level multiplies
// both by 255 again (=> the process is OOM-killed or stalls for many minutes).
#include "harness.h"

static long ReadStatusKB(pid_t pid, const char * key)
{
   char path[64]; snprintf(path, sizeof(path), "/proc/%d/status", (int)pid);
   FILE * f = fopen(path, "r"); if (f == NULL) return -1;
   char line[256]; long ret = -1;
   while(fgets(line, sizeof(line), f)) if (strncmp(line, key, strlen(key)) == 0) {ret = atol(line+strlen(key)+1); break;}
   fclose(f);
   return ret;
}

int main(int argc, char ** argv)
{
   CompleteSetupSystem css;
   const char * clause = (argc > 1) ? argv[1] : "((a{255}){255}){255}";

   uint16 port = 0;
   const pid_t srv = StartServerChild(port);
   printf("server pid=%d port=%u\n", (int)srv, port);

   Client A, B;
   if ((A.Connect(port) == false)||(B.Connect(port) == false)) {printf("connect failed\n"); return 10;}
   printf("A ping -> %d, B ping -> %d;  server peak RSS so far: %ld MB\n", A.Ping(5.0, 1), B.Ping(5.0, 1), ReadStatusKB(srv, "VmHWM:")/1024);

   {
      Message get(PR_COMMAND_GETDATA);
      (void) get.AddString(PR_NAME_KEYS, String("/*/*/")+clause);
      (void) A.Send(get);
      printf("A: sent PR_COMMAND_GETDATA with key %s  (the whole Message is %u bytes)\n", get.GetString(PR_NAME_KEYS)(), get.FlattenedSize());
   }

   usleep(50*1000);
   const double t0 = NowSecs();
   const int r = B.Ping(60.0, 2);
   const double rtt = NowSecs()-t0;
   char buf[128];
   printf("B: ping -> %d (%s) after %.2fs\n", r, (r==1)?"pong received":((r==0)?"TIMEOUT":"CONNECTION LOST"), rtt);
   printf("server state: %s;  server peak RSS: %ld MB\n", DescribeServerState(srv, buf, sizeof(buf)), ReadStatusKB(srv, "VmHWM:")/1024);
   const bool ok = ((r == 1)&&(rtt < 2.0));
   printf("RESULT: %s\n", ok ? "OK" : "PROPERTY VIOLATED by the unchanged library (one 26-byte pattern stalled every other client for seconds and cost gigabytes; cost grows x255 per extra nesting level)");
   KillServer(srv);
   return ok ? 0 : 1;
}
