#!/bin/sh
# Builds repro.cpp against whatever libmuscle.a is currently in /tmp/adv3/C07/_build and runs it.
cd "$(dirname "$0")" && g++ -std=gnu++17 -DMUSCLE_ENABLE_ZLIB_ENCODING -I/tmp/adv3/C07 repro.cpp /tmp/adv3/C07/_build/libmuscle.a -lz -lpthread -o repro && ./repro
