// Observation (UNCHANGED library): a backtick-prefixed node-path clause is handed to regcomp() verbatim, and glibc's
// regexec() needs super-polynomial time for patterns with several back-references.  One small PR_COMMAND_GETDATA
// therefore pins the single-threaded server inside StringMatcher::Match() for minutes/hours.
#include "harness.h"

int main(int argc, char ** argv)
{
   CompleteSetupSystem css;
   const uint32 nameLen = (argc > 1) ? (uint32) atol(argv[1]) : 64;

   uint16 port = 0;
   const pid_t srv = StartServerChild(port);
   printf("server pid=%d port=%u\n", (int)srv, port);

   Client A, B;
   if ((A.Connect(port) == false)||(B.Connect(port) == false)) {printf("connect failed\n"); return 10;}

   {
      // A publishes one node whose name is (nameLen) 'a' characters
      const String nodeName = String("a").PaddedBy(nameLen, false, 'a');
      Message up(PR_COMMAND_SETDATA); (void) up.AddMessage(nodeName, GetMessageFromPool(1));
      (void) A.Send(up);
      printf("A: uploaded one node with a %u-character name; A ping -> %d, B ping -> %d\n", nodeName.Length(), A.Ping(5.0, 1), B.Ping(5.0, 1));
   }

   {
      Message get(PR_COMMAND_GETDATA);
      (void) get.AddString(PR_NAME_KEYS, "/*/*/`(.*)(.*)(.*)(.*)\\1\\2\\3\\4x");
      (void) A.Send(get);
      printf("A: sent PR_COMMAND_GETDATA with key %s\n", get.GetString(PR_NAME_KEYS)());
   }

   const double t0 = NowSecs();
   const int r = B.Ping(15.0, 2);
   char buf[128];
   printf("B: ping -> %d (%s) after %.2fs\n", r, (r==1)?"pong received":((r==0)?"TIMEOUT":"CONNECTION LOST"), NowSecs()-t0);
   printf("server state: %s\n", DescribeServerState(srv, buf, sizeof(buf)));
   fflush(stdout);
   char cmd[128]; snprintf(cmd, sizeof(cmd), "ps -o pid,stat,pcpu,time,comm -p %d", (int)srv); (void) system(cmd);
   const bool ok = ((r == 1)&&(NowSecs()-t0 < 2.0));
   printf("RESULT: %s\n", ok ? "OK" : "PROPERTY VIOLATED by the unchanged library (second client's ping not answered within 15 seconds; server is busy in regexec())");
   KillServer(srv);
   return ok ? 0 : 1;
}
