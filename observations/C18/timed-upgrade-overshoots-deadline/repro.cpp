// Observation on the UNCHANGED library: a timed read->write upgrade can return long after its deadline.
#include <stdio.h>
#include <atomic>
#include <thread>
#include <chrono>
#include "system/ReaderWriterMutex.h"
#include "system/SetupSystem.h"
using namespace muscle;
static void msleep(int ms) {std::this_thread::sleep_for(std::chrono::milliseconds(ms));}

int main(int, char **)
{
   CompleteSetupSystem css;
   ReaderWriterMutex rw("obs", true);   // prefer writers
   std::atomic<int> t2HasRead(0), t1HasRead(0);
   const uint64 t0 = GetRunTime64();
   auto now = [&]{return (long long)((GetRunTime64()-t0)/1000);};

   std::thread T2([&]{
      (void) rw.LockReadOnly(); t2HasRead = 1;
      printf("[%5lld ms] T2: holds a read lock, will keep it until t~=2000 ms\n", now());
      while(now() < 2000) msleep(10);
      (void) rw.UnlockReadOnly();
      printf("[%5lld ms] T2: released its read lock\n", now());
   });
   while(t2HasRead == 0) msleep(5);

   std::thread T1([&]{
      (void) rw.LockReadOnly(); t1HasRead = 1;
      const uint64 deadline = GetRunTime64()+MillisToMicros(300);
      printf("[%5lld ms] T1: holds a read lock, calls LockReadWrite(now+300ms) to upgrade (T2 is also reading)\n", now());
      const status_t r = rw.LockReadWrite(deadline);
      const long long late = ((long long)GetRunTime64()-(long long)deadline)/1000;
      printf("[%5lld ms] T1: timed upgrade returned [%s], %lld ms %s its deadline%s\n", now(), r(), late<0?-late:late, late<0?"before":"AFTER", (late>150)?"   <=== DEADLINE MISSED":"");
      if (r.IsOK()) (void) rw.UnlockReadWrite();
      (void) rw.UnlockReadOnly();
   });
   while(t1HasRead == 0) msleep(5);
   msleep(100);

   std::thread T3([&]{
      printf("[%5lld ms] T3: calls blocking LockReadWrite() (queues behind T1's pending upgrade)\n", now());
      (void) rw.LockReadWrite();
      printf("[%5lld ms] T3: got the write lock\n", now());
      msleep(500);
      (void) rw.UnlockReadWrite();
      printf("[%5lld ms] T3: released the write lock\n", now());
   });

   T1.join(); T2.join(); T3.join();
   return 0;
}
