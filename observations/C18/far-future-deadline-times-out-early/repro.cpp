// Observation on the UNCHANGED library: a timed acquisition whose (finite) deadline is very far in the future
// gives up immediately with B_TIMED_OUT, although the holder releases the lock a few hundred ms later.
#include <stdio.h>
#include <atomic>
#include <thread>
#include <chrono>
#include "system/ReaderWriterMutex.h"
#include "system/SetupSystem.h"
using namespace muscle;
static void msleep(int ms) {std::this_thread::sleep_for(std::chrono::milliseconds(ms));}

static void Attempt(const char * desc, uint64 deltaMicros, bool absoluteDeadline)
{
   ReaderWriterMutex rw("obs", true);
   (void) rw.LockReadWrite();          // main thread holds the write lock for 300 ms
   std::thread B([&]{
      const uint64 start = GetRunTime64();
      const uint64 deadline = absoluteDeadline ? deltaMicros : (start+deltaMicros);
      const status_t r = rw.LockReadOnly(deadline);
      printf("%-55s -> LockReadOnly(deadline) returned [%s] after %lld ms%s\n", desc, r(), (long long)((GetRunTime64()-start)/1000), r.IsError()?"   <=== gave up although the deadline is ages away and the lock is released at t=300 ms":"");
      if (r.IsOK()) (void) rw.UnlockReadOnly();
   });
   msleep(300);
   (void) rw.UnlockReadWrite();
   B.join();
}

int main(int, char **)
{
   CompleteSetupSystem css;
   Attempt("deadline = now + 1 hour (control)",               SecondsToMicros(3600),       false);
   Attempt("deadline = now + 100 years (control)",            SecondsToMicros(3153600000LL), false);
   Attempt("deadline = now + 2^62 microseconds (~146000 y)",  ((uint64)1)<<62,             false);
   Attempt("deadline = now + 300 years",                      SecondsToMicros(9460800000LL), false);
   Attempt("deadline = MUSCLE_TIME_NEVER-1 (absolute)",       MUSCLE_TIME_NEVER-1,         true);
   return 0;
}
