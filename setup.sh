#!/bin/bash
# Builds the fact extractor (offline; system clang 14 / llvm-14 only).
set -e
cd "$(dirname "$0")"
mkdir -p bin out evidence
clang++ $(llvm-config-14 --cxxflags) -fno-rtti -O1 engine/extract.cc -o bin/msa-extract \
   /usr/lib/llvm-14/lib/libclang-cpp.so.14 /usr/lib/llvm-14/lib/libLLVM-14.so
echo "msa-extract built"
