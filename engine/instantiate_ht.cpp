// Forces full instantiation of the Hashtable class templates (C09 rules): a translation unit never instantiates a member it does not use.
// Includes only /repo headers; adds nothing to /repo.
#include "util/Hashtable.h"
#include "util/String.h"

namespace muscle {
template class HashtableBase<int32, String, PODHashFunctor<int32> >;
template class HashtableMid<int32, String, PODHashFunctor<int32>, Hashtable<int32, String, PODHashFunctor<int32> > >;
template class Hashtable<int32, String, PODHashFunctor<int32> >;
template class HashtableIterator<int32, String, PODHashFunctor<int32> >;
template class muscle_private::HashtableIteratorImp<int32, String, PODHashFunctor<int32> >;
}
// member templates (the start-at-key constructor) are instantiated by use only
namespace muscle { void VerifUseHashtableIterators(Hashtable<int32, String> & t) {int32 k = 5; HashtableIterator<int32, String> it(t, k, 0u); (void) it.HasData();} }
