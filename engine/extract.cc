// msa-extract: libTooling fact extractor for the /verif static-analysis rules.
//
// For every function definition (incl. implicit template instantiations) whose expansion
// location is under --root (minus excluded directories) it writes one JSON line:
//   identity (Itanium mangled name, generic qualified name, file:line, class, overrides),
//   the list of resolved call sites (always), and — when the generic qualified name matches
//   --fn-regex — the body as a typed expression tree plus clang's CFG.
// Also: record/enum/global-constant/macro records.  See /verif/DESIGN.md section 2.1.
//
// Build:  clang++ $(llvm-config-14 --cxxflags) -fno-rtti -O1 extract.cc -o msa-extract \
//            /usr/lib/llvm-14/lib/libclang-cpp.so.14 /usr/lib/llvm-14/lib/libLLVM-14.so

#include "clang/AST/ASTConsumer.h"
#include "clang/AST/ASTContext.h"
#include "clang/AST/Mangle.h"
#include "clang/AST/RecursiveASTVisitor.h"
#include "clang/AST/DeclTemplate.h"
#include "clang/AST/ExprCXX.h"
#include "clang/AST/StmtCXX.h"
#include "clang/Analysis/CFG.h"
#include "clang/Frontend/CompilerInstance.h"
#include "clang/Frontend/FrontendAction.h"
#include "clang/Lex/Lexer.h"
#include "clang/Lex/MacroInfo.h"
#include "clang/Lex/PPCallbacks.h"
#include "clang/Lex/Preprocessor.h"
#include "clang/Tooling/CommonOptionsParser.h"
#include "clang/Tooling/Tooling.h"
#include "llvm/Support/CommandLine.h"
#include "llvm/Support/Regex.h"
#include "llvm/Support/raw_ostream.h"

#include <map>
#include <set>
#include <string>
#include <vector>

using namespace clang;
using namespace clang::tooling;

static llvm::cl::OptionCategory Cat("msa-extract options");
static llvm::cl::opt<std::string> OptRoot("root", llvm::cl::desc("source root (only code under it is emitted)"), llvm::cl::init("/repo"), llvm::cl::cat(Cat));
static llvm::cl::opt<std::string> OptOut("out", llvm::cl::desc("output file (JSON lines)"), llvm::cl::init("-"), llvm::cl::cat(Cat));
static llvm::cl::opt<std::string> OptFn("fn-regex", llvm::cl::desc("emit body+CFG only for functions whose generic qualified name matches"), llvm::cl::init(".*"), llvm::cl::cat(Cat));
static llvm::cl::opt<bool> OptNoBodies("no-bodies", llvm::cl::desc("emit call-graph records only"), llvm::cl::init(false), llvm::cl::cat(Cat));
static llvm::cl::opt<bool> OptMacros("macros", llvm::cl::desc("emit macro definitions"), llvm::cl::init(false), llvm::cl::cat(Cat));

namespace {

std::string jesc(llvm::StringRef s)
{
   std::string o; o.reserve(s.size()+2);
   for (unsigned char c : s)
   {
      switch(c)
      {
         case '"':  o += "\\\""; break;
         case '\\': o += "\\\\"; break;
         case '\n': o += "\\n";  break;
         case '\r': o += "\\r";  break;
         case '\t': o += "\\t";  break;
         default:
            if ((c < 0x20)||(c >= 0x7f)) { char b[8]; snprintf(b, sizeof(b), "\\u%04x", c); o += b; }
                                    else o += (char)c;
      }
   }
   return o;
}

struct Out
{
   std::string buf;
   void s(const char * k, llvm::StringRef v) {buf += ",\""; buf += k; buf += "\":\""; buf += jesc(v); buf += "\"";}
   void n(const char * k, long long v)       {buf += ",\""; buf += k; buf += "\":"; buf += std::to_string(v);}
   void raw(const std::string & r)           {buf += r;}
};

class Extractor
{
public:
   Extractor(ASTContext & ctx, llvm::raw_ostream & os) : _ctx(ctx), _sm(ctx.getSourceManager()), _os(os), _namegen(ctx), _fnre(OptFn)
   {
      _root = OptRoot;
      while((_root.size() > 1)&&(_root.back() == '/')) _root.pop_back();
      _pp = PrintingPolicy(ctx.getLangOpts());
      _pp.SuppressTagKeyword = true;
      _pp.Bool = true;
   }

   // ---------------------------------------------------------------- location helpers
   bool underRoot(SourceLocation loc, std::string * relOut = nullptr, unsigned * lineOut = nullptr)
   {
      if (loc.isInvalid()) return false;
      SourceLocation x = _sm.getExpansionLoc(loc);
      PresumedLoc pl = _sm.getPresumedLoc(x, false);
      if (pl.isInvalid()) return false;
      std::string fn = pl.getFilename();
      // normalise a/b/../c lightly : the build uses -I/repo so names are /repo/xxx/yyy.h or relative to cwd
      if ((fn.size() > 0)&&(fn[0] != '/'))
      {
         llvm::SmallString<256> abs(fn);
         _sm.getFileManager().makeAbsolutePath(abs);
         fn = std::string(abs.str());
      }
      // collapse "/./" and "/xxx/../"
      fn = collapse(fn);
      if (fn.compare(0, _root.size(), _root) != 0) return false;
      if ((fn.size() > _root.size())&&(fn[_root.size()] != '/')) return false;
      std::string rel = fn.substr(_root.size()+1);
      if ((rel.compare(0, 10, "zlib/zlib/") == 0)||(rel.compare(0, 12, "regex/regex/") == 0)||(rel.compare(0, 5, "html/") == 0)||(rel.compare(0, 7, "_build/") == 0)) return false;
      if (relOut)  *relOut  = rel;
      if (lineOut) *lineOut = pl.getLine();
      return true;
   }

   static std::string collapse(const std::string & p)
   {
      std::vector<std::string> parts; size_t i = 0;
      while(i <= p.size())
      {
         size_t j = p.find('/', i); if (j == std::string::npos) j = p.size();
         std::string seg = p.substr(i, j-i);
         if (seg == "..") {if (!parts.empty()) parts.pop_back();}
         else if ((seg != ".")&&(!seg.empty())) parts.push_back(seg);
         i = j+1;
      }
      std::string r; for (auto & s : parts) {r += "/"; r += s;}
      return r;
   }

   unsigned lineOf(SourceLocation loc) {if (loc.isInvalid()) return 0; return _sm.getExpansionLineNumber(loc);}

   // ---------------------------------------------------------------- naming
   std::string mangled(const NamedDecl * d)
   {
      if (const auto * fd = dyn_cast<FunctionDecl>(d))
      {
         if (fd->isDependentContext()) return "";
      }
      std::string r = _namegen.getName(d);
      if (r.empty()) r = d->getQualifiedNameAsString();
      return r;
   }

   // qualified name with all template arguments stripped: muscle::Queue::EnsureSize
   std::string genericName(const NamedDecl * d)
   {
      std::vector<std::string> parts;
      std::string own;
      if (isa<CXXConstructorDecl>(d)) own = "(ctor)";
      else if (isa<CXXDestructorDecl>(d)) own = "(dtor)";
      else if (isa<CXXConversionDecl>(d)) own = "(conv)";
      else own = d->getDeclName().getAsString();
      parts.push_back(own);
      const DeclContext * dc = d->getDeclContext();
      while(dc)
      {
         if (const auto * ns = dyn_cast<NamespaceDecl>(dc)) {if (!ns->isAnonymousNamespace()) parts.push_back(ns->getNameAsString());}
         else if (const auto * rd = dyn_cast<RecordDecl>(dc))
         {
            if (const auto * cx = dyn_cast<CXXRecordDecl>(rd)) {if (cx->isLambda()) parts.push_back("(lambda)"); else parts.push_back(rd->getNameAsString());}
            else parts.push_back(rd->getNameAsString());
         }
         else if (const auto * fd = dyn_cast<FunctionDecl>(dc)) parts.push_back(fd->getNameAsString());
         dc = dc->getParent();
      }
      std::string r;
      for (size_t i = parts.size(); i-- > 0;) {r += parts[i]; if (i) r += "::";}
      return r;
   }

   std::string fullName(const NamedDecl * d)
   {
      std::string r; llvm::raw_string_ostream ss(r);
      d->getNameForDiagnostic(ss, _pp, true);
      return ss.str();
   }

   int typeIdx(QualType t)
   {
      if (t.isNull()) return -1;
      std::string s = t.getCanonicalType().getAsString(_pp);
      auto it = _types.find(s);
      if (it != _types.end()) return it->second;
      int idx = (int)_typeList.size();
      _types[s] = idx; _typeList.push_back(s);
      return idx;
   }

   // ---------------------------------------------------------------- per-function state
   struct FnState
   {
      std::map<const Stmt *, int> stmtId;
      std::map<const VarDecl *, int> varNode;   // VarDecl -> pseudo node id
      std::map<const ValueDecl *, int> declId;  // local decl ids (params, locals)
      int nextNode = 0;
      int nextDecl = 0;
      std::string calls;        // JSON array body of call sites
      bool full = false;
      std::vector<const CXXMethodDecl *> lambdas;
   };
   FnState * _fs = nullptr;

   int localDeclId(const ValueDecl * d)
   {
      auto it = _fs->declId.find(d);
      if (it != _fs->declId.end()) return it->second;
      int id = _fs->nextDecl++;
      _fs->declId[d] = id;
      return id;
   }

   static bool isLocalDecl(const ValueDecl * d)
   {
      if (isa<ParmVarDecl>(d)) return true;
      if (const auto * vd = dyn_cast<VarDecl>(d)) return vd->isLocalVarDecl() || vd->isLocalVarDeclOrParm();
      if (isa<BindingDecl>(d)) return true;
      return false;
   }

   static const Stmt * skipTransparent(const Stmt * s)
   {
      while(s)
      {
         if (const auto * p = dyn_cast<ParenExpr>(s))                 s = p->getSubExpr();
         else if (const auto * p = dyn_cast<ImplicitCastExpr>(s))     s = p->getSubExpr();
         else if (const auto * p = dyn_cast<FullExpr>(s))             s = p->getSubExpr();     // ExprWithCleanups, ConstantExpr
         else if (const auto * p = dyn_cast<MaterializeTemporaryExpr>(s)) s = p->getSubExpr();
         else if (const auto * p = dyn_cast<CXXBindTemporaryExpr>(s)) s = p->getSubExpr();
         else if (const auto * p = dyn_cast<SubstNonTypeTemplateParmExpr>(s)) s = p->getReplacement();
         else break;
      }
      return s;
   }

   void noteCall(const FunctionDecl * callee, const Stmt * site, bool virt)
   {
      if (!callee) return;
      std::string m = mangled(callee);
      if (m.empty()) return;
      if (!_fs->calls.empty()) _fs->calls += ",";
      _fs->calls += "{\"fn\":\"" + jesc(m) + "\",\"q\":\"" + jesc(genericName(callee)) + "\",\"l\":" + std::to_string(lineOf(site->getBeginLoc())) + (virt ? ",\"virt\":1" : "") + "}";
      // remember lambda call operators and other local-class methods so that they get emitted
   }

   static std::string paramKinds(const FunctionDecl * fd)
   {
      std::string r;
      for (unsigned i=0; i<fd->getNumParams(); i++)
      {
         QualType t = fd->getParamDecl(i)->getType().getCanonicalType();
         char c = 'v';
         if (t->isLValueReferenceType()) c = t->getPointeeType().isConstQualified() ? 'c' : 'm';
         else if (t->isPointerType())
         {
            QualType pt = t->getPointeeType();
            if (pt->isFunctionType()) c = 'v';
            else c = pt.isConstQualified() ? 'q' : 'p';
         }
         r += c;
      }
      return r;
   }

   std::string macroName(SourceLocation L)
   {
      if (!L.isMacroID()) return "";
      // walk to the outermost expansion, skipping macro-argument expansions
      while(true)
      {
         SourceLocation up = _sm.getImmediateMacroCallerLoc(L);
         if (!up.isMacroID()) break;
         L = up;
      }
      return Lexer::getImmediateMacroName(L, _sm, _ctx.getLangOpts()).str();
   }

   void tryConst(const Expr * e, Out & o)
   {
      if (e->isValueDependent() || e->isTypeDependent()) return;
      QualType t = e->getType();
      if (t.isNull()) return;
      if (!(t->isIntegralOrEnumerationType())) return;
      if (e->isGLValue() && !isa<DeclRefExpr>(e)) return;
      Expr::EvalResult r;
      if (e->EvaluateAsInt(r, _ctx, Expr::SE_NoSideEffects, true))
      {
         llvm::APSInt v = r.Val.getInt();
         if (v.isSigned()) o.n("v", v.getSExtValue());
         else if (v.getActiveBits() <= 63) o.n("v", (long long) v.getZExtValue());
         else { o.buf += ",\"v\":"; o.buf += llvm::toString(v, 10); }
      }
   }

   // Emits the node for s (skipping transparent wrappers); returns its id
   int emitStmt(const Stmt * s0, Out & o)
   {
      const Stmt * s = skipTransparent(s0);
      if (!s) {o.raw("null"); return -1;}
      int id = _fs->nextNode++;
      // register all skipped wrappers under the same id
      {
         const Stmt * w = s0;
         while(w && (w != s))
         {
            _fs->stmtId[w] = id;
            if (const auto * p = dyn_cast<ParenExpr>(w))                 w = p->getSubExpr();
            else if (const auto * p = dyn_cast<ImplicitCastExpr>(w))     w = p->getSubExpr();
            else if (const auto * p = dyn_cast<FullExpr>(w))             w = p->getSubExpr();
            else if (const auto * p = dyn_cast<MaterializeTemporaryExpr>(w)) w = p->getSubExpr();
            else if (const auto * p = dyn_cast<CXXBindTemporaryExpr>(w)) w = p->getSubExpr();
            else if (const auto * p = dyn_cast<SubstNonTypeTemplateParmExpr>(w)) w = p->getReplacement();
            else break;
         }
         _fs->stmtId[s] = id;
      }

      const bool full = _fs->full;
      if (full)
      {
         o.buf += "{\"i\":"; o.buf += std::to_string(id);
         o.s("k", s->getStmtClassName());
         o.n("l", lineOf(s->getBeginLoc()));
      }

      std::vector<const Stmt *> kids;
      bool customKids = false;

      if (const auto * e = dyn_cast<Expr>(s))
      {
         if (full) {o.n("t", typeIdx(e->getType())); tryConst(e, o);}
      }

      if (const auto * dre = dyn_cast<DeclRefExpr>(s))
      {
         const ValueDecl * d = dre->getDecl();
         if (full)
         {
            o.s("n", d->getNameAsString());
            o.s("dk", d->getDeclKindName());
            if (isLocalDecl(d)) o.n("d", localDeclId(d));
            else
            {
               o.s("q", genericName(d));
               if (const auto * fd = dyn_cast<FunctionDecl>(d)) {std::string m = mangled(fd); if (!m.empty()) o.s("fn", m);}
            }
         }
      }
      else if (const auto * me = dyn_cast<MemberExpr>(s))
      {
         const ValueDecl * d = me->getMemberDecl();
         if (full)
         {
            o.s("n", d->getNameAsString());
            o.s("dk", d->getDeclKindName());
            o.s("q", genericName(d));
            if (me->isArrow()) o.n("arrow", 1);
            if (me->hasQualifier()) o.n("qual", 1);
         }
      }
      else if (const auto * ce = dyn_cast<CallExpr>(s))
      {
         const FunctionDecl * callee = ce->getDirectCallee();
         bool virt = false;
         if (const auto * mce = dyn_cast<CXXMemberCallExpr>(ce))
         {
            const CXXMethodDecl * md = mce->getMethodDecl();
            if (md && md->isVirtual())
            {
               const Expr * cal = mce->getCallee()->IgnoreParenImpCasts();
               const auto * cme = dyn_cast<MemberExpr>(cal);
               if (!(cme && cme->hasQualifier())) virt = true;
            }
         }
         if (callee)
         {
            noteCall(callee, s, virt);
            if (full)
            {
               std::string m = mangled(callee);
               if (!m.empty()) o.s("fn", m);
               o.s("q", genericName(callee));
               if (virt) o.n("virt", 1);
               o.s("pk", paramKinds(callee));
               if (callee->isNoReturn()) o.n("noret", 1);
               if (const auto * md = dyn_cast<CXXMethodDecl>(callee)) {if (md->isConst()) o.n("cm", 1); if (md->isStatic()) o.n("sm", 1);}
            }
         }
         if (full)
         {
            std::string mx = macroName(s->getBeginLoc());
            if (!mx.empty()) o.s("mx", mx);
         }
      }
      else if (const auto * cc = dyn_cast<CXXConstructExpr>(s))
      {
         const CXXConstructorDecl * cd = cc->getConstructor();
         noteCall(cd, s, false);
         if (full)
         {
            std::string m = mangled(cd);
            if (!m.empty()) o.s("fn", m);
            o.s("q", genericName(cd));
            o.s("pk", paramKinds(cd));
            if (cd->isCopyOrMoveConstructor()) o.n("copy", 1);
         }
      }
      else if (const auto * ne = dyn_cast<CXXNewExpr>(s))
      {
         if (full)
         {
            if (ne->isArray()) o.n("arr", 1);
            o.n("at", typeIdx(ne->getAllocatedType()));
            if (ne->getNumPlacementArgs() > 0) o.n("placement", 1);
            // nothrow?
            if (ne->getOperatorNew()) o.s("q", genericName(ne->getOperatorNew()));
         }
         if (ne->getOperatorNew()) noteCall(ne->getOperatorNew(), s, false);
         customKids = true;
         if (ne->isArray() && ne->getArraySize()) kids.push_back(*ne->getArraySize());
         for (unsigned i=0; i<ne->getNumPlacementArgs(); i++) kids.push_back(ne->getPlacementArg(i));
         if (ne->getInitializer()) kids.push_back(ne->getInitializer());
         if (full && ne->isArray() && ne->getArraySize()) o.n("hasSize", 1);
      }
      else if (const auto * de = dyn_cast<CXXDeleteExpr>(s))
      {
         if (full && de->isArrayForm()) o.n("arr", 1);
         // destructor call is implicit: record it as a call so the call graph sees it
         QualType dt = de->getDestroyedType();
         if (!dt.isNull()) if (const CXXRecordDecl * rd = dt->getAsCXXRecordDecl()) if (rd->hasDefinition()) if (const CXXDestructorDecl * dd = rd->getDestructor()) noteCall(dd, s, dd->isVirtual());
      }
      else if (const auto * uo = dyn_cast<UnaryOperator>(s))
      {
         if (full)
         {
            std::string op = UnaryOperator::getOpcodeStr(uo->getOpcode()).str();
            if (uo->isPostfix()) op = "post" + op; else if (uo->isIncrementDecrementOp()) op = "pre" + op;
            o.s("op", op);
         }
      }
      else if (const auto * bo = dyn_cast<BinaryOperator>(s))
      {
         if (full) o.s("op", bo->getOpcodeStr());
      }
      else if (const auto * sl = dyn_cast<StringLiteral>(s))
      {
         if (full)
         {
            if (sl->getCharByteWidth() == 1) o.s("s", sl->getBytes().substr(0, 256));
            o.n("len", sl->getLength());
         }
      }
      else if (const auto * fl = dyn_cast<FloatingLiteral>(s))
      {
         if (full) {llvm::SmallString<32> str; fl->getValue().toString(str); o.s("fv", str);}
      }
      else if (const auto * ue = dyn_cast<UnaryExprOrTypeTraitExpr>(s))
      {
         if (full)
         {
            o.s("op", ue->getKind() == UETT_SizeOf ? "sizeof" : "trait");
            if (ue->isArgumentType()) o.n("at", typeIdx(ue->getArgumentType()));
         }
         customKids = true; // do not descend into unevaluated operand
      }
      else if (const auto * ce2 = dyn_cast<ExplicitCastExpr>(s))
      {
         if (full) o.s("ck", ce2->getCastKindName());
      }
      else if (const auto * ds = dyn_cast<DeclStmt>(s))
      {
         customKids = true;
         if (full) o.buf += ",\"ch\":[";
         bool first = true;
         for (const Decl * d : ds->decls())
         {
            if (const auto * vd = dyn_cast<VarDecl>(d))
            {
               if (full && !first) o.buf += ",";
               first = false;
               emitVarDecl(vd, o);
            }
         }
         if (full) o.buf += "]}";
         return id;
      }
      else if (const auto * is = dyn_cast<IfStmt>(s))
      {
         customKids = true;
         if (is->getInit()) kids.push_back(is->getInit());
         if (is->getConditionVariableDeclStmt()) kids.push_back(is->getConditionVariableDeclStmt());
         kids.push_back(is->getCond()); kids.push_back(is->getThen()); if (is->getElse()) kids.push_back(is->getElse());
         if (full) {o.n("r_cond", kids.size()-(is->getElse()?3:2)); o.n("r_then", kids.size()-(is->getElse()?2:1)); if (is->getElse()) o.n("r_else", kids.size()-1);}
      }
      else if (const auto * ws = dyn_cast<WhileStmt>(s))
      {
         customKids = true;
         if (ws->getConditionVariableDeclStmt()) kids.push_back(ws->getConditionVariableDeclStmt());
         kids.push_back(ws->getCond()); kids.push_back(ws->getBody());
         if (full) {o.n("r_cond", kids.size()-2); o.n("r_body", kids.size()-1);}
      }
      else if (const auto * fs = dyn_cast<ForStmt>(s))
      {
         customKids = true;
         if (fs->getInit()) {if (full) o.n("r_init", kids.size()); kids.push_back(fs->getInit());}
         if (fs->getCond()) {if (full) o.n("r_cond", kids.size()); kids.push_back(fs->getCond());}
         if (fs->getInc())  {if (full) o.n("r_inc",  kids.size()); kids.push_back(fs->getInc());}
         if (full) o.n("r_body", kids.size());
         kids.push_back(fs->getBody());
      }
      else if (const auto * dos = dyn_cast<DoStmt>(s))
      {
         customKids = true;
         kids.push_back(dos->getBody()); kids.push_back(dos->getCond());
         if (full) {o.n("r_body", 0); o.n("r_cond", 1);}
      }
      else if (const auto * sw = dyn_cast<SwitchStmt>(s))
      {
         customKids = true;
         if (sw->getInit()) kids.push_back(sw->getInit());
         if (sw->getConditionVariableDeclStmt()) kids.push_back(sw->getConditionVariableDeclStmt());
         if (full) {o.n("r_cond", kids.size()); o.n("r_body", kids.size()+1);}
         kids.push_back(sw->getCond()); kids.push_back(sw->getBody());
      }
      else if (const auto * cs = dyn_cast<CaseStmt>(s))
      {
         customKids = true;
         if (full)
         {
            Expr::EvalResult r;
            if (!cs->getLHS()->isValueDependent() && cs->getLHS()->EvaluateAsInt(r, _ctx)) o.n("cv", r.Val.getInt().getExtValue());
            if (cs->getRHS()) {Expr::EvalResult r2; if (cs->getRHS()->EvaluateAsInt(r2, _ctx)) o.n("cv2", r2.Val.getInt().getExtValue());}
         }
         kids.push_back(cs->getSubStmt());
      }
      else if (const auto * fr = dyn_cast<CXXForRangeStmt>(s))
      {
         customKids = true;
         if (fr->getRangeStmt()) kids.push_back(fr->getRangeStmt());
         if (fr->getBeginStmt()) kids.push_back(fr->getBeginStmt());
         if (fr->getEndStmt())   kids.push_back(fr->getEndStmt());
         if (fr->getCond())      kids.push_back(fr->getCond());
         if (fr->getInc())       kids.push_back(fr->getInc());
         if (fr->getLoopVarStmt()) kids.push_back(fr->getLoopVarStmt());
         if (full) o.n("r_body", kids.size());
         kids.push_back(fr->getBody());
      }
      else if (const auto * le = dyn_cast<LambdaExpr>(s))
      {
         customKids = true;  // captures' init exprs
         const CXXMethodDecl * op = le->getCallOperator();
         if (op)
         {
            _fs->lambdas.push_back(op);
            if (full) {std::string m = mangled(op); if (!m.empty()) o.s("fn", m);}
            noteCall(op, s, false);   // conservatively: creating a lambda may call it
         }
         for (const Expr * ci : le->capture_inits()) if (ci) kids.push_back(ci);
      }
      else if (const auto * da = dyn_cast<CXXDefaultArgExpr>(s))
      {
         customKids = true;
      }
      else if (isa<CXXDefaultInitExpr>(s)) customKids = true;
      else if (const auto * ls = dyn_cast<LabelStmt>(s)) { if (full) o.s("n", ls->getName()); }
      else if (const auto * gs = dyn_cast<GotoStmt>(s))  { if (full) o.s("n", gs->getLabel()->getName()); }
      else if (const auto * ile = dyn_cast<InitListExpr>(s))
      {
         // use the semantic form
         customKids = true;
         const InitListExpr * sem = ile->isSemanticForm() ? ile : (ile->getSemanticForm() ? ile->getSemanticForm() : ile);
         for (const Expr * e : sem->inits()) if (e) kids.push_back(e);
      }

      if (!customKids) for (const Stmt * c : s->children()) if (c) kids.push_back(c);

      if (full) o.buf += ",\"ch\":[";
      bool first = true;
      for (const Stmt * c : kids)
      {
         if (!c) continue;
         if (full && !first) o.buf += ",";
         first = false;
         emitStmt(c, o);
      }
      if (full) o.buf += "]}";
      return id;
   }

   void emitVarDecl(const VarDecl * vd, Out & o)
   {
      int id = _fs->nextNode++;
      _fs->varNode[vd] = id;
      const bool full = _fs->full;
      if (full)
      {
         o.buf += "{\"i\":"; o.buf += std::to_string(id);
         o.s("k", "VarDecl");
         o.n("l", lineOf(vd->getLocation()));
         o.s("n", vd->getNameAsString());
         o.n("d", localDeclId(vd));
         o.n("t", typeIdx(vd->getType()));
         if (vd->isStaticLocal()) o.n("static", 1);
         std::string mx = macroName(vd->getBeginLoc());
         if (!mx.empty()) o.s("mx", mx);
         o.buf += ",\"ch\":[";
      }
      if (vd->hasInit()) emitStmt(vd->getInit(), o);
      if (full) o.buf += "]}";
   }

   // ---------------------------------------------------------------- CFG
   void emitCFG(const FunctionDecl * fd, Out & o)
   {
      CFG::BuildOptions bo;
      bo.setAllAlwaysAdd();
      bo.AddImplicitDtors = true;
      bo.AddInitializers  = true;
      bo.AddTemporaryDtors = false;
      bo.AddEHEdges = false;
      bo.PruneTriviallyFalseEdges = true;
      std::unique_ptr<CFG> cfg = CFG::buildCFG(fd, fd->getBody(), &_ctx, bo);
      if (!cfg) {o.buf += ",\"cfg\":null"; _cfgFail++; return;}
      o.buf += ",\"cfg\":{";
      o.buf += "\"entry\":" + std::to_string(cfg->getEntry().getBlockID());
      o.buf += ",\"exit\":" + std::to_string(cfg->getExit().getBlockID());
      o.buf += ",\"blocks\":[";
      bool firstB = true;
      for (const CFGBlock * b : *cfg)
      {
         if (!b) continue;
         if (!firstB) o.buf += ",";
         firstB = false;
         o.buf += "{\"b\":" + std::to_string(b->getBlockID()) + ",\"e\":[";
         bool firstE = true;
         for (const CFGElement & el : *b)
         {
            std::string item;
            if (auto st = el.getAs<CFGStmt>())
            {
               const Stmt * s = st->getStmt();
               int sid = -1;
               if (const auto * ds = dyn_cast<DeclStmt>(s))
               {
                  if (ds->isSingleDecl()) if (const auto * vd = dyn_cast<VarDecl>(ds->getSingleDecl()))
                  {
                     auto it = _fs->varNode.find(vd);
                     if (it != _fs->varNode.end()) sid = it->second;
                  }
               }
               if (sid < 0)
               {
                  auto it = _fs->stmtId.find(s);
                  if (it != _fs->stmtId.end()) sid = it->second;
               }
               if (sid < 0) continue;
               item = std::to_string(sid);
            }
            else if (auto dt = el.getAs<CFGAutomaticObjDtor>())
            {
               const VarDecl * vd = dt->getVarDecl();
               auto it = _fs->declId.find(vd);
               item = "[\"D\"," + std::to_string(it != _fs->declId.end() ? it->second : -1) + "]";
               // implicit destructor call for the call graph
               if (const CXXDestructorDecl * dd = dt->getDestructorDecl(_ctx)) noteCallNoSite(dd, lineOf(vd->getLocation()));
            }
            else if (auto in = el.getAs<CFGInitializer>())
            {
               const CXXCtorInitializer * ci = in->getInitializer();
               auto it = _initIdx.find(ci);
               item = "[\"I\"," + std::to_string(it != _initIdx.end() ? it->second : -1) + "]";
            }
            else continue;
            if (!firstE) o.buf += ",";
            firstE = false;
            o.buf += item;
         }
         o.buf += "],\"s\":[";
         bool firstS = true;
         for (auto si = b->succ_begin(); si != b->succ_end(); ++si)
         {
            if (!firstS) o.buf += ",";
            firstS = false;
            const CFGBlock * sb = si->getReachableBlock();
            o.buf += sb ? std::to_string(sb->getBlockID()) : std::string("-1");
         }
         o.buf += "]";
         if (const Stmt * t = b->getTerminatorStmt())
         {
            auto it = _fs->stmtId.find(t);
            o.n("t", (it != _fs->stmtId.end()) ? it->second : -1);
            o.s("tk", t->getStmtClassName());
         }
         if (const Expr * lc = b->getLastCondition())
         {
            auto it = _fs->stmtId.find(lc);
            if (it != _fs->stmtId.end()) o.n("c", it->second);
         }
         if (b->hasNoReturnElement()) o.n("noret", 1);
         if (const Stmt * lab = b->getLabel())
         {
            auto it = _fs->stmtId.find(lab);
            if (it != _fs->stmtId.end()) o.n("lab", it->second);
         }
         o.buf += "}";
      }
      o.buf += "]}";
   }

   void noteCallNoSite(const FunctionDecl * callee, unsigned line)
   {
      std::string m = mangled(callee);
      if (m.empty()) return;
      if (!_fs->calls.empty()) _fs->calls += ",";
      _fs->calls += "{\"fn\":\"" + jesc(m) + "\",\"q\":\"" + jesc(genericName(callee)) + "\",\"l\":" + std::to_string(line) + ",\"implicit\":1}";
   }

   std::map<const CXXCtorInitializer *, int> _initIdx;

   // ---------------------------------------------------------------- functions
   void handleFunction(const FunctionDecl * fd)
   {
      if (!fd->doesThisDeclarationHaveABody()) return;
      if (fd->isDependentContext()) return;
      if (fd->isDeleted() || fd->isDefaulted()) { if (!fd->getBody()) return; }
      const Stmt * body = fd->getBody();
      if (!body) return;
      std::string rel; unsigned line = 0;
      if (!underRoot(fd->getLocation(), &rel, &line)) return;
      std::string m = mangled(fd);
      if (m.empty()) return;
      if (!_seenFns.insert(m).second) return;

      std::string gname = genericName(fd);
      FnState fs; _fs = &fs;
      fs.full = (!OptNoBodies) && _fnre.match(gname);
      // file-local helpers (static functions / anonymous namespace) of the unit's main file always come with their body: they are what an extract-function refactoring of a
      // selected function produces, and the rules look through calls to them (msa/ip.py)
      if ((!OptNoBodies) && (!fs.full) && _sm.isInMainFile(_sm.getExpansionLoc(fd->getLocation())) && (!isa<CXXMethodDecl>(fd)) && (fd->getFormalLinkage() == InternalLinkage)) fs.full = true;
      _initIdx.clear();

      Out o;
      o.buf += "{\"k\":\"fn\",\"id\":\"" + jesc(m) + "\"";
      o.s("q", gname);
      o.s("name", fullName(fd));
      o.s("file", rel);
      o.n("line", line);
      o.n("endline", lineOf(fd->getEndLoc()));
      if (const auto * md = dyn_cast<CXXMethodDecl>(fd))
      {
         const CXXRecordDecl * rd = md->getParent();
         o.s("cls", genericName(rd));
         o.s("clsfull", fullName(rd));
         if (md->isVirtual()) o.n("virtual", 1);
         if (md->isConst())   o.n("const", 1);
         if (md->isStatic())  o.n("static", 1);
         if (md->size_overridden_methods() > 0)
         {
            o.buf += ",\"overrides\":[";
            bool first = true;
            for (const CXXMethodDecl * om : md->overridden_methods())
            {
               std::string mm = mangled(om);
               if (mm.empty()) continue;
               if (!first) o.buf += ",";
               first = false;
               o.buf += "\"" + jesc(mm) + "\"";
            }
            o.buf += "]";
         }
      }
      if (fd->isNoReturn()) o.n("noret", 1);
      if (fd->isTemplateInstantiation()) o.n("inst", 1);
      if (fs.full) o.n("rt", typeIdx(fd->getReturnType()));

      // params
      o.buf += ",\"params\":[";
      for (unsigned i=0; i<fd->getNumParams(); i++)
      {
         const ParmVarDecl * p = fd->getParamDecl(i);
         if (i) o.buf += ",";
         o.buf += "{\"d\":" + std::to_string(localDeclId(p)) + ",\"n\":\"" + jesc(p->getNameAsString()) + "\",\"t\":" + std::to_string(typeIdx(p->getType())) + "}";
      }
      o.buf += "]";

      // ctor initialisers
      Out bodyOut;
      if (const auto * cd = dyn_cast<CXXConstructorDecl>(fd))
      {
         Out io;
         int idx = 0;
         bool first = true;
         for (const CXXCtorInitializer * ci : cd->inits())
         {
            _initIdx[ci] = idx++;
            Out one;
            if (fs.full)
            {
               one.buf += "{\"idx\":" + std::to_string(idx-1);
               if (ci->isAnyMemberInitializer() && ci->getAnyMember()) {one.s("field", ci->getAnyMember()->getNameAsString()); one.s("q", genericName(ci->getAnyMember()));}
               else if (ci->isBaseInitializer()) one.s("base", QualType(ci->getBaseClass(), 0).getAsString(_pp));
               if (ci->isWritten()) one.n("written", 1);
               one.buf += ",\"e\":";
            }
            if (ci->getInit()) emitStmt(ci->getInit(), one); else if (fs.full) one.buf += "null";
            if (fs.full)
            {
               one.buf += "}";
               if (!first) io.buf += ",";
               first = false;
               io.buf += one.buf;
            }
         }
         if (fs.full) {o.buf += ",\"inits\":[" + io.buf + "]";}
      }

      emitStmt(body, bodyOut);
      if (fs.full)
      {
         o.buf += ",\"body\":" + bodyOut.buf;
         emitCFG(fd, o);
         o.n("nnodes", fs.nextNode);
      }
      else
      {
         // implicit destructor calls are only discovered by the CFG; do a cheap pass without it: approximate via var decl types
      }
      o.buf += ",\"calls\":[" + fs.calls + "]";
      o.buf += "}\n";
      _os << o.buf;
      _nFns++; if (fs.full) _nFull++;

      std::vector<const CXXMethodDecl *> lambdas = fs.lambdas;
      _fs = nullptr;
      for (const CXXMethodDecl * l : lambdas) handleFunction(l);
   }

   // ---------------------------------------------------------------- records / enums / vars
   void handleRecord(const CXXRecordDecl * rd)
   {
      if (!rd->isThisDeclarationADefinition()) return;
      if (rd->isDependentContext()) return;
      if (rd->isLambda()) return;
      std::string rel; unsigned line = 0;
      if (!underRoot(rd->getLocation(), &rel, &line)) return;
      std::string fn = fullName(rd);
      if (!_seenRecs.insert(fn).second) return;
      Out o;
      o.buf += "{\"k\":\"rec\"";
      o.s("q", genericName(rd));
      o.s("name", fn);
      o.s("file", rel);
      o.n("line", line);
      o.buf += ",\"bases\":[";
      bool first = true;
      for (const CXXBaseSpecifier & b : rd->bases())
      {
         const CXXRecordDecl * bd = b.getType()->getAsCXXRecordDecl();
         if (!bd) continue;
         if (!first) o.buf += ",";
         first = false;
         o.buf += "{\"q\":\"" + jesc(genericName(bd)) + "\",\"name\":\"" + jesc(fullName(bd)) + "\"}";
      }
      o.buf += "],\"fields\":[";
      first = true;
      for (const FieldDecl * f : rd->fields())
      {
         if (!first) o.buf += ",";
         first = false;
         o.buf += "{\"n\":\"" + jesc(f->getNameAsString()) + "\",\"t\":" + std::to_string(typeIdx(f->getType())) + ",\"acc\":" + std::to_string((int)f->getAccess()) + (f->isMutable() ? ",\"mutable\":1" : "") + "}";
      }
      o.buf += "],\"methods\":[";
      first = true;
      for (const CXXMethodDecl * md : rd->methods())
      {
         if (md->isImplicit()) continue;
         std::string mm = mangled(md);
         if (mm.empty()) continue;
         if (!first) o.buf += ",";
         first = false;
         o.buf += "{\"fn\":\"" + jesc(mm) + "\",\"n\":\"" + jesc(md->getNameAsString()) + "\"";
         if (md->isVirtual()) o.buf += ",\"virtual\":1";
         if (md->isPure())    o.buf += ",\"pure\":1";
         if (md->isConst())   o.buf += ",\"const\":1";
         if (md->size_overridden_methods() > 0)
         {
            o.buf += ",\"overrides\":[";
            bool f2 = true;
            for (const CXXMethodDecl * om : md->overridden_methods())
            {
               std::string m2 = mangled(om);
               if (m2.empty()) continue;
               if (!f2) o.buf += ",";
               f2 = false;
               o.buf += "\"" + jesc(m2) + "\"";
            }
            o.buf += "]";
         }
         o.buf += "}";
      }
      o.buf += "]}\n";
      _os << o.buf;
   }

   void handleCRecord(const RecordDecl * rd)
   {
      if (!rd->isThisDeclarationADefinition()) return;
      std::string rel; unsigned line = 0;
      if (!underRoot(rd->getLocation(), &rel, &line)) return;
      std::string fn = rd->getNameAsString();
      if (fn.empty()) return;
      if (!_seenRecs.insert(fn).second) return;
      Out o;
      o.buf += "{\"k\":\"rec\"";
      o.s("q", fn); o.s("name", fn); o.s("file", rel); o.n("line", line);
      o.buf += ",\"bases\":[],\"fields\":[";
      bool first = true;
      for (const FieldDecl * f : rd->fields())
      {
         if (!first) o.buf += ",";
         first = false;
         o.buf += "{\"n\":\"" + jesc(f->getNameAsString()) + "\",\"t\":" + std::to_string(typeIdx(f->getType())) + "}";
      }
      o.buf += "],\"methods\":[]}\n";
      _os << o.buf;
   }

   void handleEnum(const EnumDecl * ed)
   {
      if (!ed->isThisDeclarationADefinition()) return;
      if (ed->isDependentContext()) return;
      std::string rel; unsigned line = 0;
      if (!underRoot(ed->getLocation(), &rel, &line)) return;
      std::string key = rel + ":" + std::to_string(line);
      if (!_seenRecs.insert("enum " + key).second) return;
      Out o;
      o.buf += "{\"k\":\"enum\"";
      o.s("q", genericName(ed));
      o.s("file", rel);
      o.n("line", line);
      o.buf += ",\"consts\":{";
      bool first = true;
      for (const EnumConstantDecl * ec : ed->enumerators())
      {
         if (!first) o.buf += ",";
         first = false;
         o.buf += "\"" + jesc(ec->getNameAsString()) + "\":" + llvm::toString(ec->getInitVal(), 10);
      }
      o.buf += "}}\n";
      _os << o.buf;
   }

   void handleVar(const VarDecl * vd)
   {
      if (!vd->hasGlobalStorage() || vd->isLocalVarDecl()) return;
      if (vd->isStaticLocal()) return;
      if (vd->getDeclContext()->isDependentContext()) return;
      std::string rel; unsigned line = 0;
      if (!underRoot(vd->getLocation(), &rel, &line)) return;
      if (vd->isThisDeclarationADefinition() && !vd->getType()->isDependentType())
      {
         // storage record for every namespace-scope / static-member variable definition: type and whether it is thread-local
         std::string gq = genericName(vd);
         if (_seenRecs.insert("gvar " + gq + "@" + rel).second)
         {
            Out g;
            g.buf += "{\"k\":\"gvar\"";
            g.s("q", gq);
            g.s("file", rel);
            g.n("line", line);
            g.n("t", typeIdx(vd->getType()));
            g.n("tls", vd->getTLSKind() != VarDecl::TLS_None ? 1 : 0);
            g.buf += "}\n";
            _os << g.buf;
         }
      }
      if (!vd->hasInit()) return;
      const Expr * init = vd->getInit();
      if (!init || init->isValueDependent()) return;
      std::string q = genericName(vd);
      Out o;
      o.buf += "{\"k\":\"var\"";
      o.s("q", q);
      o.s("file", rel);
      o.n("line", line);
      o.n("t", typeIdx(vd->getType()));
      bool have = false;
      if (init->getType()->isIntegralOrEnumerationType())
      {
         Expr::EvalResult r;
         if (init->EvaluateAsInt(r, _ctx, Expr::SE_NoSideEffects)) {o.buf += ",\"v\":" + llvm::toString(r.Val.getInt(), 10); have = true;}
      }
      if (!have)
      {
         const Expr * e = init->IgnoreParenImpCasts();
         if (const auto * sl = dyn_cast<StringLiteral>(e)) if (sl->getCharByteWidth() == 1) {o.s("s", sl->getBytes().substr(0, 512)); have = true;}
      }
      if (!have) return;
      if (!_seenRecs.insert("var " + q).second) return;
      o.buf += "}\n";
      _os << o.buf;
   }

   void finish()
   {
      Out o;
      o.buf += "{\"k\":\"types\",\"list\":[";
      for (size_t i=0; i<_typeList.size(); i++) {if (i) o.buf += ","; o.buf += "\"" + jesc(_typeList[i]) + "\"";}
      o.buf += "]}\n";
      o.buf += "{\"k\":\"stats\",\"fns\":" + std::to_string(_nFns) + ",\"full\":" + std::to_string(_nFull) + ",\"cfgfail\":" + std::to_string(_cfgFail) + "}\n";
      _os << o.buf;
   }

private:
   ASTContext & _ctx;
   SourceManager & _sm;
   llvm::raw_ostream & _os;
   ASTNameGenerator _namegen;
   llvm::Regex _fnre;
   std::string _root;
   PrintingPolicy _pp{LangOptions()};
   std::map<std::string, int> _types;
   std::vector<std::string> _typeList;
   std::set<std::string> _seenFns, _seenRecs;
   unsigned _nFns = 0, _nFull = 0, _cfgFail = 0;
};

class Visitor : public RecursiveASTVisitor<Visitor>
{
public:
   explicit Visitor(Extractor & ex) : _ex(ex) {}
   bool shouldVisitTemplateInstantiations() const {return true;}
   bool shouldVisitImplicitCode() const {return false;}
   bool VisitFunctionDecl(FunctionDecl * fd) {_ex.handleFunction(fd); return true;}
   bool VisitCXXRecordDecl(CXXRecordDecl * rd) {_ex.handleRecord(rd); return true;}
   bool VisitRecordDecl(RecordDecl * rd) {if (!isa<CXXRecordDecl>(rd)) _ex.handleCRecord(rd); return true;}
   bool VisitEnumDecl(EnumDecl * ed) {_ex.handleEnum(ed); return true;}
   bool VisitVarDecl(VarDecl * vd) {_ex.handleVar(vd); return true;}
private:
   Extractor & _ex;
};

class MacroCB : public PPCallbacks
{
public:
   MacroCB(Preprocessor & pp, llvm::raw_ostream & os, const std::string & root) : _pp(pp), _os(os), _root(root) {}
   void MacroDefined(const Token & nameTok, const MacroDirective * md) override
   {
      const MacroInfo * mi = md->getMacroInfo();
      if (!mi || mi->isBuiltinMacro()) return;
      SourceManager & sm = _pp.getSourceManager();
      SourceLocation loc = mi->getDefinitionLoc();
      if (loc.isInvalid() || !loc.isFileID()) return;
      PresumedLoc pl = sm.getPresumedLoc(loc, false);
      if (pl.isInvalid()) return;
      std::string fn = Extractor::collapse(pl.getFilename());
      if (fn.compare(0, _root.size(), _root) != 0) return;
      std::string rel = fn.size() > _root.size() ? fn.substr(_root.size()+1) : fn;
      if ((rel.compare(0, 10, "zlib/zlib/") == 0)||(rel.compare(0, 12, "regex/regex/") == 0)) return;
      std::string body;
      for (const Token & t : mi->tokens()) {if (!body.empty()) body += " "; body += _pp.getSpelling(t);}
      std::string o = "{\"k\":\"macro\",\"n\":\"" + jesc(nameTok.getIdentifierInfo()->getName()) + "\",\"file\":\"" + jesc(rel) + "\",\"line\":" + std::to_string(pl.getLine());
      if (mi->isFunctionLike()) o += ",\"fnlike\":1";
      o += ",\"body\":\"" + jesc(body) + "\"}\n";
      _os << o;
   }
private:
   Preprocessor & _pp;
   llvm::raw_ostream & _os;
   std::string _root;
};

class Consumer : public ASTConsumer
{
public:
   explicit Consumer(llvm::raw_ostream & os) : _os(os) {}
   void HandleTranslationUnit(ASTContext & ctx) override
   {
      if (ctx.getDiagnostics().hasErrorOccurred()) {_os << "{\"k\":\"error\",\"what\":\"parse errors\"}\n";}
      Extractor ex(ctx, _os);
      Visitor v(ex);
      v.TraverseDecl(ctx.getTranslationUnitDecl());
      ex.finish();
   }
private:
   llvm::raw_ostream & _os;
};

static std::unique_ptr<llvm::raw_fd_ostream> g_out;

class Action : public ASTFrontendAction
{
public:
   std::unique_ptr<ASTConsumer> CreateASTConsumer(CompilerInstance & ci, llvm::StringRef file) override
   {
      llvm::raw_ostream & os = g_out ? (llvm::raw_ostream &)*g_out : llvm::outs();
      os << "{\"k\":\"unit\",\"file\":\"" << jesc(file) << "\"}\n";
      if (OptMacros)
      {
         std::string root = OptRoot;
         while((root.size() > 1)&&(root.back() == '/')) root.pop_back();
         ci.getPreprocessor().addPPCallbacks(std::make_unique<MacroCB>(ci.getPreprocessor(), os, root));
      }
      return std::make_unique<Consumer>(os);
   }
};

} // namespace

int main(int argc, const char ** argv)
{
   auto ep = CommonOptionsParser::create(argc, argv, Cat);
   if (!ep) {llvm::errs() << llvm::toString(ep.takeError()); return 2;}
   CommonOptionsParser & op = ep.get();
   if (OptOut != "-")
   {
      std::error_code ec;
      g_out = std::make_unique<llvm::raw_fd_ostream>(OptOut, ec);
      if (ec) {llvm::errs() << "cannot open " << OptOut << ": " << ec.message() << "\n"; return 2;}
   }
   ClangTool tool(op.getCompilations(), op.getSourcePathList());
   int r = tool.run(newFrontendActionFactory<Action>().get());
   if (g_out) g_out->flush();
   return r ? 2 : 0;
}
