// Forces full instantiation of the class templates whose member bodies the C10 / C16 rules need
// (a translation unit may never instantiate a member it does not use).  Includes only /repo headers; adds nothing to /repo.
#include "util/Queue.h"
#include "util/String.h"
#include "util/RefCount.h"
#include "util/ByteBuffer.h"
#include "util/ObjectPool.h"
#include "message/Message.h"

namespace muscle {
template class Queue<int32>;
template class Queue<String>;
template class Queue<ByteBufferRef>;
template class ConstRef<ByteBuffer>;
template class Ref<ByteBuffer>;
// ObjectPool<T>::ObjectSlab::GetTotalDataSize() is documented as type-dependent: instantiate the pool with a dummy pooled type that has the method
class VerifPooledObject : public RefCountable {public: VerifPooledObject() : _x(0) {} uint32 GetTotalDataSize() const {return sizeof(*this);} int _x;};
template class ObjectPool<VerifPooledObject>;
}
namespace muscle { template Ref<ByteBuffer> CastAwayConstFromRef<ByteBuffer>(const ConstRef<ByteBuffer> &); }
