"""Dominating facts at a program point, independent of how the source spells them.

atoms_at(f, node) returns every (atom, truth) that is known to hold whenever control reaches `node`:
  - each branch edge that dominates the node's block, split into conjuncts of a true `&&` / disjuncts of a false `||` and stripped of `!`, `== false`, `== true`;
  - if an atom is a local variable that is initialised once and never assigned afterwards, the atoms implied by its initialiser (so `const bool ok = a && b; if (ok) ...` reads as `if (a && b)`).
Rules ask `any(pred(a, t) for (a, t) in atoms_at(f, n))` instead of matching a particular if-statement shape."""
from . import ast as A, cfg as C


def _single_def_locals(f):
    idx = getattr(f, '_single_def_locals', None)
    if idx is None:
        idx = {}
        assigned = set()
        for v in f.walk():
            if v['k'] == 'VarDecl' and v.get('d') is not None and v['ch']:
                idx[v['d']] = v
            elif v['k'] in ('BinaryOperator', 'CompoundAssignOperator') and (v.get('op') or '').endswith('=') and v.get('op') not in ('==', '!=', '<=', '>='):
                l = A.strip_casts(v['ch'][0])
                if l['k'] == 'DeclRefExpr':
                    assigned.add(l.get('d'))
            elif v['k'] == 'UnaryOperator' and v.get('op') in ('pre++', 'post++', 'pre--', 'post--', '&'):
                l = A.strip_casts(v['ch'][0])
                if l['k'] == 'DeclRefExpr':
                    assigned.add(l.get('d'))
        for d in assigned:
            idx.pop(d, None)
        f._single_def_locals = idx
    return idx


def expand(f, atoms):
    idx = _single_def_locals(f)
    out = []
    seen = set()
    work = list(atoms)
    while work:
        (a, t) = work.pop()
        out.append((a, t))
        if a['k'] == 'DeclRefExpr' and a.get('d') in idx and a['d'] not in seen:
            seen.add(a['d'])
            work += A.implied_atoms(idx[a['d']]['ch'][0], t)
    return out


def atoms_of_cond(f, cond, truth=True):
    return expand(f, A.implied_atoms(cond, truth))


def atoms_at(f, node_or_block):
    b = node_or_block if isinstance(node_or_block, int) else None
    if b is None:
        n = node_or_block
        p = f.pos(n['i'])
        if p is None:
            for a in n.ancestors():
                p = f.pos(a['i'])
                if p is not None:
                    break
        if p is None:
            return []
        b = p[0]
    atoms = []
    for (g, t) in C.guards_of_block(f, b):
        atoms += A.implied_atoms(f.nodes[g], t)
    return expand(f, atoms)


def local_init(f, node):
    """the initialiser of the never-reassigned local that `node` reads, else node itself"""
    idx = _single_def_locals(f)
    n = A.strip_casts(node)
    seen = set()
    while n['k'] == 'DeclRefExpr' and n.get('d') in idx and n['d'] not in seen:
        seen.add(n['d'])
        n = A.strip_casts(idx[n['d']]['ch'][0])
    return n
