"""PROGRESS (DESIGN 3.9): every cycle through a loop must be able to change an input of one of
the loop's exit conditions; plus cursor consistency for the remove-or-advance idiom.

The rule is deliberately lenient about *what may change a progress variable* (any non-const call
on the object, any opaque call for heap state) so that it only reports cycles on which nothing
the exit conditions read can change — i.e. loops that, once entered with the conditions in the
'stay' state, provably never leave."""
import re
from . import cfg as C
from . import ast as A


def loop_exit_conditions(fn, header, body):
    """[(cond node, block)] for blocks in the loop with a successor outside the loop"""
    out = []
    for b in body:
        blk = fn.blocks[b]
        ss = [s for s in blk.succ if s is not None and s >= 0]
        if any(s not in body for s in ss) and any(s in body for s in ss):
            if blk.cond is not None and blk.cond in fn.nodes:
                out.append((fn.nodes[blk.cond], b))
            elif blk.tk == 'SwitchStmt' and blk.term in fn.nodes:
                c = fn.nodes[blk.term].role('cond')
                if c is not None:
                    out.append((c, b))
    return out


def cond_inputs(cond, facts):
    """(inputs: set of root locations the condition's value depends on,
        opaque: True if the condition itself calls something that is not a pure reader)"""
    ins = set()
    opaque = False
    eff = A.effects(cond, facts)
    # outputs of the test: things modified by the test itself (e.g. out-params) are not inputs,
    # except when they are also genuinely advanced there (x++ in the condition counts as progress later)
    outs = set()
    for x in cond.walk():
        if x['k'] in A.CALL_KINDS and x['k'] not in ('CXXConstructExpr', 'CXXTemporaryObjectExpr'):
            kinds = A.param_kinds(x, facts)
            for a, pk in zip(x.args(), kinds):
                if pk in ('mref', 'mptr', 'mptr?'):
                    outs.add(A.root_loc(a))
            if x['k'] == 'CallExpr':
                opaque = True   # free function in a loop test: may read clocks, sockets, globals
            elif x['k'] == 'CXXMemberCallExpr' and not x.get('cm') and not x.get('sm'):
                opaque = True
            elif x['k'] == 'CXXMemberCallExpr' and x.get('sm'):
                opaque = True
    ins = A.reads(cond)
    # a receiver reached through a pointer/ref local: the pointee is the input; root_loc already maps it to the local
    ins -= set([('tmp',)])
    return ins, outs, opaque, eff


def stmt_nodes_of_block(fn, b):
    """top-level CFG statement nodes of block b: elements whose parent is not itself an element of the
    same block would be complicated; we use all elements and rely on effects() being idempotent"""
    res = []
    for e in fn.blocks[b].elems:
        if isinstance(e, int) and e in fn.nodes:
            res.append(fn.nodes[e])
    return res


def block_effects(fn, b, facts):
    """union of the may-modify effects of every element of the block (elements are sub-expressions in
    evaluation order; walking only element roots that are not nested in another element avoids double work)"""
    cache = getattr(fn, '_beff', None)
    if cache is None:
        cache = fn._beff = {}
    if b in cache:
        return cache[b]
    mod = set()
    opaque = False
    calls = []
    for n in stmt_nodes_of_block(fn, b):
        k = n['k']
        # evaluate each element shallowly (its own operator/call only): children are separate elements
        if k in ('BinaryOperator', 'CompoundAssignOperator') and n.get('op') in A.ASSIGN_OPS:
            mod.add(A.root_loc(n['ch'][0]))
        elif k == 'UnaryOperator' and (n.get('op', '').startswith('pre') or n.get('op', '').startswith('post')):
            mod.add(A.root_loc(n['ch'][0]))
        elif k in A.CALL_KINDS:
            e = shallow_call_effect(n, facts)
            mod |= e.mod
            opaque = opaque or e.opaque
            calls.append(n)
        elif k in ('CXXNewExpr', 'CXXDeleteExpr'):
            opaque = True
        elif k == 'VarDecl':
            # (re)initialisation of a loop-local on every iteration is a write of that local,
            # (even with a constant: the value left by the previous iteration is overwritten)
            if n['ch']:
                mod.add(('v', n['d']))
    mod.discard(('tmp',))
    cache[b] = (mod, opaque, calls)
    return cache[b]


def shallow_call_effect(x, facts):
    e = A.Effects()
    k = x['k']
    if k in ('CXXConstructExpr', 'CXXTemporaryObjectExpr'):
        return e
    const_m = bool(x.get('cm'))
    kinds = A.param_kinds(x, facts)
    args = x.args()
    pure = True
    if k == 'CXXMemberCallExpr':
        r = x.receiver()
        if not const_m and not x.get('sm'):
            pure = False
            if r is not None:
                e.mod.add(A.root_loc(r))
        if x.get('sm'):
            pure = False
    elif k == 'CXXOperatorCallExpr':
        if not const_m and len(args) >= 1:
            if kinds and kinds[0] in ('obj', 'mref', 'mptr', 'unknown', 'mptr?'):
                e.mod.add(A.root_loc(args[0]))
                pure = False
    else:
        pure = False
    is_const_member = const_m and k in ('CXXMemberCallExpr', 'CXXOperatorCallExpr')
    for a, pk in zip(args, kinds):
        if pk in ('mref', 'mptr', 'mptr?'):
            e.mod.add(A.root_loc(a))
            # a const method writes its results through its out-parameters only: that is not an opaque heap effect
            if not is_const_member:
                pure = False
        elif pk == 'unknown':
            a2 = A.strip_casts(a)
            if a2['k'] == 'UnaryOperator' and a2.get('op') == '&':
                e.mod.add(A.root_loc(a2))
                pure = False
    e.opaque = not pure
    return e


HEAPY = ('m', 'g', 'this')


def _writes_in_loop(fn, body, d):
    """right-hand sides of the writes to local d inside the loop body; None stands for a write that is not a plain assignment of an expression (++, +=, out-parameter, …)"""
    out = []
    for b in body:
        for n in stmt_nodes_of_block(fn, b):
            k = n['k']
            if k == 'BinaryOperator' and n.get('op') == '=' and A.strip_casts(n['ch'][0])['k'] == 'DeclRefExpr' and A.strip_casts(n['ch'][0]).get('d') == d:
                out.append(n['ch'][1])
            elif k == 'VarDecl' and n.get('d') == d:
                out.append(n['ch'][0] if n['ch'] else None)
            elif k in ('CompoundAssignOperator',) and A.strip_casts(n['ch'][0]).get('d') == d:
                out.append(None)
            elif k == 'UnaryOperator' and (n.get('op', '').startswith('pre') or n.get('op', '').startswith('post')) and A.strip_casts(n['ch'][0]).get('d') == d:
                out.append(None)
            elif k in A.CALL_KINDS:
                for a in n.args():
                    a0 = A.strip_casts(a)
                    if a0['k'] == 'UnaryOperator' and a0.get('op') == '&' and A.strip_casts(a0['ch'][0]).get('d') == d:
                        out.append(None)
                    elif a0['k'] == 'DeclRefExpr' and a0.get('d') == d and 'm' in ''.join(A.param_kinds(n) or []):
                        # passed where a mutable reference may be taken: be conservative
                        kinds = A.param_kinds(n)
                        idx = n.args().index(a)
                        if idx < len(kinds) and kinds[idx] in ('mref', 'mptr', 'mptr?'):
                            out.append(None)
    return out


def _pure_in_locals(fn, e):
    """the value of e depends only on locals/parameters, literals, arithmetic, and const member calls on a receiver that is a const-reference (or by-value) parameter or a const local"""
    for x in e.walk():
        k = x['k']
        if k in ('DeclRefExpr', 'IntegerLiteral', 'CharacterLiteral', 'CXXBoolLiteralExpr', 'FloatingLiteral', 'ParenExpr', 'ConditionalOperator', 'StringLiteral') or k.endswith('CastExpr'):
            if k == 'DeclRefExpr' and x.get('dk') not in (None, 'Var', 'ParmVar', 'EnumConstant'):
                return False
            continue
        if k == 'BinaryOperator' and x.get('op') not in A.ASSIGN_OPS:
            continue
        if k == 'UnaryOperator' and x.get('op') in ('-', '+', '!', '~'):
            continue
        if k == 'MemberExpr' and x.parent is not None and x.parent['k'] == 'CXXMemberCallExpr' and x.parent['ch'] and x.parent['ch'][0] is x:
            continue          # the callee expression of a member call (judged with the call)
        if k == 'CXXMemberCallExpr' and x.get('cm') and not x.get('virt'):
            rc = x.receiver()
            r0 = A.strip_casts(rc) if rc is not None else None
            if r0 is not None and r0['k'] == 'DeclRefExpr' and r0.get('dk') in ('ParmVar', 'Var', None) and r0.type().startswith('const '):
                continue
            return False
        return False
    return True


def _pure_value(fn, e):
    """the value of e is a function of locals/parameters only: literals, operators, const member calls on locals / parameters, construction of value objects from such values"""
    for x in e.walk():
        k = x['k']
        if k in ('IntegerLiteral', 'CharacterLiteral', 'CXXBoolLiteralExpr', 'FloatingLiteral', 'StringLiteral', 'ParenExpr', 'ConditionalOperator', 'GNUNullExpr', 'CXXNullPtrLiteralExpr',
                 'MaterializeTemporaryExpr', 'CXXBindTemporaryExpr', 'ExprWithCleanups', 'CXXDefaultArgExpr') or k.endswith('CastExpr'):
            continue
        if k == 'DeclRefExpr':
            if x.get('dk') in (None, 'Var', 'ParmVar', 'EnumConstant'):
                continue
            if x.get('dk') in ('CXXMethod', 'Function') and x.parent is not None and x.parent.is_call():
                continue
            return False
        if k == 'BinaryOperator' and x.get('op') not in A.ASSIGN_OPS:
            continue
        if k == 'UnaryOperator' and x.get('op') in ('-', '+', '!', '~'):
            continue
        if k == 'MemberExpr' and x.parent is not None and x.parent['k'] == 'CXXMemberCallExpr' and x.parent['ch'] and x.parent['ch'][0] is x:
            continue
        if k in ('CXXMemberCallExpr', 'CXXOperatorCallExpr') and x.get('cm') and not x.get('virt'):
            rc = x.receiver() if k == 'CXXMemberCallExpr' else (x['ch'][1] if len(x['ch']) > 1 else None)
            r0 = A.strip_casts(rc) if rc is not None else None
            if r0 is not None and r0['k'] == 'DeclRefExpr' and r0.get('dk') in ('ParmVar', 'Var', None):
                continue
            return False
        if k in ('CXXConstructExpr', 'CXXTemporaryObjectExpr', 'CXXFunctionalCastExpr') and re.search(r'^muscle::(String|Point|Rect)::', x.get('q') or 'muscle::String::'):
            continue
        return False
    return True


def _idem_effects(fn, b, facts):
    """effects of block b as a list of (decl id of the local assigned, rhs node) when every effect of the block is an assignment of a pure value to a local; None if the block can do anything else"""
    cache = getattr(fn, '_idem', None)
    if cache is None:
        cache = fn._idem = {}
    if b in cache:
        return cache[b]
    out = []
    for n in stmt_nodes_of_block(fn, b):
        k = n['k']
        if k == 'BinaryOperator' and n.get('op') == '=':
            l = A.strip_casts(n['ch'][0])
            if l['k'] == 'DeclRefExpr' and l.get('dk') in (None, 'Var') and l.get('d') is not None and not l.type().rstrip().endswith('&') and _pure_value(fn, n['ch'][1]):
                out.append((l['d'], n['ch'][1]))
                continue
            out = None
            break
        if k in ('BinaryOperator',) and n.get('op') not in A.ASSIGN_OPS:
            continue
        if k == 'CompoundAssignOperator' or (k == 'UnaryOperator' and (n.get('op', '').startswith('pre') or n.get('op', '').startswith('post'))):
            out = None
            break
        if k == 'VarDecl':
            t = fn.types[n['t']] if n.get('t') is not None and n['t'] >= 0 else ''
            if t.rstrip().endswith(('&', '*')) and n['ch'] and not _pure_value(fn, n['ch'][0]):
                out = None
                break
            if n['ch'] and not _pure_value(fn, n['ch'][0]):
                out = None
                break
            out.append((n.get('d'), n['ch'][0] if n['ch'] else None))
            continue
        if k == 'CXXOperatorCallExpr' and (n.get('q') or '').endswith('::operator=') and len(n['ch']) >= 3:
            l = A.strip_casts(n['ch'][1])
            if l['k'] == 'DeclRefExpr' and l.get('dk') in (None, 'Var') and l.get('d') is not None and not l.type().rstrip().endswith(('&', '*')) and _pure_value(fn, n['ch'][2]) \
                    and re.search(r'^muscle::String::', n.get('q') or ''):
                out.append((l['d'], n['ch'][2]))
                continue
            out = None
            break
        if k in A.CALL_KINDS:
            if _pure_value(fn, n):
                continue
            out = None
            break
        if k in ('CXXNewExpr', 'CXXDeleteExpr', 'ReturnStmt', 'CXXThrowExpr'):
            out = None
            break
    cache[b] = out
    return out


def find_idempotent_cycle(fn, facts, header, body, limit=3000):
    """a cycle header -> header inside the loop all of whose effects are assignments x_i = E_i of pure values to locals, where no E_i reads an x_j that is assigned at or after position i
    on the cycle (so nothing is carried from one round to the next).  -> (blocks, names of the locals recomputed) or None"""
    ok_blocks = set(b for b in body if _idem_effects(fn, b, facts) is not None)
    if header not in ok_blocks:
        return None
    count = [0]
    found = [None]

    def check(path):
        asg = []
        for b in path:
            asg.extend(_idem_effects(fn, b, facts))
        if not asg:
            return None        # a cycle without any effect is the business of find_cycle (exit-condition inputs), not of this test
        for i, (d, e) in enumerate(asg):
            later = set(dd for (dd, _) in asg[i:])
            if e is not None and any(x['k'] == 'DeclRefExpr' and x.get('d') in later for x in e.walk()):
                return None
        return sorted(set(local_name(fn, d) or str(d) for (d, _) in asg))

    def rec(b, path, seen):
        if found[0] is not None or count[0] > limit:
            return
        for s_ in fn.blocks[b].succ:
            if s_ is None or s_ < 0 or s_ not in body:
                continue
            if s_ == header:
                count[0] += 1
                names = check(path)
                if names:
                    found[0] = (list(path), names)
                    return
                continue
            if s_ in seen or s_ not in ok_blocks:
                continue
            rec(s_, path + [s_], seen | set([s_]))
    rec(header, [header], set([header]))
    return found[0]


def analyse_function(fn, facts):
    """yields dicts describing each loop: header line, exit conditions, verdict"""
    out = []
    if not fn.blocks:
        return out
    loops = C.natural_loops(fn)
    for header, body in loops:
        conds = loop_exit_conditions(fn, header, body)
        hl = loop_line(fn, header, body)
        rec = {'fn': fn, 'header': header, 'line': hl, 'nconds': len(conds), 'verdict': 'ok', 'why': None}
        if not conds:
            # no exit edge guarded by a condition: `while(true)` with returns handled through conds on inner blocks;
            # a loop with no exit at all is an intentional forever-loop (event loop) — informational
            has_exit = any((s is not None and s >= 0 and s not in body) for b in body for s in fn.blocks[b].succ)
            rec['verdict'] = 'info-noexitcond' if has_exit else 'info-forever'
            out.append(rec)
            continue
        inputs = set()
        outs = set()
        opaque_cond = False
        cond_calls = []
        for (c, b) in conds:
            i, o, oq, eff = cond_inputs(c, facts)
            inputs |= i
            outs |= o
            opaque_cond = opaque_cond or oq
            cond_calls.extend(x for x in c.walk() if x['k'] == 'CXXMemberCallExpr')
        inputs -= outs
        rec['inputs'] = sorted(map(str, inputs))
        if opaque_cond:
            rec['verdict'] = 'ok-opaque-test'
            out.append(rec)
            continue
        # pointee objects: a local pointer/reference that is an input also stands for its pointee, which heap-opaque
        # calls may modify.  Locals of scalar type are only modified by explicit writes.
        heap_inputs = set(l for l in inputs if l[0] in HEAPY)
        ptr_inputs = set()
        for l in inputs:
            if l[0] == 'v':
                t = local_type(fn, l[1])
                if ('*' in t) or ('&' in t) or not A.is_integral_type(t):
                    ptr_inputs.add(l)
        # derived inputs: a scalar local that the loop only ever recomputes as a pure function of other locals (x = s.IndexOf(c, y + 1), s a const reference) makes no progress by
        # itself — recomputing it from unchanged arguments gives the same value.  Such an input is replaced by the locals it is computed from: progress must come from one of THOSE.
        derived = {}
        for _round in range(3):
            changed_ = False
            for l in sorted(inputs, key=str):
                if l[0] != 'v' or l in derived or not A.is_integral_type(local_type(fn, l[1]).replace('const ', '').strip() or 'x'):
                    continue
                ws = _writes_in_loop(fn, body, l[1])
                if not ws or not all(w is not None and _pure_in_locals(fn, w) for w in ws):
                    continue
                srcs = set()
                for w in ws:
                    srcs |= set(r for r in A.reads(w) if r[0] == 'v' and r != l)
                if not srcs:
                    continue
                derived[l] = srcs
                inputs = (inputs - set([l])) | srcs
                changed_ = True
            if not changed_:
                break
        if derived:
            rec['inputs'] = sorted(map(str, inputs))
            rec['derived'] = dict((str(k), sorted(map(str, v))) for k, v in derived.items())
        # blocking blocks: blocks of the loop in which progress may happen
        blocking = set()
        for b in body:
            mod, opaque, calls = block_effects(fn, b, facts)
            if mod & inputs:
                blocking.add(b)
            elif opaque and (heap_inputs or ptr_inputs):
                blocking.add(b)
            elif (('this',) in mod) and heap_inputs:
                blocking.add(b)
        # is there a cycle header -> header inside the loop avoiding all blocking blocks?
        if header in blocking:
            free_cycle = None
        else:
            free_cycle = find_cycle(fn, header, body, blocking, inputs)
        if free_cycle:
            rec['verdict'] = 'no-progress'
            rec['why'] = 'cycle through blocks %s changes none of the exit-condition inputs %s' % (free_cycle, rec['inputs'])
            rec['lines'] = sorted(set(block_lines(fn, free_cycle)))
            out.append(rec)
            continue
        # a cycle that only RE-computes locals from values it does not change repeats itself for ever once it has been taken (the state after one round is a fixpoint of the round and the
        # branch decisions are functions of that state)
        idem = find_idempotent_cycle(fn, facts, header, body)
        if idem:
            rec['verdict'] = 'no-progress'
            rec['why'] = 'cycle through blocks %s only recomputes %s from values that the cycle itself does not change: once taken it repeats for ever' % (idem[0], idem[1])
            rec['lines'] = sorted(set(block_lines(fn, idem[0])))
            out.append(rec)
            continue
        # cursor consistency
        cur = cursor_check(fn, facts, header, body, conds, inputs, blocking)
        if cur:
            rec['verdict'] = 'cursor-mismatch'
            rec['why'] = cur['why']
            rec['cursor'] = cur
        out.append(rec)
    return out


def local_type(fn, d):
    for p in fn.params:
        if p['d'] == d:
            return fn.ptype(p)
    cache = getattr(fn, '_ltypes', None)
    if cache is None:
        cache = fn._ltypes = {}
        for n in fn.walk():
            if n['k'] == 'VarDecl':
                cache[n['d']] = n.type()
    return cache.get(d, '')


def local_name(fn, d):
    for p in fn.params:
        if p['d'] == d:
            return p['n']
    for n in fn.walk():
        if n['k'] == 'VarDecl' and n['d'] == d:
            return n['n']
    return '?'


def loop_line(fn, header, body):
    blk = fn.blocks[header]
    for e in blk.elems:
        if isinstance(e, int) and e in fn.nodes:
            return fn.nodes[e].get('l')
    for b in sorted(body):
        t = fn.blocks[b].term
        if t is not None and t in fn.nodes:
            return fn.nodes[t].get('l')
    return fn.line


def block_lines(fn, blocks):
    out = []
    for b in blocks:
        for e in fn.blocks[b].elems:
            if isinstance(e, int) and e in fn.nodes:
                l = fn.nodes[e].get('l')
                if l:
                    out.append(l)
    return out


def cond_key(n):
    """(canonical structural key, polarity) of a branch condition; `!x` and `x == false` flip polarity"""
    pol = True
    while True:
        if n['k'] == 'UnaryOperator' and n.get('op') == '!':
            pol = not pol
            n = n['ch'][0]
            continue
        if n['k'] == 'BinaryOperator' and n.get('op') in ('==', '!=') and len(n['ch']) == 2 and n['ch'][1]['k'] == 'CXXBoolLiteralExpr':
            v = bool(n['ch'][1].get('v'))
            if (n['op'] == '==') != v:
                pol = not pol
            n = n['ch'][0]
            continue
        break
    return canon(n), pol


def canon(n):
    k = n['k']
    if k == 'DeclRefExpr':
        return 'v%s' % n['d'] if 'd' in n else 'g:%s' % n.get('q')
    if 'v' in n and k in ('IntegerLiteral', 'CXXBoolLiteralExpr', 'CharacterLiteral'):
        return '#%s' % n['v']
    head = k + ':' + str(n.get('op', '')) + ':' + str(n.get('q', '')) + ':' + str(n.get('n', ''))
    return head + '(' + ','.join(canon(c) for c in n['ch']) + ')'


def find_cycle(fn, header, body, blocking, inputs=None):
    """a path header -> ... -> header inside body avoiding blocking blocks, or None.
    Branch correlation: along a progress-free path none of the exit-condition inputs changes, so two
    branches on structurally identical conditions that read only such inputs must be taken the same way."""
    from . import ast as A
    inputs = inputs or set()

    def atom_of(b):
        blk = fn.blocks[b]
        if blk.cond is None or blk.cond not in fn.nodes or len(blk.succ) != 2 or blk.tk == 'SwitchStmt':
            return None
        c = fn.nodes[blk.cond]
        rd = A.reads(c)
        if not rd or not rd <= inputs:
            return None
        for x in c.walk():
            if x['k'] in A.CALL_KINDS and not x.get('cm'):
                return None
            if x['k'] in ('BinaryOperator', 'CompoundAssignOperator') and x.get('op') in A.ASSIGN_OPS:
                return None
            if x['k'] == 'UnaryOperator' and (x.get('op', '').startswith('pre') or x.get('op', '').startswith('post')):
                return None
        return cond_key(c)

    def const_step(b, env):
        """mini constant propagation over the block: locals assigned literal constants"""
        env = dict(env)
        for e in fn.blocks[b].elems:
            if not isinstance(e, int) or e not in fn.nodes:
                continue
            n = fn.nodes[e]
            k = n['k']
            if k == 'VarDecl':
                if n['ch'] and 'v' in n['ch'][0]:
                    env[n['d']] = n['ch'][0]['v']
                else:
                    env.pop(n['d'], None)
            elif k in ('BinaryOperator', 'CompoundAssignOperator') and n.get('op') in A.ASSIGN_OPS:
                l = A.strip_casts(n['ch'][0])
                if l['k'] == 'DeclRefExpr' and 'd' in l:
                    if n['op'] == '=' and 'v' in n['ch'][1]:
                        env[l['d']] = n['ch'][1]['v']
                    else:
                        env.pop(l['d'], None)
            elif k == 'UnaryOperator' and (n.get('op', '').startswith('pre') or n.get('op', '').startswith('post')):
                l = A.strip_casts(n['ch'][0])
                if l['k'] == 'DeclRefExpr' and 'd' in l:
                    env.pop(l['d'], None)
            elif k in A.CALL_KINDS:
                for a, pk in zip(n.args(), A.param_kinds(n)):
                    if pk in ('mref', 'mptr', 'unknown'):
                        r = A.root_loc(a)
                        if r[0] == 'v':
                            env.pop(r[1], None)
        return env

    def const_truth(b, env):
        blk = fn.blocks[b]
        if blk.cond is None or blk.cond not in fn.nodes or len(blk.succ) != 2:
            return None
        c = fn.nodes[blk.cond]
        if c['k'] != 'BinaryOperator' or c.get('op') not in ('<', '<=', '>', '>=', '==', '!='):
            return None
        l, r = A.strip_casts(c['ch'][0]), A.strip_casts(c['ch'][1])
        def val(x):
            if 'v' in x:
                return x['v']
            if x['k'] == 'DeclRefExpr' and x.get('d') in env:
                return env[x['d']]
            return None
        lv, rv = val(l), val(r)
        if lv is None or rv is None:
            return None
        return {'<': lv < rv, '<=': lv <= rv, '>': lv > rv, '>=': lv >= rv, '==': lv == rv, '!=': lv != rv}[c['op']]

    seen = set()
    st = [(header, frozenset(), frozenset(), [header])]
    steps = 0
    while st:
        b, asg, envf, path = st.pop()
        steps += 1
        if steps > 20000:
            return path      # state budget exhausted (never reached on this code base): report conservatively
        at = atom_of(b)
        env = const_step(b, dict(envf))
        ct = const_truth(b, env)
        nenv = frozenset(env.items())
        for idx, s in enumerate(fn.blocks[b].succ):
            if s is None or s < 0 or s not in body:
                continue
            if ct is not None and (idx == 0) != ct:
                continue               # edge contradicts a locally known constant (e.g. first test of `for (n=0; n<3; ..)`)
            nasg = asg
            if at is not None:
                key, pol = at
                truth = (idx == 0) == pol
                d = dict(asg)
                if key in d:
                    if d[key] != truth:
                        continue       # contradictory edge: infeasible on a progress-free path
                else:
                    d[key] = truth
                    nasg = frozenset(d.items())
            if s == header:
                return path + [header]
            if s in blocking:
                continue
            stt = (s, nasg, nenv)
            if stt in seen:
                continue
            seen.add(stt)
            st.append((s, nasg, nenv, path + [s]))
    return None


def cursor_check(fn, facts, header, body, conds, inputs, blocking):
    """remove-or-advance idiom.  An exit condition contains a const call R.F(.., k, ..) with k a local integer
    passed by value (the cursor).  If some cycle makes progress *only* through non-const calls R.G(..) on the same
    receiver, then each such G with by-value integer arguments that are plain locals must be given k."""
    cursors = []
    for (c, b) in conds:
        for x in c.walk():
            if x['k'] != 'CXXMemberCallExpr' or not x.get('cm'):
                continue
            r = x.receiver()
            if r is None:
                continue
            rroot = A.root_loc(r)
            if rroot == ('tmp',):
                continue
            kinds = A.param_kinds(x, facts)
            for a, pk in zip(x.args(), kinds):
                a2 = A.strip_casts(a)
                if pk == 'val' and a2['k'] == 'DeclRefExpr' and 'd' in a2 and A.is_integral_type(a2.type()):
                    cursors.append((rroot, a2['d'], a2['n'], x))
    if not cursors:
        return None
    for (rroot, kd, kname, condcall) in cursors:
        # is the cursor advanced somewhere in the loop at all?  (otherwise it is not a cursor idiom)
        advanced = any(('v', kd) in block_effects(fn, b, facts)[0] for b in body)
        if not advanced:
            continue
        # blocks whose only relevant progress is a mutator call on rroot
        for b in body:
            mod, opaque, calls = block_effects(fn, b, facts)
            if ('v', kd) in mod:
                continue
            for m in calls:
                if m['k'] != 'CXXMemberCallExpr' or m.get('cm'):
                    continue
                r = m.receiver()
                if r is None or A.root_loc(r) != rroot:
                    continue
                kinds = A.param_kinds(m, facts)
                int_locals = []
                for a, pk in zip(m.args(), kinds):
                    a2 = A.strip_casts(a)
                    if pk == 'val' and a2['k'] == 'DeclRefExpr' and 'd' in a2 and A.is_integral_type(a2.type()):
                        int_locals.append(a2)
                if not int_locals:
                    continue
                if any(a2['d'] == kd for a2 in int_locals):
                    continue
                # the mutator is indexed by some other local.  Is that local changed inside the loop? then it may be a
                # second cursor — do not judge.
                others_mod = any(('v', a2['d']) in block_effects(fn, bb, facts)[0] for a2 in int_locals for bb in body)
                if others_mod:
                    continue
                # is there a cycle through this block that avoids all *other* progress?
                other_blocking = set(x for x in blocking if x != b)
                if b == header:
                    continue
                cyc = find_cycle_through(fn, header, body, other_blocking, b)
                if cyc:
                    return {'why': 'loop test %s uses cursor `%s`, but on the cycle through line %s the only progress is %s whose index argument is `%s` (not the cursor): '
                                   'if that call fails nothing changes and the loop never ends'
                                   % (condcall.text(), kname, m.get('l'), m.text(), int_locals[0]['n']),
                            'mutator': m, 'cursor': kname, 'arg': int_locals[0]['n'], 'line': m.get('l')}
    return None


def find_cycle_through(fn, header, body, blocking, via):
    """cycle header -> via -> header inside body avoiding `blocking` (via itself allowed)"""
    def reach(src, dst):
        seen = set()
        st = [s for s in C.succs(fn, src) if s in body and s not in blocking]
        st = [s for s in C.succs(fn, src) if s in body and (s not in blocking or s == dst)]
        while st:
            x = st.pop()
            if x == dst:
                return True
            if x in seen or x == header:
                continue
            seen.add(x)
            st.extend(s for s in C.succs(fn, x) if s in body and (s not in blocking or s == dst))
        return False
    if via in blocking:
        return None
    if reach(header, via) and reach(via, header):
        return [header, via, header]
    return None
