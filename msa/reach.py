"""Call-graph rules: R-REC (recursion must be depth-guarded or bounded by a guarded structure) and
R-CRASH (no abort reachable from untrusted-input entry points).  DESIGN 3.3."""
import re
from . import cfg as C
from . import ast as A
from .facts import AnalysisBroken

# Hubs cut out of the recursion graph.  Class-hierarchy analysis turns them into a 400..800-function
# strongly connected component that says nothing about input-driven recursion:
#  - logging (any function may log; log callbacks are virtual and reach file/ByteBuffer code again);
#    re-entrancy of the logger is not part of C02/C07.
#  - destructors (virtual destructor fan-out reaches every RefCountable subclass); teardown recursion is
#    bounded by the depth of the structure being destroyed, which the 'structure' families below cover.
CUT_RE = re.compile(r'^muscle::(Log[A-Za-z0-9]*|WarnOutOfMemory|Crash|PrintStackTrace|GetStackTrace|ExitWithoutCleanup)$|\(dtor\)$')


def is_cut(fx, fid):
    f = fx.funcs.get(fid)
    if f is None:
        return bool(re.search(r'D[012]Ev$', fid))
    return bool(CUT_RE.search(f.q))


def cut_succ(cg, fx):
    cache = getattr(cg, '_cut', None)
    if cache is None:
        cutset = set(fid for fid in set(cg.succ) | set(y for s in cg.succ.values() for y in s) if is_cut(fx, fid))
        cache = cg._cut = {x: set(y for y in ys if y not in cutset) for x, ys in cg.succ.items()}
    return cache


class SubGraph(object):
    def __init__(self, succ):
        self.succ = succ


def reach_cut(cg, fx, entries):
    succ = cut_succ(cg, fx)
    pred = {}
    st = []
    for r in entries:
        if r not in pred:
            pred[r] = None
            st.append(r)
    while st:
        x = st.pop()
        for y in succ.get(x, ()):
            if y not in pred:
                pred[y] = x
                st.append(y)
    return pred


def sccs_cut(cg, fx, nodes):
    from .callgraph import CallGraph
    g = CallGraph.__new__(CallGraph)
    g.succ = cut_succ(cg, fx)
    g.facts = fx
    return CallGraph.sccs(g, nodes)


# ------------------------------------------------------------------------------------------------
# guard recognisers

def call_targets(fx, cg, call):
    """ids a call node may invoke (virtual fan-out)"""
    t = call.get('fn')
    if not t:
        return set()
    out = set([t])
    if call.get('virt'):
        out |= fx.overriders().get(t, set())
    return out


def recursive_sites(fx, cg, f, scc):
    """call nodes in f whose possible targets lie in scc"""
    out = []
    for n in f.walk():
        if n['k'] in A.CALL_KINDS:
            if call_targets(fx, cg, n) & scc:
                out.append(n)
    return out


def cond_nodes_guarding(f, node):
    """[(cond node, truth)] dominating node"""
    out = []
    nid = node['i']
    p = f.pos(nid)
    if p is None:
        # node not a CFG element (should not happen with setAllAlwaysAdd); climb to parent
        for a in node.ancestors():
            p = f.pos(a['i'])
            if p is not None:
                break
    if p is None:
        return out
    for (c, truth) in C.guards_of_block(f, p[0]):
        cn = f.nodes.get(c)
        if cn is not None:
            out.append((cn, truth))
    return out


def nestcount_guard(f, call):
    """G1: the call is dominated by the true edge of `<NestCount>.GetCount() < LIMIT` and by the construction
    of a NestCountGuard on the same NestCount object.  Returns description or None."""
    guards = cond_nodes_guarding(f, call)
    for (cn, truth) in guards:
        for x in cn.walk():
            if x['k'] == 'CXXMemberCallExpr' and x.get('q') == 'muscle::NestCount::GetCount':
                # find the relational operator above it
                par = x.parent
                while par is not None and par['k'] not in ('BinaryOperator',):
                    par = par.parent
                if par is None or par.get('op') not in ('<', '<=', '>', '>=', '!=', '=='):
                    continue
                lim = [c for c in par['ch'] if c is not x and 'v' in c]
                if not lim:
                    continue
                op = par['op']
                left_is_count = x in list(par['ch'][0].walk())
                bounded_on = None
                if (op in ('<', '<=') and left_is_count) or (op in ('>', '>=') and not left_is_count):
                    bounded_on = True
                elif (op in ('>', '>=') and left_is_count) or (op in ('<', '<=') and not left_is_count):
                    bounded_on = False
                if bounded_on is None or bounded_on != truth:
                    continue
                counter = A.root_loc(x.receiver()) if x.receiver() is not None else None
                # a NestCountGuard on the same counter must dominate the call
                for v in f.walk():
                    if v['k'] == 'VarDecl' and 'NestCountGuard' in v.type() and v['ch']:
                        ctor = v['ch'][0]
                        if ctor.is_call() and ctor.args() and A.root_loc(ctor.args()[0]) == counter:
                            if C.dominates(f, v['i'], call['i']):
                                return 'NestCount %s %s %s on the %s edge + NestCountGuard at line %s' % (counter[-1], op, lim[0]['v'], truth, v.get('l'))
    return None


def depthparam_guard(f, call):
    """G2: an integral parameter p is passed on as p±k and the call is dominated by a comparison of p."""
    pids = {}
    for p in f.params:
        if A.is_integral_type(f.ptype(p)):
            pids[p['d']] = p['n']
    if not pids:
        return None
    passed = None
    for a in call.args():
        a2 = A.strip_casts(a)
        if a2['k'] == 'BinaryOperator' and a2.get('op') in ('-', '+'):
            l = A.strip_casts(a2['ch'][0])
            if l['k'] == 'DeclRefExpr' and l.get('d') in pids and 'v' in a2['ch'][1] and a2['ch'][1]['v'] != 0:
                passed = l['d']
    if passed is None:
        return None
    for (cn, truth) in cond_nodes_guarding(f, call):
        for x in cn.walk():
            if x['k'] == 'BinaryOperator' and x.get('op') in ('<', '<=', '>', '>=', '==', '!='):
                rd = A.reads(x)
                if ('v', passed) in rd and any('v' in c for c in x['ch']):
                    return 'depth parameter `%s` compared (%s) and passed on changed by a constant' % (pids[passed], x.text())
    return None


def singleshot_guard(f, call):
    """G3: the recursive call passes a null literal for a pointer parameter p of the same function, and p is dereferenced (or tested non-null) on every path to the call.
    In the callee p is null, so the call site cannot be reached again without going through that dereference: the recursion is at most one level deep."""
    if call.get('q') != f.q and (call.get('fn') is None or call.get('fn') != f.id):
        return None
    args = call.args()
    for k, prm in enumerate(f.params):
        if k >= len(args) or not f.ptype(prm).rstrip().endswith('*'):
            continue
        a = A.strip_casts(args[k])
        if not (a['k'] in ('GNUNullExpr', 'CXXNullPtrLiteralExpr') or a.get('v') == 0):
            continue
        d = prm['d']
        # (a) a dominating guard says p is non-null
        for (cn, truth) in cond_nodes_guarding(f, call):
            c0 = A.strip_casts(cn)
            if c0['k'] == 'DeclRefExpr' and c0.get('d') == d and truth:
                return 'single-shot: `%s` is tested non-null before the call, which passes NULL for it' % prm.get('n')
        # (b) p is dereferenced on every path to the call
        for x in f.walk():
            deref = (x['k'] == 'UnaryOperator' and x.get('op') == '*' and A.strip_casts(x['ch'][0]).get('d') == d and A.strip_casts(x['ch'][0])['k'] == 'DeclRefExpr') or \
                    (x['k'] == 'MemberExpr' and x.get('arrow') and x['ch'] and A.strip_casts(x['ch'][0]).get('d') == d and A.strip_casts(x['ch'][0])['k'] == 'DeclRefExpr')
            if deref:
                pos = x
                while pos is not None and f.pos(pos['i']) is None:
                    pos = pos.parent
                if pos is not None and C.dominates(f, pos['i'], call['i']):
                    return 'single-shot: `%s` is dereferenced (line %s) on every path to the call, which passes NULL for it' % (prm.get('n'), x.get('l'))
    return None


def guard_of(f, call):
    return nestcount_guard(f, call) or depthparam_guard(f, call) or singleshot_guard(f, call)


# ------------------------------------------------------------------------------------------------
# Frozen family table: SCCs that are *not* required to carry their own depth guard, each confirmed by reading.
# (anchor-name regex, class, reason).  First match on any member name wins.
FAMILIES = [
    # --- self-alias / overload forwarding: the recursive call is taken at most once (argument copied to a local
    #     because it aliased the container) or forwards to the same name with a normalised argument.
    (r'^muscle::Queue::(AddTailAndGet|AddHeadAndGet|AddTailMulti|AddHeadMulti|InsertItemAt|InsertItemsAt)$', 'self-alias',
     'item located inside this container is copied to a temporary, then the same method is called once with the copy'),
    (r'^muscle::Hashtable(Mid|Base)?::', 'self-alias', 'key/value inside this table is copied to a temporary, then PutAux is re-entered once; EnsureSize re-inserts into a fresh table of sufficient size'),
    (r'^muscle::String::(Replace|InsertCharsAux|WithReplacements)$', 'self-alias', 'argument aliasing this String is copied, then the method is re-entered once'),
    (r'^muscle::ByteBuffer::AppendBytes$', 'self-alias', 'source inside this buffer is copied to a temporary, re-entered once'),
    (r'^muscle::Message::FindData$', 'self-alias', 'forwards once to the sibling overload'),
    (r'^muscle::IPAddress::IsMulticast$', 'self-alias', 'IPv4-mapped address is unmapped and re-tested once'),
    (r'^muscle::BitChord::', 'bounded', 'word index decreases to zero'),
    (r'^muscle::ImmutableHashtablePool::GetWithAux$', 'self-alias', 're-entered once after the cache has been trimmed'),
    (r'^muscle::Queue::(Merge|Sort|Lower|Upper)$', 'bounded', 'in-place merge sort: ranges shrink, depth O(log n)'),
    (r'^muscle::GetNetworkInterfaceInfos$', 'bounded', 'retry with a bigger buffer, not input driven'),
    # --- chains built by the program, not by received bytes
    (r'^muscle::(MultiDataIO|ProxyDataIO|ZLibDataIO|ZLibDataIOImp|PacketizedProxyDataIO|StressTestParserProxyDataIO|FileDataIO|DataIO|AsyncDataIO)::', 'program-structure',
     'DataIO decorators forward to their child DataIO: depth = number of stacked proxies constructed by the program'),
    (r'^muscle::(ProxySessionFactory|ProxyIOGateway|AbstractMessageIOGateway|MessageIOGateway|AbstractGatewayMessageReceiver|MiniPacketTunnelIOGateway|PacketTunnelIOGateway|WebSocketMessageIOGateway|RawDataMessageIOGateway|PlainTextMessageIOGateway|ScratchProxyReceiver|ThreadSupervisorSession|ThreadWorkerSession)::', 'program-structure',
     'gateway/factory decorators forward to their slave: depth = number of stacked proxies constructed by the program'),
    (r'^muscle::PulseNode::', 'program-structure', 'pulse-node tree is built by the program (sessions, factories), not by received bytes'),
    (r'^muscle::Thread::WaitForNextMessageAux$', 'bounded', 're-entered once after the wake-up socket has been drained'),
    # --- bounded by the depth of the server node tree, which DataNode::SetParent limits to MUSCLE_MAX_NODE_DEPTH
    (r'^muscle::DataNode::(RemoveChild|FindFirstMatchingNode|CalculateChecksum|Print|GetNodePath)', 'node-depth', 'recursion over DataNode children; depth bounded by MUSCLE_MAX_NODE_DEPTH (side obligation NODE-DEPTH-LIMIT)'),
    (r'^muscle::StorageReflectSession::NodePathMatcher::(DoTraversalAux|CheckChildForTraversal|DoDirectChildLookup)$', 'node-depth', 'pattern-directed traversal descends one node level per call (side obligation NODE-DEPTH-LIMIT)'),
    (r'^muscle::StorageReflectSession::(SaveNodeTreeToMessage|CloneDataNodeSubtree|RestoreNodeTreeFromMessage)', 'node-depth', 'descends the node tree / a tree-shaped Message with a maxDepth parameter'),
    # --- bounded by the nesting depth of an in-memory Message (see finding F5 for Messages that arrive from the wire)
    (r'^muscle::Message::(Flatten|FlattenedSize|TemplatedFlatten|TemplatedFlattenedSize|TemplateHashCode64Aux|CreateMessageTemplate|CalculateChecksum|Print|IsEqualTo|operator==|AreContentsEqual)', 'message-nesting',
     'descends one level of Message nesting per call; the depth of a Message in memory is what R-REC demands the parsers to bound'),
    (r'^muscle::(Message::(Clear|operator=)|ConstRef::|Ref::|ObjectPool::|muscle_private::MessageField::(operator=|EnsurePrivate|\(ctor\)))', 'message-nesting',
     'release/copy of nested reference-counted structures: depth = nesting depth of the structure released'),
    (r'^muscle::(And|Or|Nand|Nor|Xor|MinimumThreshold|MaximumThreshold|Message|Multi)QueryFilter::(Matches|SaveToArchive)$|^muscle::ThresholdMaxAux$', 'message-nesting',
     'filter trees are built from archive Messages one filter per nesting level (SetFromArchive), so their depth is the archive\'s nesting depth'),
    (r'^muscle::((MaximumThreshold|MinimumThreshold|Message|Multi)QueryFilter::SetFromArchive|QueryFilterFactory::CreateQueryFilter|MuscleQueryFilterFactory::CreateQueryFilter)$', 'message-nesting',
     'one filter is built per nesting level of the archive Message; depth = nesting depth of that (already parsed) Message'),
    (r'^muscle::(DataNode::(Reset|operator=)|Flattenable::FlattenToByteBuffer|GetByteBufferFromPool|GetMessageFromPool|Hashtable::operator=|muscle_private::HashtableIteratorImp::|muscle_private::MessageField::|FlatCountableRefDataArray::|DataFlattenerHelper::WriteFlat)', 'message-nesting',
     'copy/release/serialisation helpers of nested reference-counted structures: one level of nesting per cycle'),
    (r'^(FreeMMessageField|MMClearMessage|MMFreeMessage|MMPrintToStream|MMAreMessagesEqual|MMCloneMessage|MMGetFlattenedSize|MMFlattenMessage|GetMMessageFieldFlattenedSize)', 'message-nesting',
     'C mini message: descends one level of nesting per call'),
]


def family_of(names):
    """every member of the component must belong to a frozen family; the class reported is that of the first member's family.
    A member that is in no family but is a method of the same class as a member that is (a helper split off one of the frozen methods: extract-method, split-function) is taken to
    belong to that member's family: the families are arguments about what a class's recursion descends along, not about how many methods it is spread over."""
    def fam(n):
        for (rx, cls, reason) in FAMILIES:
            if re.search(rx, n):
                return (cls, reason, rx)
        return None

    def klass(n):
        return n.rsplit('::', 1)[0] if '::' in n else ''
    hits = {}
    for n in names:
        hits[n] = fam(n)
    by_class = {}
    for n, h in hits.items():
        if h is not None and klass(n) not in ('', 'muscle', 'muscle::muscle_private'):
            by_class.setdefault(klass(n), h)
    for n in names:
        if hits[n] is None and klass(n) in by_class:
            hits[n] = by_class[klass(n)]
    if any(h is None for h in hits.values()):
        return None
    first = hits[names[0]]
    classes = set(h[0] for h in hits.values())
    cls = 'message-nesting' if 'message-nesting' in classes else ('node-depth' if 'node-depth' in classes else first[0])
    return cls, first[1], first[2]


def node_depth_limit_obligation(res, fx, rule):
    """NODE-DEPTH-LIMIT: DataNode::SetParent refuses a parent whose depth has reached the limit: there is a comparison
    `<parent>->_depth >= CONST` whose limit-reached edge cannot reach any write of _parent/_depth, and that comparison is
    evaluated whenever the parent parameter is non-null (its only dominating guards test that parameter)."""
    fs = fx.fn('muscle::DataNode::SetParent', required=False)
    key = '%s|muscle::DataNode::SetParent|node-depth-limit' % rule
    msg = 'DataNode::SetParent no longer refuses parents at the maximum depth: node-tree recursion (traversals, RemoveChild, subscriptions) becomes unbounded'
    if not fs:
        res.ob(rule, 'reflector/DataNode.cpp', 'NODE-DEPTH-LIMIT', False, function='muscle::DataNode::SetParent', key=key, message='DataNode::SetParent not found')
        return
    f = fs[0]
    pdecls = set(p['d'] for p in f.params)
    ok = False
    how = None
    for blk in f.blocks.values():
        if blk.cond is None or blk.cond not in f.nodes or len(blk.succ) != 2:
            continue
        x = f.nodes[blk.cond]
        forms = [(l, op, r) for (l, op, r) in A.rel_forms(x, True) if op in ('>=', '>', '<', '<=') and any(y['k'] == 'MemberExpr' and y.get('n') == '_depth' for y in l.walk()) and 'v' in r]
        if not forms:
            continue
        l, op, r = forms[0]
        if A.root_loc(l)[0] != 'v' or A.root_loc(l)[1] not in pdecls:
            continue
        limit_edge = 0 if op in ('>=', '>') else 1
        tgt = blk.succ[limit_edge]
        if tgt is None or tgt < 0:
            continue
        reach = C.reachable_blocks(f, tgt)
        writes = False
        for b in reach:
            for e in f.blocks[b].elems:
                n = f.nodes.get(e) if isinstance(e, int) else None
                if n is not None and n['k'] == 'BinaryOperator' and n.get('op') == '=':
                    lhs = A.strip_casts(n['ch'][0])
                    if lhs['k'] == 'MemberExpr' and lhs.get('n') in ('_parent', '_depth'):
                        writes = True
        if writes:
            continue
        # guards of the comparison: only non-null tests of the parent parameter
        gs = C.guards_of_block(f, blk.b)
        only_param = True
        for (c, truth) in gs:
            cn = f.nodes.get(c)
            rd = A.reads(cn) if cn is not None else set()
            if not rd or not all(loc[0] == 'v' and loc[1] in pdecls for loc in rd) or not truth:
                only_param = False
        if only_param:
            ok = True
            how = '%s at line %s: limit edge returns without writing _parent/_depth; evaluated whenever the parent argument is non-null' % (x.text(), x.get('l'))
    res.ob(rule, f.where(), 'NODE-DEPTH-LIMIT: DataNode::SetParent refuses to attach below a parent whose depth reached the constant limit', ok, how=how,
           function=f.q, key=key, message=msg)


def rec_rule(res, fx, cg, entries, reach_all, rule, anchor_files=None, side_nesting=False):
    res.rule(rule, 'every recursive call-graph component (logging and destructor hubs cut) reachable from the entry set either carries a depth guard on its recursive calls '
                   '(NestCount test + NestCountGuard, or a decremented depth parameter that is tested), or belongs to a frozen family that is bounded by a structure whose depth is itself limited')
    reach = reach_cut(cg, fx, entries)
    sccs = sccs_cut(cg, fx, reach.keys())
    seen = set()
    n_info = 0
    used_node_depth = False
    used_msg_nesting = False
    for comp in sorted(sccs, key=lambda c: sorted(c)[0]):
        comp = set(comp)
        names = tuple(sorted(set(fx.funcs[x].q if x in fx.funcs else x for x in comp)))
        if names in seen:
            continue
        seen.add(names)
        files = set(fx.funcs[x].file for x in comp if x in fx.funcs)
        in_anchor = anchor_files is None or any(any(re.search(a, fl) for a in anchor_files) for fl in files)
        # 1. try to find a real guard
        guarded_by = None
        for fid in sorted(comp):
            f = fx.funcs.get(fid)
            if f is None or not f.full:
                continue
            sites = recursive_sites(fx, cg, f, comp)
            if not sites:
                continue
            gs = [guard_of(f, s) for s in sites]
            if all(gs):
                # removing f must break every cycle of the component
                rest = comp - set(x for x in comp if x in fx.funcs and fx.funcs[x].q == f.q)
                rest_ok = True
                if has_cycle(cut_succ(cg, fx), rest):
                    # what remains cyclic after removing the guarded function must consist of frozen families only
                    for sub in sccs_cut(cg, fx, rest):
                        subnames = tuple(sorted(set(fx.funcs[x].q if x in fx.funcs else x for x in sub)))
                        if family_of(subnames) is None:
                            rest_ok = False
                if rest_ok:
                    guarded_by = (f, gs[0], len(sites))
                    break
        where = None
        f0 = fx.funcs.get(sorted(comp)[0])
        where = '%s:%s' % (f0.file, f0.line) if f0 else '?'
        label = ' + '.join(n.split('::')[-1] if len(names) > 3 else n for n in names[:6]) + (' …(%d)' % len(names) if len(names) > 6 else '')
        if guarded_by:
            f, g, ns = guarded_by
            res.ob(rule, f.where(), 'recursion {%s} is depth-guarded' % label, True, how='%d recursive call site(s) in %s guarded: %s' % (ns, f.q, g), function=f.q)
            continue
        fam = family_of(names)
        if fam:
            cls, reason, rx = fam
            if cls == 'node-depth':
                used_node_depth = True
            if cls == 'message-nesting' and in_anchor:
                used_msg_nesting = True
            if in_anchor:
                res.ob(rule, where, 'recursion {%s} is bounded' % label, True, how='frozen family [%s]: %s' % (cls, reason), function=names[0], nontrivial=False)
            else:
                n_info += 1
            continue
        if not in_anchor:
            n_info += 1
            res.info(rule, where, 'recursion {%s} outside the anchor files, not judged' % label)
            continue
        # unguarded, unclassified recursion in the anchor files
        anchor = pick_anchor(names)
        path = [cg.name(x) for x in cg.path(reach, sorted(comp)[0])]
        res.ob(rule, where, 'recursion {%s} is depth-guarded' % label, False, function=anchor,
               key='%s|%s|unguarded-recursion' % (rule, anchor),
               message='recursive component {%s} reachable from the entry set has no depth guard on its recursive calls and is not a frozen bounded family: '
                       'input that nests deeply enough overflows the stack' % ', '.join(names[:8]),
               detail={'members': list(names), 'entry_path': path, 'members_outside_any_frozen_family': [n for n in names if family_of((n,)) is None]})
    if used_node_depth:
        node_depth_limit_obligation(res, fx, rule)
    if used_msg_nesting and side_nesting:
        message_nesting_limit_obligation(res, fx, cg, rule)
    res.extra.setdefault('recursion', {})[rule] = {'components': len(seen), 'outside_anchor_or_listed_elsewhere': n_info}


def message_nesting_limit_obligation(res, fx, cg, rule):
    """MESSAGE-NESTING-LIMIT: the families classified 'message-nesting' are bounded only if the depth of every Message that reaches them is bounded,
    i.e. if the parser that builds received Messages limits nesting: the recursive component of Message::Unflatten must be depth-guarded."""
    ents = [f.id for f in fx.fn('muscle::Message::Unflatten', full=False)]
    reach = reach_cut(cg, fx, ents)
    comp = None
    for c in sccs_cut(cg, fx, reach.keys()):
        if set(c) & set(ents):
            comp = set(c)
    guarded = False
    how = None
    if comp is None:
        guarded = True
        how = 'Message::Unflatten is not recursive'
    else:
        for fid in sorted(comp):
            f = fx.funcs.get(fid)
            if f is None or not f.full:
                continue
            sites = recursive_sites(fx, cg, f, comp)
            if sites and all(guard_of(f, s) for s in sites):
                guarded = True
                how = 'recursive calls in %s are depth-guarded' % f.q
    f0 = fx.funcs.get(ents[0])
    res.ob(rule, f0.where() if f0 else 'message/Message.cpp', 'MESSAGE-NESTING-LIMIT: received Messages have bounded nesting depth (the recursion of Message::Unflatten is depth-guarded)', guarded, how=how,
           function='muscle::Message::Unflatten', key='%s|muscle::Message::Unflatten|nesting-limit' % rule,
           message='recursion over nested Messages (flatten, size, checksum, release, archived filters) is bounded only by the nesting depth of the Message, and Message::Unflatten accepts any depth: '
                   'a client that sends a Message nested deeply enough overflows the server\'s stack')


def pick_anchor(names):
    pref = ['muscle::Message::Unflatten', 'muscle::Message::TemplatedUnflatten', 'MMUnflattenMessage', 'muscle::QueryFilterFactory::CreateQueryFilter',
            'muscle::StorageReflectSession::MessageReceivedFromGateway', 'muscle::StorageReflectSession::NodeChangedAux']
    for p in pref:
        if p in names:
            return p
    return names[0]


def has_cycle(succ, nodes):
    nodes = set(nodes)
    color = {}
    for r in nodes:
        if r in color:
            continue
        st = [(r, iter([y for y in succ.get(r, ()) if y in nodes]))]
        color[r] = 1
        while st:
            v, it = st[-1]
            adv = False
            for w in it:
                if color.get(w) == 1:
                    return True
                if w not in color:
                    color[w] = 1
                    st.append((w, iter([y for y in succ.get(w, ()) if y in nodes])))
                    adv = True
                    break
            if not adv:
                color[v] = 2
                st.pop()
    return False


# ------------------------------------------------------------------------------------------------
CRASH_FUNCS = ('muscle::Crash', 'abort', 'exit', '_exit', '_Exit', 'muscle::ExitWithoutCleanup', '__assert_fail', 'quick_exit')


def crash_calls(f):
    out = []
    for n in f.walk():
        if n['k'] == 'CallExpr' and n.get('q') in CRASH_FUNCS:
            out.append(n)
    return out


def postdominates_entry(f, node):
    """the call is executed on every path from the function entry that returns or aborts: i.e. there is no path
    entry -> exit avoiding the call's block"""
    p = f.pos(node['i'])
    if p is None:
        for a in node.ancestors():
            p = f.pos(a['i'])
            if p:
                break
    if p is None:
        return False
    r = C.reachable_blocks(f, f.entry, avoid_blocks=(p[0],))
    return f.exit not in r


def crash_rule(res, fx, cg, entries, reach, rule, taint_entry=False, tainted_pred=None, flatten_side=True):
    """(a) a function whose body unconditionally aborts must not be reachable from the entries (class-hierarchy reachability),
       except through calls that a checked side obligation excludes (G-FLATTENABLE);
       (b) with taint information: a crash call control-dependent on a wire-tainted condition (done by the TAINT engine).
       Other reachable assertions are counted only."""
    res.rule(rule, 'no function whose body aborts unconditionally (MCRASH/abort/exit on every path) is reachable from the entry set; '
                   'reachable conditional assertions on internal invariants are counted, not judged')
    n_cond = 0
    n_uncond = 0
    for fid in sorted(reach):
        f = fx.funcs.get(fid)
        if f is None or not f.full:
            continue
        if f.q in CRASH_FUNCS:
            continue
        cs = crash_calls(f)
        if not cs:
            continue
        for c in cs:
            if postdominates_entry(f, c):
                n_uncond += 1
                excluded = None
                if flatten_side:
                    excluded = flattenable_exclusion(fx, f)
                if excluded:
                    res.ob(rule, f.where(c), 'unconditional abort in %s is not reachable from untrusted input' % f.q, excluded[0], how=excluded[1],
                           function=f.q, key='%s|%s|unconditional-abort' % (rule, f.q),
                           message='%s aborts unconditionally and the side obligation that keeps callers away failed: %s' % (f.q, excluded[1]))
                else:
                    path = [cg.name(x) for x in cg.path(reach, fid)]
                    res.ob(rule, f.where(c), 'unconditional abort in %s is not reachable from untrusted input' % f.q, False, function=f.q,
                           key='%s|%s|unconditional-abort' % (rule, f.q),
                           message='%s aborts the process on every path (%s) and is reachable from the entry set via %s' % (f.q, c.get('mx') or c.get('q'), ' -> '.join(path[-5:])),
                           detail={'entry_path': path})
            else:
                n_cond += 1
    res.extra.setdefault('crash', {})[rule] = {'conditional_assertions_reachable_counted': n_cond, 'unconditional_abort_bodies': n_uncond}
    if n_cond + n_uncond == 0:
        # positive control: the tree has MCRASH/MASSERT sites; seeing none at all means the matcher is blind
        total = sum(1 for f in fx.funcs.values() if f.full and crash_calls(f))
        if total == 0:
            raise AnalysisBroken('%s: no call of muscle::Crash/abort found anywhere in the analysed units (MCRASH expansion changed?)' % rule)


def flattenable_exclusion(fx, f):
    """G-FLATTENABLE: Tag/PointerDataArray::TemplatedFlatten abort by design; callers must filter on IsFlattenable().
    Returns (ok, how) when f is such a flatten body, else None."""
    if not re.search(r'::(TemplatedFlatten|Flatten)$', f.q):
        return None
    cls = f.cls
    # the class must report IsFlattenable() == false
    isf = [g for g in fx.by_q.get(cls + '::IsFlattenable', []) if g.full]
    if not isf:
        return (False, '%s has no IsFlattenable() override returning false' % cls)
    g = isf[0]
    rets = [n for n in g.walk() if n['k'] == 'ReturnStmt']
    if not (rets and all(r['ch'] and r['ch'][0].get('v') == 0 for r in rets)):
        return (False, '%s::IsFlattenable() does not return the constant false' % cls)
    # every call of a field's flatten/size method from the Message serialisers is guarded by IsFlattenable()
    callers = ['muscle::Message::Flatten', 'muscle::Message::FlattenedSize', 'muscle::Message::TemplatedFlatten', 'muscle::Message::TemplatedFlattenedSize']
    checked = 0
    for cq in callers:
        for cf in fx.by_q.get(cq, []):
            if not cf.full:
                continue
            for n in cf.walk():
                if n.is_call() and re.search(r'MessageField::(Flatten|FlattenedSize|TemplatedFlatten|TemplatedFlattenedSize)$|WriteFlat$', n.get('q') or ''):
                    # is it operating on a MessageField?
                    if 'MessageField' not in (n.get('fn') or '') and 'MessageField' not in (n.get('q') or ''):
                        continue
                    checked += 1
                    ok = False
                    for (cn, truth) in cond_nodes_guarding(cf, n):
                        if truth and any(x.get('q', '').endswith('::IsFlattenable') for x in cn.walk()):
                            ok = True
                    if not ok:
                        return (False, 'call %s at %s is not guarded by IsFlattenable()' % (n.text(), cf.where(n)))
    if checked == 0:
        return (False, 'no field flatten call found in the Message serialisers (anchor moved)')
    return (True, 'G-FLATTENABLE: %s::IsFlattenable() is constant false and all %d field flatten/size calls in the Message serialisers are under IsFlattenable()' % (cls, checked))
