"""Whole-program call graph over function ids (mangled names) with class-hierarchy fan-out
for virtual calls."""


class CallGraph(object):
    def __init__(self, facts):
        self.facts = facts
        self.succ = {}
        self.sites = {}
        ov = facts.overriders()
        for f in facts.funcs.values():
            s = self.succ.setdefault(f.id, set())
            for c in f.calls:
                tgt = c['fn']
                s.add(tgt)
                self.sites.setdefault((f.id, tgt), c.get('l'))
                if c.get('virt'):
                    for o in ov.get(tgt, ()):
                        s.add(o)
                        self.sites.setdefault((f.id, o), c.get('l'))
                elif c.get('implicit') or c.get('q', '').endswith('(dtor)'):
                    # destructor calls are virtual when the destructor is
                    for o in ov.get(tgt, ()):
                        s.add(o)
                        self.sites.setdefault((f.id, o), c.get('l'))

    def reachable(self, roots, stop=None):
        """ids reachable from roots; returns dict id -> predecessor id (for path reconstruction)"""
        pred = {}
        st = []
        for r in roots:
            if r not in pred:
                pred[r] = None
                st.append(r)
        while st:
            x = st.pop()
            if stop and stop(x):
                continue
            for y in self.succ.get(x, ()):
                if y not in pred:
                    pred[y] = x
                    st.append(y)
        return pred

    def path(self, pred, x):
        p = []
        while x is not None:
            p.append(x)
            x = pred.get(x)
        return list(reversed(p))

    def name(self, fid):
        f = self.facts.funcs.get(fid)
        return f.name if f else fid

    def sccs(self, nodes=None):
        """Tarjan SCCs restricted to `nodes` (iterative). Returns list of lists with size>1 or self-loop."""
        nodes = set(nodes) if nodes is not None else set(self.succ)
        index = {}
        low = {}
        onst = set()
        stack = []
        out = []
        counter = [0]
        for root in nodes:
            if root in index:
                continue
            work = [(root, iter(sorted(y for y in self.succ.get(root, ()) if y in nodes)))]
            index[root] = low[root] = counter[0]
            counter[0] += 1
            stack.append(root)
            onst.add(root)
            while work:
                v, it = work[-1]
                adv = False
                for w in it:
                    if w not in index:
                        index[w] = low[w] = counter[0]
                        counter[0] += 1
                        stack.append(w)
                        onst.add(w)
                        work.append((w, iter(sorted(y for y in self.succ.get(w, ()) if y in nodes))))
                        adv = True
                        break
                    elif w in onst:
                        low[v] = min(low[v], index[w])
                if adv:
                    continue
                work.pop()
                if work:
                    u = work[-1][0]
                    low[u] = min(low[u], low[v])
                if low[v] == index[v]:
                    comp = []
                    while True:
                        w = stack.pop()
                        onst.discard(w)
                        comp.append(w)
                        if w == v:
                            break
                    if len(comp) > 1 or v in self.succ.get(v, ()):
                        out.append(comp)
        return out
