"""Expression-level helpers on fact nodes: root locations, reads, may-modify effects."""

CALL_KINDS = ('CallExpr', 'CXXMemberCallExpr', 'CXXOperatorCallExpr', 'CXXConstructExpr', 'CXXTemporaryObjectExpr')
ASSIGN_OPS = ('=', '+=', '-=', '*=', '/=', '%=', '<<=', '>>=', '&=', '|=', '^=')


def strip_casts(n):
    """the expression without casts and parentheses; a use of a local reference that is just another name for a member (`T & x = _member;`, marked alias_i by the loader) is that member"""
    while n is not None:
        if (n['k'].endswith('CastExpr') or n['k'] in ('ParenExpr',)) and n['ch']:
            n = n['ch'][0]
        elif n['k'] == 'DeclRefExpr' and 'alias_i' in n and getattr(n, 'func', None) is not None and n['alias_i'] in n.func.nodes:
            n = n.func.nodes[n['alias_i']]
        else:
            break
    return n


def is_this_member(n):
    return n['k'] == 'MemberExpr' and n['ch'] and strip_casts(n['ch'][0])['k'] == 'CXXThisExpr'


def root_loc(n):
    """The storage root an lvalue/object expression is based on:
       ('v', d) local variable/param, ('m', q) field of *this, ('this',), ('g', q) global, ('tmp',) otherwise.
       Goes through member access, deref, subscripts, casts, smart-pointer operators and accessor calls."""
    seen = 0
    while n is not None and seen < 64:
        seen += 1
        k = n['k']
        if k == 'DeclRefExpr':
            if 'd' in n:
                return ('v', n['d'])
            if n.get('dk') in ('Var',):
                return ('g', n.get('q'))
            return ('tmp',)
        if k == 'CXXThisExpr':
            return ('this',)
        if k == 'MemberExpr':
            if not n['ch']:
                return ('tmp',)
            b = strip_casts(n['ch'][0])
            if b['k'] == 'CXXThisExpr' and n.get('dk') == 'Field':
                return ('m', n.get('q'))
            n = b
            continue
        if k in ('UnaryOperator',):
            n = n['ch'][0]
            continue
        if k == 'ArraySubscriptExpr':
            n = n['ch'][0]
            continue
        if k.endswith('CastExpr') or k == 'ParenExpr':
            n = n['ch'][0] if n['ch'] else None
            continue
        if k == 'CXXMemberCallExpr':
            # accessor on an object: a.b().c -> based on a
            r = n.receiver()
            if r is None:
                return ('tmp',)
            n = r
            continue
        if k == 'CXXOperatorCallExpr':
            # ref() / ref-> / a[i] / *it : based on the object operand
            if len(n['ch']) >= 2:
                n = n['ch'][1]
                continue
            return ('tmp',)
        if k == 'BinaryOperator' and n.get('op') in ('+', '-') and n['ch']:
            # pointer arithmetic p + k : based on p
            n = n['ch'][0]
            continue
        if k == 'ConditionalOperator':
            return ('tmp',)
        return ('tmp',)
    return ('tmp',)


def reads(n, out=None):
    """set of root locations read anywhere inside expression n"""
    if out is None:
        out = set()
    for x in n.walk():
        k = x['k']
        if k == 'DeclRefExpr':
            if 'd' in x:
                out.add(('v', x['d']))
            elif x.get('dk') == 'Var':
                out.add(('g', x.get('q')))
        elif k == 'MemberExpr' and x.get('dk') == 'Field':
            if is_this_member(x):
                out.add(('m', x.get('q')))
        elif k == 'CXXThisExpr':
            p = x.parent
            # bare `this` used as an object (method call on this / passed along)
            if p is None or not (p['k'] == 'MemberExpr' and p.get('dk') == 'Field'):
                out.add(('this',))
    return out


PK = {'v': 'val', 'c': 'cref', 'm': 'mref', 'q': 'cptr', 'p': 'mptr'}


def param_kinds(call, facts=None):
    """For a call node: list aligned with call.args() of 'val' | 'cref' | 'mref' | 'cptr' | 'mptr' | 'obj'
    taken from the resolved callee's prototype (emitted by the extractor as "pk")."""
    args = call.args()
    pk = call.get('pk')
    if pk is None:
        # indirect call: classify by the argument expressions themselves
        res = []
        for a in args:
            a2 = strip_casts(a)
            if a2['k'] == 'UnaryOperator' and a2.get('op') == '&':
                res.append('mptr')
            else:
                res.append('unknown')
        return res
    kinds = [PK[c] for c in pk]
    if call['k'] == 'CXXOperatorCallExpr' and len(kinds) == len(args) - 1:
        kinds = ['obj'] + kinds
    while len(kinds) < len(args):
        kinds.append('val')      # variadic tail
    return kinds[:len(args)]


def classify_type(t):
    t = t.strip()
    if t.endswith('&&'):
        return 'val'
    if t.endswith('&'):
        core = t[:-1].strip()
        return 'cref' if is_const_qualified(core) else 'mref'
    if t.endswith('*') or t.endswith('*const') or t.endswith('* const'):
        core = t.rstrip('const ').rstrip()
        core = core[:-1].strip() if core.endswith('*') else core
        return 'cptr' if is_const_qualified(core) else 'mptr'
    return 'val'


def is_const_qualified(core):
    core = core.strip()
    return core.startswith('const ') or core.endswith(' const') or core.endswith(')const')


def is_integral_type(t):
    t = t.replace('const ', '').strip()
    return t in ('int', 'unsigned int', 'long', 'unsigned long', 'short', 'unsigned short', 'char', 'unsigned char',
                 'signed char', 'long long', 'unsigned long long', 'bool', 'size_t')


class Effects(object):
    """may-modify effects of one statement-level node (non-recursive into sub-statements is up to caller)"""

    def __init__(self):
        self.mod = set()       # root locations possibly modified
        self.opaque = False    # an opaque call happened: heap / members / globals may change
        self.calls = []


def effects(n, facts=None, pure_pred=None):
    """may-modify effects of everything inside n"""
    e = Effects()
    for x in n.walk():
        k = x['k']
        if k in ('BinaryOperator', 'CompoundAssignOperator') and x.get('op') in ASSIGN_OPS:
            e.mod.add(root_loc(x['ch'][0]))
        elif k == 'UnaryOperator' and (x.get('op', '').startswith('pre') or x.get('op', '').startswith('post')):
            e.mod.add(root_loc(x['ch'][0]))
        elif k in CALL_KINDS:
            e.calls.append(x)
            if k in ('CXXConstructExpr', 'CXXTemporaryObjectExpr'):
                # constructing a temporary does not modify existing state unless args are mutable refs (rare)
                continue
            const_m = bool(x.get('cm'))
            kinds = param_kinds(x, facts)
            args = x.args()
            pure = True
            if k == 'CXXMemberCallExpr':
                r = x.receiver()
                if not const_m and not x.get('sm'):
                    pure = False
                    if r is not None:
                        e.mod.add(root_loc(r))
            elif k == 'CXXOperatorCallExpr':
                if not const_m and len(args) >= 1:
                    # member operator on args[0] (non-const) or a free operator taking mutable refs
                    if kinds and kinds[0] in ('obj', 'mref', 'mptr', 'unknown', 'mptr?'):
                        e.mod.add(root_loc(args[0]))
                        pure = False
            else:
                # free function: opaque unless whitelisted pure
                if not (pure_pred and pure_pred(x)):
                    pure = False
            for a, pk in zip(args, kinds):
                if pk in ('mref', 'mptr', 'mptr?'):
                    e.mod.add(root_loc(a))
                    pure = False
                elif pk == 'unknown':
                    a2 = strip_casts(a)
                    if a2['k'] == 'UnaryOperator' and a2.get('op') == '&':
                        e.mod.add(root_loc(a2))
            if not pure:
                e.opaque = True
        elif k in ('CXXNewExpr', 'CXXDeleteExpr'):
            e.opaque = True
    e.mod.discard(('tmp',))
    return e


FLIP = {'<': '>', '<=': '>=', '>': '<', '>=': '<=', '==': '==', '!=': '!='}
NEG = {'<': '>=', '<=': '>', '>': '<=', '>=': '<', '==': '!=', '!=': '=='}


def rel_forms(cond, truth=True):
    """All equivalent readings (lhs, op, rhs) of `cond` taken with the given truth value: operand order flipped, leading negations and `== false` / `== true` wrappers removed.
    Use:  any(op == '<' and is_x(l) and is_y(r) for (l, op, r) in rel_forms(cn, t))   instead of matching one spelling."""
    n = cond
    pol = truth
    while True:
        n = strip_casts(n)
        if n['k'] == 'UnaryOperator' and n.get('op') == '!':
            pol = not pol
            n = n['ch'][0]
            continue
        if n['k'] == 'BinaryOperator' and n.get('op') in ('==', '!=') and len(n['ch']) == 2 and strip_casts(n['ch'][1])['k'] == 'CXXBoolLiteralExpr':
            if (n['op'] == '==') != bool(strip_casts(n['ch'][1]).get('v')):
                pol = not pol
            n = n['ch'][0]
            continue
        break
    if n['k'] != 'BinaryOperator' or n.get('op') not in FLIP or len(n['ch']) != 2:
        return []
    op = n['op'] if pol else NEG[n['op']]
    l, r = strip_casts(n['ch'][0]), strip_casts(n['ch'][1])
    return [(l, op, r), (r, FLIP[op], l)]


def bool_polarity(cond, truth=True):
    """Strip leading `!` and `== false/true` wrappers: returns (core node, truth value the core must have)."""
    n = cond
    pol = truth
    while True:
        n = strip_casts(n)
        if n['k'] == 'UnaryOperator' and n.get('op') == '!':
            pol = not pol
            n = n['ch'][0]
            continue
        if n['k'] == 'BinaryOperator' and n.get('op') in ('==', '!=') and len(n['ch']) == 2 and strip_casts(n['ch'][1])['k'] == 'CXXBoolLiteralExpr':
            if (n['op'] == '==') != bool(strip_casts(n['ch'][1]).get('v')):
                pol = not pol
            n = n['ch'][0]
            continue
        return n, pol


def emptiness(cond, truth=True):
    """If `cond` (taken with the given truth value) says that a container is empty or non-empty, return (receiver node, is_empty); else None.
    Recognised spellings: IsEmpty(), HasItems(), GetNumItems() compared with 0 (==, !=, >, <=, <, >= with either operand order) or with 1 (< 1, >= 1), each under any number of
    `!` / `== false` / `== true` wrappers."""
    n, pol = bool_polarity(cond, truth)
    if n['k'] == 'CXXMemberCallExpr':
        nm = (n.get('q') or '').split('::')[-1]
        if nm == 'IsEmpty':
            return n.receiver(), pol
        if nm == 'HasItems':
            return n.receiver(), not pol
        return None
    for (l, op, r) in rel_forms(n, pol):
        if l['k'] == 'CXXMemberCallExpr' and (l.get('q') or '').split('::')[-1] == 'GetNumItems' and r.get('v') is not None:
            v = r.get('v')
            if (op, v) in (('==', 0), ('<=', 0), ('<', 1)):
                return l.receiver(), True
            if (op, v) in (('!=', 0), ('>', 0), ('>=', 1)):
                return l.receiver(), False
    return None


def implied_atoms(cond, truth=True):
    """Atoms (node, truth) that necessarily hold when `cond` evaluates to `truth`: conjuncts of a true `&&`, disjuncts of a false `||`, through `!` and `== false` wrappers and parentheses."""
    n, pol = bool_polarity(cond, truth)
    if n['k'] == 'BinaryOperator' and len(n['ch']) == 2 and ((n.get('op') == '&&' and pol) or (n.get('op') == '||' and not pol)):
        return implied_atoms(n['ch'][0], pol) + implied_atoms(n['ch'][1], pol)
    return [(n, pol)]


def zero_test(cond, truth=True):
    """If `cond` (with the given truth value) says an unsigned/integer expression is zero or non-zero, return (operand node, is_zero); else None.  Spellings: x == 0, 0 == x, x != 0, x > 0,
    x <= 0, x < 1, x >= 1, and x / !x used as a boolean (integer-typed x)."""
    n, pol = bool_polarity(cond, truth)
    for (l, op, r) in rel_forms(n, pol):
        if r.get('v') is not None and r['k'] != 'CXXBoolLiteralExpr':
            v = r.get('v')
            # `x <= 0` / `x < 1` say "zero" (and `x > 0` / `x >= 1` "non-zero") only for a value that cannot be negative
            t_ = (l.type() if hasattr(l, 'type') else '').replace('const ', '').strip()
            nonneg = ('unsigned' in t_) or t_.endswith('*') or t_ in ('bool', '_Bool', 'size_t') or l.is_call() and (l.get('q') or '').split('::')[-1] in ('GetNumItems', 'Length', 'GetNumBytes')
            if (op, v) == ('==', 0) or (nonneg and (op, v) in (('<=', 0), ('<', 1))):
                return l, True
            if (op, v) == ('!=', 0) or (nonneg and (op, v) in (('>', 0), ('>=', 1))):
                return l, False
    if n['k'] in ('DeclRefExpr', 'MemberExpr') and is_integral_type(n.type()) and 'bool' not in n.type():
        return n, not pol
    return None


def walk_through_locals(f, node, _seen=None):
    """Yield the nodes of `node` and, for every local variable it reads, the nodes of that variable's initialiser (transitively): lets a rule see through `const T x = <expr>; if (x) ...`."""
    seen = _seen if _seen is not None else set()
    idx = getattr(f, '_vardecl_idx', None)
    if idx is None:
        idx = f._vardecl_idx = {}
        for v in f.walk():
            if v['k'] == 'VarDecl' and v.get('d') is not None and v['ch']:
                idx[v['d']] = v
    for x in node.walk():
        yield x
        if x['k'] == 'DeclRefExpr' and x.get('d') in idx and x['d'] not in seen:
            seen.add(x['d'])
            for y in walk_through_locals(f, idx[x['d']]['ch'][0], seen):
                yield y


def counting_loop(loop):
    """Header of a counting `for` loop, independent of spelling.  Returns dict(var=decl id, start=node|None, op='<'|'<='|'>'|'>='|'!=', bound=node, step=+1|-1|None) or None.
    Accepts `T i = a` / `i = a` initialisers, the condition with its operands in either order (and under `!`), and i++ / ++i / i += 1 / i = i + 1 (resp. decrements)."""
    if loop['k'] == 'WhileStmt':
        return _counting_while(loop)
    if loop['k'] != 'ForStmt':
        return None
    init, cond, inc = loop.role('init'), loop.role('cond'), loop.role('inc')
    cands = {}
    if init is not None:
        for x in init.walk():
            if x['k'] == 'VarDecl' and x.get('d') is not None:
                cands[x['d']] = x['ch'][0] if x['ch'] else None
            if x['k'] == 'BinaryOperator' and x.get('op') == '=' and strip_casts(x['ch'][0])['k'] == 'DeclRefExpr':
                cands[strip_casts(x['ch'][0]).get('d')] = x['ch'][1]
    step, sv = None, None
    if inc is not None:
        for i in inc.walk() if inc['k'] == 'BinaryOperator' and inc.get('op') == ',' else [inc]:
            i = strip_casts(i)
            if i['k'] == 'UnaryOperator' and i.get('op') in ('post++', 'pre++', 'post--', 'pre--'):
                sv, step = strip_casts(i['ch'][0]).get('d'), (1 if '++' in i['op'] else -1)
            elif i['k'] == 'CompoundAssignOperator' and i.get('op') in ('+=', '-=') and strip_casts(i['ch'][1]).get('v') == 1:
                sv, step = strip_casts(i['ch'][0]).get('d'), (1 if i['op'] == '+=' else -1)
            elif i['k'] == 'BinaryOperator' and i.get('op') == '=' and strip_casts(i['ch'][1])['k'] == 'BinaryOperator' and strip_casts(i['ch'][1]).get('op') in ('+', '-'):
                r = strip_casts(i['ch'][1])
                a, b = strip_casts(r['ch'][0]), strip_casts(r['ch'][1])
                if a.get('d') == strip_casts(i['ch'][0]).get('d') and b.get('v') == 1:
                    sv, step = a.get('d'), (1 if r['op'] == '+' else -1)
                elif r['op'] == '+' and b.get('d') == strip_casts(i['ch'][0]).get('d') and a.get('v') == 1:
                    sv, step = b.get('d'), 1
            if sv is not None and (not cands or sv in cands):
                break
    if cond is None:
        return None
    for (l, op, r) in rel_forms(cond, True):
        if l['k'] == 'DeclRefExpr' and l.get('d') is not None and (l['d'] in cands or l['d'] == sv) and op in ('<', '<=', '>', '>=', '!='):
            if any(x['k'] == 'DeclRefExpr' and x.get('d') == l['d'] for x in r.walk()):
                continue
            return {'var': l['d'], 'start': cands.get(l['d']), 'op': op, 'bound': r, 'step': step if sv == l['d'] else None}
    return None


def _unit_step(i):
    """(decl id, +1|-1) if the expression statement i changes a variable by one, else None"""
    i = strip_casts(i)
    if i['k'] == 'UnaryOperator' and i.get('op') in ('post++', 'pre++', 'post--', 'pre--'):
        return strip_casts(i['ch'][0]).get('d'), (1 if '++' in i['op'] else -1)
    if i['k'] == 'CompoundAssignOperator' and i.get('op') in ('+=', '-=') and strip_casts(i['ch'][1]).get('v') == 1:
        return strip_casts(i['ch'][0]).get('d'), (1 if i['op'] == '+=' else -1)
    if i['k'] == 'BinaryOperator' and i.get('op') == '=' and strip_casts(i['ch'][1])['k'] == 'BinaryOperator' and strip_casts(i['ch'][1]).get('op') in ('+', '-'):
        r = strip_casts(i['ch'][1])
        a, b = strip_casts(r['ch'][0]), strip_casts(r['ch'][1])
        if a.get('d') is not None and a.get('d') == strip_casts(i['ch'][0]).get('d') and b.get('v') == 1:
            return a.get('d'), (1 if r['op'] == '+' else -1)
        if r['op'] == '+' and b.get('d') is not None and b.get('d') == strip_casts(i['ch'][0]).get('d') and a.get('v') == 1:
            return b.get('d'), 1
    return None


def _counting_while(loop):
    """`T i = a; while (i OP bound) { …; i++; }` read as the for loop it is: the last statement of the body is the only change of i inside the loop, no `continue` skips it, and the
    declaration of i (the only other definition of i in the function) gives the start value"""
    cond, body = loop.role('cond'), loop.role('body')
    func = getattr(loop, 'func', None)
    if cond is None or body is None or func is None:
        return None
    stmts = body['ch'] if body['k'] == 'CompoundStmt' else [body]
    if not stmts:
        return None
    st = _unit_step(stmts[-1])
    if st is None or st[0] is None:
        return None
    var, step = st
    if any(x['k'] == 'ContinueStmt' for s_ in stmts for x in s_.walk()):
        return None
    def writes(root, skip=None):
        out = []
        for x in root.walk():
            if x is skip:
                continue
            if x['k'] == 'UnaryOperator' and x.get('op') in ('post++', 'pre++', 'post--', 'pre--', '&') and strip_casts(x['ch'][0]).get('d') == var:
                out.append(x)
            elif x['k'] in ('BinaryOperator', 'CompoundAssignOperator') and (x.get('op') == '=' or x['k'] == 'CompoundAssignOperator') and strip_casts(x['ch'][0]).get('d') == var:
                out.append(x)
        return out
    last = strip_casts(stmts[-1])
    if [w for w in writes(body) if w is not last and w['i'] != last['i']]:
        return None
    decl = [v for v in func.walk() if v['k'] == 'VarDecl' and v.get('d') == var]
    if len(decl) != 1 or not decl[0]['ch']:
        return None
    outside = [w for w in writes(func) if not any(a is loop or a['i'] == loop['i'] for a in w.ancestors())]
    if outside:
        return None
    for (l, op, r) in rel_forms(cond, True):
        if l['k'] == 'DeclRefExpr' and l.get('d') == var and op in ('<', '<=', '>', '>=', '!='):
            if any(x['k'] == 'DeclRefExpr' and x.get('d') == var for x in r.walk()):
                continue
            return {'var': var, 'start': decl[0]['ch'][0], 'op': op, 'bound': r, 'step': step}
    return None


def min_max(node, f=None):
    """('min'|'max', [a, b]) if `node` computes the minimum / maximum of two expressions, however it is spelled: muscleMin(a,b) / muscleMax / std::min / std::max, or
    `(a < b) ? a : b` with the comparison in any of its equivalent forms (operands exchanged, negated, <= instead of <).  Else None."""
    n = strip_casts(node)
    if n.is_call():
        m = (n.get('q') or '').split('::')[-1]
        if m in ('muscleMin', 'min') and len(n.args()) == 2:
            return 'min', [strip_casts(a) for a in n.args()]
        if m in ('muscleMax', 'max') and len(n.args()) == 2:
            return 'max', [strip_casts(a) for a in n.args()]
        return None
    if n['k'] == 'ConditionalOperator' and len(n['ch']) == 3:
        t, e = strip_casts(n['ch'][1]), strip_casts(n['ch'][2])
        same = lambda x, y: render_key(x) == render_key(y)
        for (l, op, r) in rel_forms(n['ch'][0], True):
            if op in ('<', '<=') and same(l, t) and same(r, e):
                return 'min', [t, e]
            if op in ('>', '>=') and same(l, t) and same(r, e):
                return 'max', [t, e]
    return None


def render_key(n):
    """structural rendering used to compare two side-effect-free expressions for syntactic equality (casts and parentheses ignored)"""
    n = strip_casts(n)
    if n['k'] in ('DeclRefExpr',):
        return 'd%s' % n.get('d') if n.get('d') is not None else 'n:%s' % n.get('n')
    if n['k'] == 'MemberExpr':
        return '%s.%s' % (render_key(n['ch'][0]) if n['ch'] else 'this', n.get('n'))
    if n['k'] == 'CXXThisExpr':
        return 'this'
    if 'v' in n and not n['ch']:
        return 'v%s' % n['v']
    return '%s[%s](%s)' % (n['k'], n.get('op') or n.get('q') or '', ','.join(render_key(c) for c in n['ch']))


def dispatch_tables(f, min_cases=3):
    """Every multi-way dispatch on constants in f, whether written as `switch (x) {case K: …}` or as an `if (x == K) … else if (x == L || x == M) … else …` chain.
    -> [dict(node=first node, subject=render_key of x, cases=[(set of constants | 'default', [statement nodes])])], in source order.
    switch: labels that fall through to the same statements are merged; the statements of a case end at its break/return.  if-chain: each arm is one case."""
    out = []
    in_chain = set()
    for n in f.walk():
        if n['k'] == 'SwitchStmt':
            subj = render_key(n.role('cond')) if n.role('cond') is not None else '?'
            cases, pending, cur = [], [], None
            body = n.role('body')
            for c in (body['ch'] if body is not None else []):
                x = c
                labels = []
                while x is not None and x['k'] in ('CaseStmt', 'DefaultStmt'):
                    labels.append(x.get('cv') if x['k'] == 'CaseStmt' else 'default')
                    x = x['ch'][-1] if x['ch'] else None
                if labels:
                    if cur is not None and cur[1] and not _ends_flow(cur[1][-1]):
                        # fall-through from a case with statements: its statements also belong to the new labels — keep them separate but remember the labels
                        cases.append(cur)
                        cur = (set(labels) | set(cur[0]), [])
                    elif cur is not None and not cur[1]:
                        cur = (set(labels) | set(cur[0]), [])
                    else:
                        if cur is not None:
                            cases.append(cur)
                        cur = (set(labels), [])
                if x is not None and cur is not None:
                    cur[1].append(x)
            if cur is not None:
                cases.append(cur)
            norm = []
            for (labs, stmts) in cases:
                vals = set(l for l in labs if l != 'default')
                if vals:
                    norm.append((vals, stmts))
                if 'default' in labs:
                    norm.append(('default', stmts))
            if len(norm) >= min_cases:
                out.append({'node': n, 'subject': subj, 'cases': norm})
        elif n['k'] == 'IfStmt' and n['i'] not in in_chain:
            chain, cur, subj = [], n, None
            while cur is not None and cur['k'] == 'IfStmt':
                vals, s2 = _const_tests(cur.role('cond'))
                if vals is None or (subj is not None and s2 != subj):
                    break
                subj = s2
                in_chain.add(cur['i'])
                th = cur.role('then')
                chain.append((vals, th['ch'] if th is not None and th['k'] == 'CompoundStmt' else ([th] if th is not None else [])))
                nxt = cur.role('else')
                if nxt is not None and nxt['k'] != 'IfStmt':
                    chain.append(('default', nxt['ch'] if nxt['k'] == 'CompoundStmt' else [nxt]))
                    nxt = None
                cur = nxt
            if len(chain) >= min_cases:
                out.append({'node': n, 'subject': subj, 'cases': chain})
    return out


def _ends_flow(s):
    return s['k'] in ('BreakStmt', 'ReturnStmt', 'ContinueStmt') or (s['k'] == 'CompoundStmt' and bool(s['ch']) and _ends_flow(s['ch'][-1]))


def _const_tests(cond):
    """(set of constants, subject key) if cond is `x == K` or a `||` of such tests on one x; else (None, None)"""
    if cond is None:
        return None, None
    n, pol = bool_polarity(cond, True)
    if not pol:
        return None, None
    if n['k'] == 'BinaryOperator' and n.get('op') == '||':
        a, sa = _const_tests(n['ch'][0])
        b, sb = _const_tests(n['ch'][1])
        if a is None or b is None or sa != sb:
            return None, None
        return a | b, sa
    for (l, op, r) in rel_forms(n, True):
        if op == '==' and r.get('v') is not None and not r['ch'] and 'v' not in l:
            return set([r['v']]), render_key(l)
        if op == '==' and r.get('v') is not None and r['k'] in ('CharacterLiteral', 'IntegerLiteral', 'DeclRefExpr') and 'v' not in l:
            return set([r['v']]), render_key(l)
    return None, None
