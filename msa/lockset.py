"""LOCKSET (DESIGN 3.7): must-hold lock sets as a forward data flow over the CFG.

gen : construction of a MutexGuard / ReadOnlyMutexGuard / std::unique_lock / std::lock_guard local (the DECLARE_MUTEXGUARD expansion is such a VarDecl);
kill: the implicit destructor element of that local, guard.UnlockEarly() / guard.unlock().
Lock identity = (canonical base object expression, mutex field name).
A condition-variable wait(lock, …) releases and re-acquires: the lock is held again when it returns, which is what matters for guarded-by.
Private helpers documented 'assumes X is locked' get their precondition inferred: the locks held at *all* of their call sites (fixpoint)."""
import re
from . import cfg as C
from . import ast as A
from .taint import P_canon

GUARD_TYPES = re.compile(r'^(const )?(muscle::(MutexGuard|ReadOnlyMutexGuard|ReadWriteMutexGuard)|std::unique_lock<.*>|std::lock_guard<.*>)$')


def lock_key(expr):
    """(canonical base, mutex member name) for expressions like  _m / this->_m / tsd._queueLock / obj->_m"""
    e = A.strip_casts(expr)
    if e['k'] == 'MemberExpr':
        b = A.strip_casts(e['ch'][0]) if e['ch'] else None
        base = 'this' if (b is None or b['k'] == 'CXXThisExpr') else P_canon(b)
        return (base, e.get('n'))
    if e['k'] == 'DeclRefExpr':
        return ('', e.get('n') if 'd' not in e else 'v%s' % e['d'])
    if e['k'] == 'UnaryOperator' and e.get('op') in ('*', '&'):
        return lock_key(e['ch'][0])
    return ('?', P_canon(e))


def access_key(member_expr, mutex_name):
    """lock key that protects this field access: same base object, given mutex field"""
    e = A.strip_casts(member_expr)
    b = A.strip_casts(e['ch'][0]) if e['ch'] else None
    base = 'this' if (b is None or b['k'] == 'CXXThisExpr') else P_canon(b)
    return (base, mutex_name)


class LockFlow(object):
    def __init__(self, f, entry_held=frozenset(), mode='must'):
        self.f = f
        self.mode = mode          # 'must': held on every path (guarded-by);  'may': held on some path (no-blocking-under-lock)
        self.entry_held = frozenset(entry_held)
        self.guards = {}     # guard var decl id -> lock key
        self.events = {}     # (block, idx) -> ('gen'|'kill', guard decl id)
        self._collect()
        self._solve()

    def _collect(self):
        f = self.f
        for blk in f.blocks.values():
            for idx, e in enumerate(blk.elems):
                if isinstance(e, tuple):
                    if e[0] == 'D' and e[1] in self.guards_by_decl():
                        self.events[(blk.b, idx)] = ('kill', e[1])
                    continue
                n = f.nodes.get(e)
                if n is None:
                    continue
                if n['k'] == 'VarDecl' and GUARD_TYPES.search(n.type()) and n['ch']:
                    ctor = n['ch'][0]
                    args = ctor.args() if ctor.is_call() else []
                    if args:
                        self.guards[n['d']] = lock_key(args[0])
                        self.events[(blk.b, idx)] = ('gen', n['d'])
                elif n['k'] == 'CXXMemberCallExpr' and (n.get('q') or '').split('::')[-1] in ('UnlockEarly', 'unlock'):
                    r = n.receiver()
                    if r is not None and A.strip_casts(r).get('d') in self.guards_by_decl():
                        self.events[(blk.b, idx)] = ('kill', A.strip_casts(r)['d'])
                elif n['k'] == 'CXXMemberCallExpr' and re.search(r'(^|::)(Mutex|ReaderWriterMutex)::(Lock|LockReadOnly|LockReadWrite)$', n.get('q') or '') and n.receiver() is not None:
                    # an explicit X.Lock(): a pseudo guard, one per call site (so that two separate sections under the same mutex remain distinguishable)
                    gid = ('explicit', n['i'])
                    self.guards[gid] = lock_key(n.receiver())
                    self.events[(blk.b, idx)] = ('gen', gid)
                elif n['k'] == 'CXXMemberCallExpr' and re.search(r'(^|::)(Mutex|ReaderWriterMutex)::(Unlock|UnlockReadOnly|UnlockReadWrite)$', n.get('q') or '') and n.receiver() is not None:
                    self.events[(blk.b, idx)] = ('killkey', lock_key(n.receiver()))
                elif n['k'] == 'CXXMemberCallExpr' and (n.get('q') or '').split('::')[-1] in ('lock',):
                    r = n.receiver()
                    if r is not None and A.strip_casts(r).get('d') in self.guards_by_decl():
                        self.events[(blk.b, idx)] = ('gen', A.strip_casts(r)['d'])

    def guards_by_decl(self):
        # all guard-typed locals (needed before their VarDecl element is visited in another block)
        g = getattr(self, '_gdecls', None)
        if g is None:
            g = self._gdecls = set(n['d'] for n in self.f.walk() if n['k'] == 'VarDecl' and GUARD_TYPES.search(n.type()))
        return g

    def _transfer(self, b, held, upto=None):
        held = set(held)
        blk = self.f.blocks[b]
        for idx in range(len(blk.elems)):
            if upto is not None and idx >= upto:
                break
            ev = self.events.get((b, idx))
            if ev:
                if ev[0] == 'gen':
                    held.add(ev[1])
                elif ev[0] == 'killkey':
                    for g_ in [g_ for g_ in held if isinstance(g_, tuple) and g_[0] == 'explicit' and self.guards.get(g_) == ev[1]]:
                        held.discard(g_)
                else:
                    held.discard(ev[1])
        return held

    def _solve(self):
        f = self.f
        live = C.live_blocks(f)
        ALL = None
        IN = {b: ALL for b in live}
        IN[f.entry] = set()
        changed = True
        order = sorted(live, reverse=True)     # clang numbers the entry highest
        it = 0
        while changed and it < 50:
            it += 1
            changed = False
            for b in order:
                if b == f.entry:
                    cur = set()
                else:
                    cur = ALL
                    for p in f.blocks[b].preds:
                        if p not in live or IN.get(p) is ALL:
                            continue
                        out = self._transfer(p, IN[p])
                        cur = set(out) if cur is ALL else ((cur & out) if self.mode == 'must' else (cur | out))
                    if cur is ALL:
                        continue
                if IN[b] is ALL or IN[b] != cur:
                    IN[b] = cur
                    changed = True
        self.IN = IN

    def held_at(self, node):
        """set of lock keys held (on every path) when `node` is evaluated"""
        f = self.f
        p = f.pos(node['i'])
        if p is None:
            for a in node.ancestors():
                p = f.pos(a['i'])
                if p is not None:
                    break
        if p is None:
            return set(self.entry_held)
        b, idx = p
        base = self.IN.get(b)
        if base is None:
            return set(self.entry_held)
        g = self._transfer(b, base, upto=idx)
        return set(self.guards[d] for d in g if d in self.guards) | set(self.entry_held)


class ClassLocks(object):
    """per-class analysis with inferred entry preconditions for helpers (locks relative to `this`)"""

    def __init__(self, fx, funcs):
        self.fx = fx
        self.funcs = list(funcs)
        self.byid = {f.id: f for f in self.funcs}
        self.entry = {f.id: None for f in self.funcs}     # None = not yet known (top)
        self.flows = {}
        self._infer()

    def _callsites(self):
        sites = {}
        for g in self.funcs:
            for n in g.walk():
                if n.is_call() and n.get('fn') in self.byid:
                    # only calls on the same object (implicit/explicit this) transfer this-relative locks
                    if n['k'] == 'CXXMemberCallExpr':
                        r = n.receiver()
                        if r is not None and A.strip_casts(r)['k'] != 'CXXThisExpr':
                            sites.setdefault(n['fn'], []).append((g, n, False))
                            continue
                    sites.setdefault(n['fn'], []).append((g, n, True))
        return sites

    def _infer(self):
        sites = self._callsites()
        # public entry points (no call site inside the class) start with nothing held
        for f in self.funcs:
            if f.id not in sites:
                self.entry[f.id] = frozenset()
        for it in range(8):
            changed = False
            self.flows = {}
            for f in self.funcs:
                if f.id not in sites:
                    continue
                cur = None
                for (g, n, same_obj) in sites[f.id]:
                    if self.entry.get(g.id) is None:
                        continue
                    held = self.flow(g).held_at(n) if same_obj else set()
                    held = set(k for k in held if k[0] == 'this')
                    cur = held if cur is None else (cur & held)
                if cur is None:
                    continue
                cur = frozenset(cur)
                if self.entry[f.id] != cur:
                    self.entry[f.id] = cur
                    changed = True
            if not changed:
                break
        for f in self.funcs:
            if self.entry[f.id] is None:
                self.entry[f.id] = frozenset()
        self.flows = {}

    def flow(self, f):
        if f.id not in self.flows:
            self.flows[f.id] = LockFlow(f, self.entry.get(f.id) or frozenset())
        return self.flows[f.id]

    def held_at(self, f, node):
        return self.flow(f).held_at(node)

    def may_held_at(self, f, node):
        """locks held on at least one path to node"""
        key = ('may', f.id)
        if key not in self.flows:
            self.flows[key] = LockFlow(f, self.entry.get(f.id) or frozenset(), mode='may')
        return self.flows[key].held_at(node)
