"""Facts loader: runs msa-extract over translation units of the *current* /repo tree and
loads the JSONL into Python objects (functions with typed expression trees + CFG, records,
enums, constants, macros, call sites).  Nothing is cached across runs."""
import json
import os, os, re, subprocess, sys, time, shutil, tempfile
from concurrent.futures import ThreadPoolExecutor

VERIF = os.path.dirname(os.path.dirname(os.path.abspath(__file__)))
EXTRACT = os.path.join(VERIF, 'bin', 'msa-extract')
REPO = os.environ.get('MSA_REPO', '/repo')

CXXFLAGS = ['-std=gnu++11', '-DMUSCLE_ENABLE_ZLIB_ENCODING', '-DMUSCLE_NO_EXCEPTIONS', '-DNDEBUG', '-Wno-everything']
CFLAGS = ['-std=gnu11', '-DMUSCLE_ENABLE_ZLIB_ENCODING', '-DNDEBUG', '-Wno-everything']


class AnalysisBroken(Exception):
    """exit-2 condition: the analysis itself cannot run (parse failure, vanished anchor, floor)."""


def library_units(repo=None):
    """Derive the unit list from /repo/CMakeLists.txt (the file(GLOB MUSCLE_SRCS ...) directories,
    minus what the file removes for WITH_SSL=OFF / non-WIN32), plus server/muscled.cpp."""
    repo = repo or REPO
    cm = open(os.path.join(repo, 'CMakeLists.txt')).read()
    m = re.search(r'file\(GLOB MUSCLE_SRCS(.*?)\)', cm, re.S)
    if not m:
        raise AnalysisBroken('CMakeLists.txt: file(GLOB MUSCLE_SRCS ...) not found')
    import glob
    units = []
    for pat in re.findall(r'"([^"]+)"', m.group(1)):
        if 'zlib/zlib' in pat:
            continue
        for f in sorted(glob.glob(os.path.join(repo, pat))):
            rel = os.path.relpath(f, repo)
            if 'SSL' in os.path.basename(rel):
                continue
            units.append(rel)
    if os.path.exists(os.path.join(repo, 'server/muscled.cpp')):
        units.append('server/muscled.cpp')
    return units


C_UNITS = ['lang/c/minimessage/MiniMessage.c', 'lang/c/minimessage/MiniMessageGateway.c',
           'lang/c/micromessage/MicroMessage.c', 'lang/c/micromessage/MicroMessageGateway.c']


_META = os.environ.get('MSA_META', '')
_FLIP = {'<': '>', '<=': '>=', '>': '<', '>=': '<=', '==': '==', '!=': '!='}


def _metamorph(func, root, mode):
    """Checker self-test only (MSA_META=flip|not): rewrite the facts into an equivalent program — every comparison with its operands exchanged (a < b  =>  b > a), or every `!x` as `x == false` and
    every `x == false` as `!x`.  A rule whose verdict changes under these rewritings depends on the spelling of the source, not on its meaning."""
    lits = ('CXXBoolLiteralExpr', 'GNUNullExpr', 'CXXNullPtrLiteralExpr')
    for n in list(root.walk()):
        if n['k'] != 'BinaryOperator' and not (n['k'] == 'UnaryOperator' and n.get('op') == '!'):
            continue
        if mode == 'flip' and n['k'] == 'BinaryOperator' and n.get('op') in _FLIP and len(n['ch']) == 2:
            a, b = n['ch']
            core = lambda x: x if x['k'] not in ('ImplicitCastExpr', 'ParenExpr') or not x['ch'] else x['ch'][0]
            if core(a)['k'] in lits or core(b)['k'] in lits:
                continue
            n['ch'] = [b, a]
            n['op'] = _FLIP[n['op']]
        elif mode == 'not':
            if n['k'] == 'UnaryOperator' and n['ch'] and 'bool' in n['ch'][0].type():
                lit = Node({'i': 10000000 + n['i'], 'k': 'CXXBoolLiteralExpr', 'v': 0, 'l': n.get('l'), 't': n.get('t'), 'ch': []})
                lit.parent = n
                lit.func = func
                func.nodes[lit['i']] = lit
                n['k'] = 'BinaryOperator'
                n['op'] = '=='
                n['ch'] = [n['ch'][0], lit]
            elif n['k'] == 'BinaryOperator' and n.get('op') == '==' and len(n['ch']) == 2 and n['ch'][1]['k'] == 'CXXBoolLiteralExpr' and not n['ch'][1].get('v'):
                n['k'] = 'UnaryOperator'
                n['op'] = '!'
                n['ch'] = [n['ch'][0]]


class Node(dict):
    """An AST node.  dict with keys i,k,l,t,v,op,n,q,fn,d,dk,ch ... plus .parent / .fn attributes."""
    __slots__ = ('parent', 'func')

    def __hash__(self):
        return id(self)

    def __eq__(self, o):
        return self is o

    @property
    def kind(self):
        return self['k']

    @property
    def kids(self):
        return self['ch']

    def walk(self):
        st = [self]
        while st:
            n = st.pop()
            yield n
            st.extend(reversed(n['ch']))

    def type(self):
        t = self.get('t')
        t = self.func.types[t] if t is not None and t >= 0 else ''
        # `T *const p` is, for every rule, a pointer to T: the top-level const of the pointer itself says nothing about what it points to
        return t[:-5].rstrip() if t.endswith('const') and t[:-5].rstrip().endswith('*') else t

    def ancestors(self):
        p = self.parent
        while p is not None:
            yield p
            p = p.parent

    def role(self, name):
        r = self.get('r_' + name)
        return self['ch'][r] if r is not None and r < len(self['ch']) else None

    def is_call(self):
        return self['k'] in ('CallExpr', 'CXXMemberCallExpr', 'CXXOperatorCallExpr', 'CXXConstructExpr', 'CXXTemporaryObjectExpr')

    def callee_q(self):
        return self.get('q') if self.is_call() else None

    def args(self):
        """argument nodes of a call (without the callee expression / implicit object)"""
        k = self['k']
        if k in ('CallExpr', 'CXXMemberCallExpr'):
            return self['ch'][1:]
        if k == 'CXXOperatorCallExpr':
            # ch[0] is the operator DeclRef; ch[1] the object (for member operators) ...
            return self['ch'][1:]
        if k in ('CXXConstructExpr', 'CXXTemporaryObjectExpr'):
            return self['ch']
        return []

    def receiver(self):
        """object expression of a member call, or None (implicit this gives a CXXThisExpr node)"""
        if self['k'] == 'CXXMemberCallExpr' and self['ch'] and self['ch'][0]['k'] == 'MemberExpr':
            me = self['ch'][0]
            return me['ch'][0] if me['ch'] else None
        return None

    def src(self):
        return '%s:%s' % (self.func.file, self.get('l'))

    def text(self, depth=6):
        """compact pseudo-source rendering for reports"""
        return render(self, depth)


def render(n, depth=6):
    if n is None:
        return '?'
    if depth <= 0:
        return '…'
    k = n['k']
    ch = n['ch']
    r = lambda x: render(x, depth - 1)
    if k == 'DeclRefExpr':
        return n.get('n', '?')
    if k == 'MemberExpr':
        b = ch[0] if ch else None
        if b is not None and b['k'] == 'CXXThisExpr':
            return n.get('n', '?')
        return r(b) + ('->' if n.get('arrow') else '.') + n.get('n', '?')
    if k in ('IntegerLiteral', 'CXXBoolLiteralExpr', 'CharacterLiteral'):
        return str(n.get('v'))
    if k == 'StringLiteral':
        return json.dumps(n.get('s', ''))
    if k == 'CXXThisExpr':
        return 'this'
    if k in ('BinaryOperator', 'CompoundAssignOperator'):
        return '(%s %s %s)' % (r(ch[0]), n.get('op'), r(ch[1]))
    if k == 'UnaryOperator':
        op = n.get('op', '')
        if op.startswith('post'):
            return r(ch[0]) + op[4:]
        if op.startswith('pre'):
            return op[3:] + r(ch[0])
        return op + r(ch[0])
    if k == 'CXXMemberCallExpr':
        return r(ch[0]) + '(' + ', '.join(r(a) for a in ch[1:]) + ')'
    if k == 'CallExpr':
        return r(ch[0]) + '(' + ', '.join(r(a) for a in ch[1:]) + ')'
    if k == 'CXXOperatorCallExpr':
        return (n.get('q', 'op').split('::')[-1]) + '(' + ', '.join(r(a) for a in ch[1:]) + ')'
    if k in ('CXXConstructExpr', 'CXXTemporaryObjectExpr'):
        return n.get('q', 'ctor').split('::')[-2] + '{' + ', '.join(r(a) for a in ch) + '}'
    if k == 'ConditionalOperator':
        return '(%s ? %s : %s)' % (r(ch[0]), r(ch[1]), r(ch[2]))
    if k == 'ArraySubscriptExpr':
        return '%s[%s]' % (r(ch[0]), r(ch[1]))
    if k.endswith('CastExpr'):
        return '(%s)%s' % (n.type(), r(ch[0]) if ch else '')
    if k == 'UnaryExprOrTypeTraitExpr':
        return 'sizeof(..)=%s' % n.get('v')
    if k == 'VarDecl':
        return '%s %s = %s' % (n.type(), n.get('n'), r(ch[0]) if ch else '')
    if k == 'ReturnStmt':
        return 'return ' + (r(ch[0]) if ch else '')
    if k == 'CXXDefaultArgExpr':
        return 'default(%s)' % n.get('v')
    return k + ('(' + ', '.join(r(c) for c in ch[:3]) + ')' if ch else '')


class Block(object):
    __slots__ = ('b', 'elems', 'succ', 'term', 'tk', 'cond', 'noret', 'lab', 'preds')

    def __init__(self, d):
        self.b = d['b']
        self.elems = []
        for e in d['e']:
            e = tuple(e) if isinstance(e, list) else e
            if self.elems and self.elems[-1] == e:
                continue      # wrappers (casts, temporaries) share the id of the node they wrap
            self.elems.append(e)
        self.succ = d['s']
        self.term = d.get('t')
        self.tk = d.get('tk')
        self.cond = d.get('c')
        self.noret = bool(d.get('noret'))
        self.lab = d.get('lab')
        self.preds = []


class Func(object):
    def __init__(self, rec, types, unit):
        self.rec = rec
        self.id = rec['id']
        self.q = rec['q']
        self.name = rec['name']
        self.file = rec['file']
        self.line = rec['line']
        self.endline = rec.get('endline')
        self.cls = rec.get('cls')
        self.clsfull = rec.get('clsfull')
        self.params = rec.get('params', [])
        self.calls = rec.get('calls', [])
        self.overrides = rec.get('overrides', [])
        self.virtual = bool(rec.get('virtual'))
        self.const = bool(rec.get('const'))
        self.types = types
        self.unit = unit
        self.full = 'body' in rec
        self.body = None
        self.nodes = {}
        self.inits = []
        self.blocks = {}
        self.entry = self.exit = None
        self._pos = None
        if self.full:
            self.body = self._adopt(rec['body'], None)
            for ini in rec.get('inits', []):
                if ini.get('e') is not None:
                    ini['e'] = self._adopt(ini['e'], None)
                self.inits.append(ini)
            # reference aliases: `T & x = _member;` (or `= _a._b`) makes x another name for that member for the rest of the function.  Every use of x carries the id of the member
            # expression (alias_i); msa.ast.strip_casts() follows it, so a rule that asks "which object is this call made on" sees the member, as if the alias had not been introduced.
            al = {}
            for n in self.nodes.values():
                if n['k'] == 'VarDecl' and n['ch'] and n.get('d') is not None:
                    t = self.types[n['t']] if n.get('t') is not None and n['t'] >= 0 else ''
                    if t.rstrip().endswith('&') and not t.rstrip().endswith('&&'):
                        x = n['ch'][0]
                        while x is not None and (x['k'].endswith('CastExpr') or x['k'] == 'ParenExpr') and x['ch']:
                            x = x['ch'][0]
                        y, pure = x, x is not None and x['k'] == 'MemberExpr'
                        while pure and y['k'] == 'MemberExpr':
                            if not y['ch']:
                                break
                            y = y['ch'][0]
                            while y['k'].endswith('CastExpr') or y['k'] == 'ParenExpr':
                                y = y['ch'][0]
                            pure = y['k'] in ('MemberExpr', 'CXXThisExpr', 'DeclRefExpr')       # … or a member of another local object / reference (`const Mutex & m = tsd._queueLock;`)
                        if pure:
                            al[n['d']] = x['i']
                            x['alias_binding'] = 1
            if al:
                for n in self.nodes.values():
                    if n['k'] == 'DeclRefExpr' and n.get('d') in al:
                        n['alias_i'] = al[n['d']]
            if _META == 'rename':
                # checker self-test: every local variable and parameter gets another name.  A rule whose verdict changes looks variables up by name instead of by what they hold.
                local = set(p_['d'] for p_ in self.params if p_.get('d') is not None)
                for n in self.nodes.values():
                    if n['k'] == 'VarDecl' and n.get('d') is not None:
                        local.add(n['d'])
                for p_ in self.params:
                    if p_.get('d') is not None:
                        p_['n'] = 'zz%d' % p_['d']
                for n in self.nodes.values():
                    if n.get('d') in local and n['k'] in ('VarDecl', 'DeclRefExpr', 'ParmVarDecl') and n.get('n') is not None:
                        n['n'] = 'zz%d' % n['d']
            cfg = rec.get('cfg')
            if cfg:
                for bd in cfg['blocks']:
                    blk = Block(bd)
                    self.blocks[blk.b] = blk
                self.entry = cfg['entry']
                self.exit = cfg['exit']
                for blk in self.blocks.values():
                    for s in blk.succ:
                        if s is not None and s >= 0:
                            self.blocks[s].preds.append(blk.b)
                    # In the last block of an `a && b` / `a || b` chain clang reports the whole chain as the condition;
                    # given that the block was reached, its value is that of the right-most leaf.
                    # That holds only where the right-most leaf is evaluated in this very block.  When the operands own temporaries with destructors clang builds a JOIN block
                    # instead: every short-circuit edge enters it and it branches on the value of the whole chain; there the chain itself stays the condition (implied_atoms()
                    # reads what a chain's truth value says about its operands).
                    c = self.nodes.get(blk.cond) if blk.cond is not None else None
                    els = set(e for e in (blk.elems or []) if isinstance(e, int))
                    while c is not None and c['k'] == 'BinaryOperator' and c.get('op') in ('&&', '||') and len(c['ch']) == 2:
                        r = c['ch'][1]
                        if c['op'] == '||' and els and not any(x['i'] in els for x in r.walk()):
                            break        # join block of an || chain: `chain is true` does NOT say that the right-most operand is true
                        # (join block of an && chain: `chain is true` does say that the right-most operand is true, and its false edge keeps being read as "the last test failed
                        # or was never reached", which is how the pairing rules have always read `if (a && b.IsOK())`)
                        c = r
                        blk.cond = c['i']

    def _adopt(self, d, parent):
        # iterative conversion to Node
        root = Node(d)
        root.parent = parent
        root.func = self
        st = [root]
        while st:
            n = st.pop()
            self.nodes[n['i']] = n
            ch = n.get('ch') or []
            new = []
            for c in ch:
                if c is None:
                    continue
                cn = Node(c)
                cn.parent = n
                cn.func = self
                new.append(cn)
                st.append(cn)
            n['ch'] = new
        if _META:
            _metamorph(self, root, _META)
        return root

    def ptype(self, p):
        return self.types[p['t']] if p.get('t', -1) >= 0 else ''

    def rtype(self):
        t = self.rec.get('rt')
        return self.types[t] if t is not None and t >= 0 else ''

    def walk(self):
        if self.body is not None:
            for n in self.body.walk():
                yield n
        for ini in self.inits:
            if ini.get('e') is not None:
                for n in ini['e'].walk():
                    yield n

    def pos(self, node_id):
        """(block id, index in block) of a node in the CFG, or None"""
        if self._pos is None:
            self._pos = {}
            for blk in self.blocks.values():
                for idx, e in enumerate(blk.elems):
                    if isinstance(e, int) and e not in self._pos:
                        self._pos[e] = (blk.b, idx)
        return self._pos.get(node_id)

    def where(self, node=None):
        return '%s:%s' % (self.file, node.get('l') if node is not None else self.line)

    def __repr__(self):
        return '<Func %s %s:%s>' % (self.name, self.file, self.line)


class Facts(object):
    def __init__(self):
        self.funcs = {}       # mangled id -> Func (full wins over lite)
        self.by_q = {}        # generic qualified name -> [Func]
        self.recs = {}        # full name -> rec
        self.recs_q = {}      # generic name -> [rec]
        self.enums = []
        self.vars = {}
        self.var_list = []    # every global/static constant record (same name may occur in several units)
        self.gvars = []       # storage records of namespace-scope / static-member variable definitions: q, file, line, type, tls
        self.macros = {}      # name -> [ {file,line,body} ]
        self.units = []
        self.errors = []
        self.stats = {'units': 0, 'fns': 0, 'full': 0, 'cfgfail': 0, 'bytes': 0, 'extract_s': 0.0}
        self._overriders = None

    # ------------------------------------------------------------------ loading
    def load_file(self, path, want_full=None):
        types = []
        pending = []
        unit = None
        with open(path) as f:
            data = f.read()
        self.stats['bytes'] += len(data)
        for line in data.split('\n'):
            if not line:
                continue
            if line.startswith('{"k":"fn"'):
                # cheap id peek to skip duplicates that we already hold in full form
                m = re.match(r'\{"k":"fn","id":"([^"]+)"', line)
                fid = m.group(1) if m else None
                have = self.funcs.get(fid)
                is_full = '"body":' in line
                if have is not None and (have.full or not is_full):
                    continue
                pending.append(line)
                continue
            rec = json.loads(line)
            k = rec['k']
            if k == 'types':
                types = rec['list']
            elif k == 'unit':
                unit = rec['file']
                self.units.append(unit)
            elif k == 'rec':
                if rec['name'] not in self.recs:
                    self.recs[rec['name']] = rec
                    self.recs_q.setdefault(rec['q'], []).append(rec)
                    rec['_types'] = None
                    rec['_unitfile'] = path
                    pending.append(rec)
            elif k == 'enum':
                self.enums.append(rec)
            elif k == 'var':
                self.vars.setdefault(rec['q'], rec)
                self.var_list.append(rec)
                pending.append(rec)
            elif k == 'gvar':
                self.gvars.append(rec)
                pending.append(rec)
            elif k == 'macro':
                self.macros.setdefault(rec['n'], []).append(rec)
            elif k == 'stats':
                self.stats['fns'] += rec['fns']
                self.stats['full'] += rec['full']
                self.stats['cfgfail'] += rec['cfgfail']
            elif k == 'error':
                self.errors.append((path, rec.get('what')))
        self.stats['units'] += 1
        for item in pending:
            if isinstance(item, dict):
                item['_types'] = types
                continue
            rec = json.loads(item)
            f = Func(rec, types, unit)
            old = self.funcs.get(f.id)
            if old is not None and (old.full or not f.full):
                continue
            self.funcs[f.id] = f
        return self

    def index(self):
        self.by_q = {}
        for f in self.funcs.values():
            f.facts = self
            self.by_q.setdefault(f.q, []).append(f)
        for l in self.by_q.values():
            l.sort(key=lambda f: (f.file, f.line, f.id))
        self._overriders = None

    # ------------------------------------------------------------------ lookups
    def fn(self, q, required=True, full=True):
        """all functions with generic qualified name q"""
        r = [f for f in self.by_q.get(q, []) if (f.full or not full)]
        if required and not r:
            raise AnalysisBroken('anchor function %s not found in the analysed units (renamed or removed?)' % q)
        return r

    def fn1(self, q, pred=None):
        r = self.fn(q)
        if pred:
            r = [f for f in r if pred(f)]
        if len(r) != 1:
            # prefer a unique definition site
            sites = set((f.file, f.line) for f in r)
            if len(sites) == 1 and r:
                return r[0]
            raise AnalysisBroken('anchor function %s: expected exactly one definition, found %d' % (q, len(r)))
        return r[0]

    def fns_matching(self, regex, full=True):
        rx = re.compile(regex)
        return [f for f in self.funcs.values() if rx.search(f.q) and (f.full or not full)]

    def overriders(self):
        """method id -> set of ids of methods that (transitively) override it"""
        if self._overriders is None:
            direct = {}
            for f in self.funcs.values():
                for o in f.overrides:
                    direct.setdefault(o, set()).add(f.id)
            for r in self.recs.values():
                for m in r.get('methods', []):
                    for o in m.get('overrides', []):
                        direct.setdefault(o, set()).add(m['fn'])
            clo = {}
            for m in list(direct):
                seen = set()
                st = list(direct[m])
                while st:
                    x = st.pop()
                    if x in seen:
                        continue
                    seen.add(x)
                    st.extend(direct.get(x, ()))
                clo[m] = seen
            self._overriders = clo
        return self._overriders

    def enum_const(self, name):
        for e in self.enums:
            if name in e['consts']:
                return e['consts'][name]
        return None


def run_extract(units, outdir, fn_regex='.*', repo=None, macros=False, no_bodies=False, jobs=16, extra_flags=None):
    repo = repo or REPO
    if not os.path.exists(EXTRACT):
        raise AnalysisBroken('%s not built (run MANIFEST.setup_cmd)' % EXTRACT)
    os.makedirs(outdir, exist_ok=True)
    t0 = time.time()

    def one(u):
        src = u if os.path.isabs(u) else os.path.join(repo, u)
        if not os.path.exists(src):
            return (u, None, 'missing source file')
        out = os.path.join(outdir, re.sub(r'[^A-Za-z0-9_.]', '_', u) + '.jsonl')
        is_c = src.endswith('.c')
        flags = list(CFLAGS if is_c else CXXFLAGS) + ['-I' + repo] + (extra_flags or [])
        if is_c:
            flags += ['-I' + os.path.dirname(src)]
        cmd = [EXTRACT, '--root', repo, '--out', out, '--fn-regex', fn_regex]
        if macros:
            cmd.append('--macros')
        if no_bodies:
            cmd.append('--no-bodies')
        cmd += [src, '--'] + flags
        p = subprocess.run(cmd, stdout=subprocess.PIPE, stderr=subprocess.PIPE, text=True)
        if p.returncode != 0:
            return (u, out, 'extractor exit %d: %s' % (p.returncode, p.stderr[-2000:]))
        return (u, out, None)

    with ThreadPoolExecutor(max_workers=jobs) as ex:
        res = list(ex.map(one, units))
    return res, time.time() - t0


def load(units, fn_regex='.*', repo=None, macros=False, no_bodies=False, keep=False, extra_units=None, extra_flags=None):
    """Extract + load.  units: paths relative to the repo root.  extra_units: absolute paths (e.g. the
    forced-instantiation unit under /verif)."""
    repo = repo or REPO
    outroot = os.path.join(VERIF, 'out')
    os.makedirs(outroot, exist_ok=True)
    outdir = tempfile.mkdtemp(prefix='facts-', dir=outroot)
    try:
        allu = list(units) + list(extra_units or [])
        res, dt = run_extract(allu, outdir, fn_regex=fn_regex, repo=repo, macros=macros, no_bodies=no_bodies, extra_flags=extra_flags)
        facts = Facts()
        facts.stats['extract_s'] = round(dt, 2)
        for (u, out, err) in res:
            if err:
                raise AnalysisBroken('unit %s: %s' % (u, err))
        for (u, out, err) in res:
            facts.load_file(out)
        if facts.errors:
            raise AnalysisBroken('parse errors in: %s' % ', '.join(sorted(set(p for p, _ in facts.errors))))
        facts.index()
        facts.unit_list = allu
        return facts
    finally:
        if not keep:
            shutil.rmtree(outdir, ignore_errors=True)
