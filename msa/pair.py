"""PAIR / ORDER helpers (DESIGN 3.8): must-follow / must-precede with escape edges, argument agreement."""
import re
from . import cfg as C
from . import ast as A
from .taint import P_canon


def strip_not(n, pol=True):
    while True:
        if n['k'] == 'UnaryOperator' and n.get('op') == '!':
            pol = not pol
            n = n['ch'][0]
            continue
        if n['k'] == 'BinaryOperator' and n.get('op') in ('==', '!=') and len(n['ch']) == 2:
            r = A.strip_casts(n['ch'][1])
            if r['k'] == 'CXXBoolLiteralExpr':
                if (n['op'] == '==') != bool(r.get('v')):
                    pol = not pol
                n = n['ch'][0]
                continue
            if r['k'] in ('GNUNullExpr', 'CXXNullPtrLiteralExpr') or (r.get('v') == 0 and A.strip_casts(n['ch'][0]).type().endswith('*')):
                # x == NULL : true means null
                if n['op'] == '==':
                    pol = not pol
                n = n['ch'][0]
                continue
        break
    return A.strip_casts(n), pol


def is_status_test(n):
    """(kind) 'ok' if n is X.IsOK(...), 'err' if X.IsError(...), else None"""
    if n['k'] == 'CXXMemberCallExpr':
        q = n.get('q') or ''
        if q in ('muscle::status_t::IsOK', 'muscle::io_status_t::IsOK'):
            return 'ok'
        if q in ('muscle::status_t::IsError', 'muscle::io_status_t::IsError'):
            return 'err'
    return None


def is_pointerish(n):
    t = re.sub(r'\s*\b(const|volatile|__restrict)\s*$', '', (n.type() or '').strip())      # `T *const p` is a pointer too
    if t.endswith('*'):
        return True
    if n['k'] == 'CXXOperatorCallExpr' and (n.get('q') or '').split('::')[-1] in ('operator()',) and re.search(r'^muscle::(Const)?Ref::', n.get('q') or ''):
        return True
    if n['k'] == 'CXXMemberCallExpr' and (n.get('q') or '').endswith('::GetItemPointer'):
        return True
    return False


def escape_edges(f, status=True, null=True, extra=None):
    """edges on which 'nothing had to happen': a status test failed, or a pointer was null.
    extra(cond_node, polarity_on_true_edge) -> 'true'|'false'|None may add more."""
    out = set()
    for blk in f.blocks.values():
        if blk.cond is None or blk.cond not in f.nodes or len(blk.succ) != 2 or blk.tk == 'SwitchStmt':
            continue
        n, pol = strip_not(f.nodes[blk.cond])
        # pol == True: the true edge means n holds
        st = is_status_test(n)
        if status and st:
            # failure edge
            fail_when_n = (st == 'err')
            # edge index 0 = cond true.  cond true <=> n == pol
            # we want the edge where (n == fail_when_n)
            idx = 0 if (pol == fail_when_n) else 1
            out.add((blk.b, idx))
            continue
        if null and is_pointerish(n):
            # null edge: n false
            idx = 1 if pol else 0
            out.add((blk.b, idx))
            continue
        if extra:
            r = extra(n, pol)
            if r == 'true':
                out.add((blk.b, 0))
            elif r == 'false':
                out.add((blk.b, 1))
    return out


def calls(f, qre, pred=None):
    rx = re.compile(qre)
    out = []
    for n in f.walk():
        if n.is_call() and rx.search(n.get('q') or '') and (pred is None or pred(n)):
            out.append(n)
    return out


def pos_of(f, n):
    p = f.pos(n['i'])
    if p is None:
        for a in n.ancestors():
            p = f.pos(a['i'])
            if p is not None:
                break
    return p


def must_follow(f, a, bs, escapes=()):
    """every path from node a to the function exit passes one of nodes bs, except via escape edges.
    returns (ok, offending path of blocks)"""
    sp = pos_of(f, a)
    if sp is None:
        return False, None
    tp = set(p for p in (pos_of(f, b) for b in bs) if p)
    return C.must_pass(f, sp, tp, avoid_edges=escapes)


def must_precede(f, as_, b, escapes=()):
    """every path from the function entry to node b passes one of nodes as_, except via escape edges"""
    bp = pos_of(f, b)
    if bp is None:
        return False
    ap = {}
    for a in as_:
        p = pos_of(f, a)
        if p:
            ap.setdefault(p[0], []).append(p[1])
    if bp[0] in ap and any(i < bp[1] for i in ap[bp[0]]):
        return True
    escapes = set(escapes)
    seen = set()
    st = [f.entry]
    while st:
        x = st.pop()
        if x in seen:
            continue
        seen.add(x)
        if x == bp[0]:
            return False
        if x in ap:
            continue
        for idx, s in enumerate(f.blocks[x].succ):
            if s is None or s < 0 or (x, idx) in escapes:
                continue
            st.append(s)
    return True


def same_value(x, y):
    return P_canon(x) == P_canon(y)
