"""STICKY (DESIGN 3.4): the value-returning reads of DataUnflattenerHelper report failure only through the reader's
sticky status.  Every status-returning Unflatten-protocol function that uses such a read must, on every path from the
read to a return that can be OK, consult that reader's GetStatus()."""
import re
from . import cfg as C
from . import ast as A

STICKY_READ = re.compile(r'^muscle::DataUnflattenerHelper::(Read(Byte|Int8|Int16|Int32|Int64|Float|Double|Primitive|CString|Flat|FlatWithLengthPrefix))$')
OK_CONSTS = ('muscle::B_NO_ERROR', 'muscle::B_OK')


def reader_params(f):
    out = []
    for p in f.params:
        t = f.ptype(p)
        if 'DataUnflattenerHelper<' in t and t.rstrip().endswith('&') and not t.startswith('const '):
            out.append(p['d'])
    return out


def is_sticky_read(n):
    if n['k'] != 'CXXMemberCallExpr' or not STICKY_READ.search(n.get('q') or ''):
        return False
    t = n.type()
    return t not in ('muscle::status_t', 'void')


def returned_kind(f, ret, reader):
    """'consult' | 'error' | 'maybe-ok'"""
    if not ret['ch']:
        return 'maybe-ok'
    e = A.strip_casts(ret['ch'][0])
    # unwrap copy construction of status_t
    while e['k'] in ('CXXConstructExpr', 'CXXFunctionalCastExpr') and len(e['ch']) == 1:
        e = A.strip_casts(e['ch'][0])
    if e['k'] == 'CXXMemberCallExpr' and (e.get('q') or '').endswith('DataUnflattenerHelper::GetStatus'):
        r = e.receiver()
        if r is not None and A.root_loc(r) == ('v', reader):
            return 'consult'
    if e['k'] == 'DeclRefExpr' and 'd' not in e:
        return 'maybe-ok' if e.get('q') in OK_CONSTS else 'error'
    if e['k'] == 'DeclRefExpr' and 'd' in e:
        # `if (x.IsError()) return x;`
        p = f.pos(ret['i'])
        if p:
            for (c, truth) in C.guards_of_block(f, p[0]):
                cn = f.nodes.get(c)
                if cn is None:
                    continue
                pol = truth
                n = cn
                while n['k'] == 'UnaryOperator' and n.get('op') == '!':
                    pol = not pol
                    n = n['ch'][0]
                if n['k'] == 'CXXMemberCallExpr' and (n.get('q') or '').endswith('status_t::IsError') and pol:
                    r = n.receiver()
                    if r is not None and A.strip_casts(r).get('d') == e['d']:
                        return 'error'
                if n['k'] == 'CXXMemberCallExpr' and (n.get('q') or '').endswith('status_t::IsOK') and not pol:
                    r = n.receiver()
                    if r is not None and A.strip_casts(r).get('d') == e['d']:
                        return 'error'
        return 'maybe-ok'
    return 'maybe-ok'


def sticky_rule(res, fx, rule='STICKY', file_re=None, floor=8):
    res.rule(rule, 'in every status-returning function that takes a DataUnflattener& and uses a value-returning (sticky) read, each path from such a read to a return that can be OK '
                   'passes a call of GetStatus() on that reader', floor=floor)
    seen = set()
    for f in sorted(fx.funcs.values(), key=lambda f: (f.file, f.line, f.id)):
        if not f.full or not f.blocks or f.rtype() != 'muscle::status_t':
            continue
        if re.search(r'^muscle::DataUnflattenerHelper::', f.q):
            continue
        if file_re and not re.search(file_re, f.file):
            continue
        rps = reader_params(f)
        if not rps:
            continue
        site = (f.file, f.line, f.q)
        if site in seen:
            continue
        for reader in rps:
            reads = []
            consults = []
            for n in f.walk():
                if n['k'] == 'CXXMemberCallExpr':
                    r = n.receiver()
                    if r is None or A.root_loc(r) != ('v', reader):
                        continue
                    if is_sticky_read(n):
                        reads.append(n)
                    elif (n.get('q') or '').endswith('DataUnflattenerHelper::GetStatus'):
                        consults.append(n)
            if not reads:
                continue
            seen.add(site)
            cpts = set(p for p in (f.pos(c['i']) for c in consults) if p)
            rets = [n for n in f.walk() if n['k'] == 'ReturnStmt']
            bad = None
            for rd in reads:
                sp = f.pos(rd['i'])
                if sp is None:
                    continue
                for rt in rets:
                    kind = returned_kind(f, rt, reader)
                    if kind != 'maybe-ok':
                        continue
                    rp = f.pos(rt['i'])
                    if rp is None:
                        continue
                    # is the return reachable from the read without passing a consult?
                    if C.can_reach(f, sp, set([rp]), avoid_points=cpts):
                        bad = (rd, rt)
                        break
                if bad:
                    break
            where = f.where()
            if bad:
                rd, rt = bad
                res.ob(rule, f.where(rt), '%s consults the reader status after its sticky reads' % f.q, False, function=f.q,
                       key='%s|%s|%s' % (rule, f.q, (rd.get('q') or '').split('::')[-1]),
                       message='%s: `%s` (line %s) reports failure only through the reader\'s sticky status, but `%s` (line %s) can return OK without consulting GetStatus(): '
                               'truncated or unterminated input is accepted as a well-formed object' % (f.q, rd.text(60), rd.get('l'), rt.text(60), rt.get('l')))
            else:
                res.ob(rule, where, '%s consults the reader status after its sticky reads' % f.q, True,
                       how='%d sticky read(s), %d GetStatus() consult(s); every possibly-OK return is behind a consult' % (len(reads), len(consults)), function=f.q)
