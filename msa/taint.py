"""TAINT -> SINK guard dominance (DESIGN 3.2).

Per function: flow-insensitive taint of locals (origins: wire sources, tainted parameters), flow-sensitive
discharge at sinks by dominating guards.  Interprocedural through on-demand summaries:
   ret(g)        origins of g's return value      ('src' | ('param', k))
   out(g, j)     origins written through out-parameter j
   sink(g, k)    parameter k reaches a sink inside g (transitively) without being guarded inside g
"""
import re
from . import cfg as C
from . import ast as A

SRC = 'src'

# ---- source vocabulary (frozen from the repository's decode primitives) -------------------------------
RE_READER = r'^muscle::DataUnflattenerHelper::'
SRC_RET = re.compile(r'^muscle::DataUnflattenerHelper::Read(Byte|Int8|Int16|Int32|Int64|Float|Double|Primitive)$|^muscle::muscleCopyIn$|'
                     r'^muscle::(LittleEndian|BigEndian|NativeEndian)Converter::Import$|^(UMReadInt32|ReadInt32FromBuffer)$')
# (callee regex, index of the out argument that receives wire data)
SRC_OUT = [
    (re.compile(r'^muscle::DataUnflattenerHelper::Read(Byte|Bytes|Int8s|Int16s|Int32s|Int64s|Floats|Doubles|Primitives)$'), 0),
    (re.compile(r'^muscle::(LittleEndian|BigEndian|NativeEndian)Converter::Import$'), 1),
    (re.compile(r'^ReadData$'), 3),          # lang/c/minimessage: ReadData(buf, size, &offset, copyTo, blockSize)
]
# value-returning functions whose result is trusted regardless of their arguments (sizes of local buffers)
TRUSTED_RET = re.compile(r'::(GetNumBytesAvailable|GetNumBytes|GetNumBytesRead|GetMaxNumBytes|GetNumValidBytes|FlattenedSize|GetNumItems|Length|GetHeaderSize|GetMaximumPacketSize|GetNumBytesAllocated)$|^(strlen)$')
# result is an upper-bounded version of the arguments: tainted only if *all* value arguments are tainted
MIN_LIKE = re.compile(r'^muscle::muscleMin$')
PASS_THROUGH = re.compile(r'^muscle::(muscleMax|muscleClamp|muscleAbs|muscleSwapBytes|B_SWAP_[A-Z0-9]+)$|^(ntohl|ntohs|htonl|htons|B_SWAP_[A-Z0-9]+|__bswap_\d+|__uint\d+_identity)$')

# ---- sinks -----------------------------------------------------------------------------------------------
# (callee regex, [(arg index, kind)]); kinds: READER COPY ALLOC INDEX
SINKS = [
    (re.compile(r'^muscle::DataUnflattenerHelper::\(ctor\)$'), [(1, 'READER')]),
    (re.compile(r'^muscle::DataUnflattenerHelper::(SetBuffer|SetMaxNumBytes)$'), [(1, 'READER'), (0, 'READER0')]),
    (re.compile(r'^(memcpy|memmove|__builtin_memcpy|__builtin_memmove)$'), [(2, 'COPY')]),
    (re.compile(r'^(memset|__builtin_memset|bzero)$'), [(2, 'FILL')]),
    (re.compile(r'^(strncpy|strncat|muscleStrncpy)$'), [(2, 'COPY')]),
    (re.compile(r'^muscle::ByteBuffer::(AppendBytes)$'), [(1, 'COPY')]),
    (re.compile(r'^muscle::ByteBuffer::(SetBuffer|AdoptBuffer)$'), [(0, 'COPY')]),
    (re.compile(r'^muscle::GetByteBufferFromPool$'), [(0, 'ALLOCCOPY')]),
    (re.compile(r'^muscle::ByteBuffer::(SetNumBytes|SetNumBytesWithExtraSpace|AppendBytes)$'), [(0, 'ALLOC')]),
    (re.compile(r'^muscle::(Queue|Hashtable|HashtableMid|HashtableBase)::(EnsureSize|EnsureCanAdd|EnsureCanPut)$'), [(0, 'ALLOC')]),
    (re.compile(r'^(malloc|calloc|realloc|muscleAlloc|muscleRealloc|MBAllocByteBuffer|MMAllocMessage)$'), [(0, 'ALLOC'), (1, 'ALLOC')]),
    (re.compile(r'^muscle::String::SetCstr$'), [(1, 'COPY')]),
    (re.compile(r'^muscle::AbstractMessageIOGateway::HandleIncomingByteBuffer$|^muscle::ProxyIOGateway::HandleIncomingByteBuffer$'), [(2, 'COPY')]),
]
OVERFLOW_CHECK = re.compile(r'^muscle::WillUnsigned(Add|Multiply)Overflow$|^WillUnsigned(Add|Multiply)Overflow$')
# calls whose status result says "argument k fits the remaining buffer"
CHECKERS = [
    (re.compile(r'^muscle::DataUnflattenerHelper::(SizeCheck|SeekRelative|SeekTo|ReadBytes|ReadInt8s|ReadInt16s|ReadInt32s|ReadInt64s|ReadFloats|ReadDoubles|ReadPrimitives)$'), None),
]


SIGNED_INT = re.compile(r'^(int|long|long long|short|signed char|ssize_t|ptrdiff_t)$')
NARROW = {'unsigned short': 16, 'short': 16, 'unsigned char': 8, 'signed char': 8, 'char': 8}


def callee(n):
    return n.get('q') or ''


class FnTaint(object):
    """taint facts of one function under a given set of tainted parameter indices"""

    def __init__(self, eng, f, tparams=frozenset()):
        self.eng = eng
        self.f = f
        self.tparams = tparams
        self.var = {}      # local decl id -> set(origins)
        self.memo = {}
        self.field = {}    # member q -> origins (this-> fields written with tainted data inside this function)
        self.vfield = {}   # (local decl id, field name) -> origins: explicit stores  x->f = tainted / x.f = tainted
        for i, p in enumerate(f.params):
            if i in tparams:
                self.var[p['d']] = set([('param', i)])
        self.fix()

    # ----------------------------------------------------------------- expression taint
    def et(self, n):
        i = n['i']
        if i in self.memo:
            return self.memo[i]
        self.memo[i] = frozenset()
        r = self._et(n)
        self.memo[i] = r
        return r

    def _et(self, n):
        k = n['k']
        if 'v' in n and k != 'DeclRefExpr':
            return frozenset()
        if k == 'DeclRefExpr':
            if 'v' in n:
                return frozenset()
            if 'd' in n:
                return frozenset(self.var.get(n['d'], ()))
            return frozenset()
        if k == 'MemberExpr':
            if n.get('dk') == 'Field':
                # field of a tainted aggregate local (struct decoded from the wire) is tainted
                if A.is_this_member(n):
                    return frozenset(self.field.get(n.get('q'), ()))
                r = self.et(n['ch'][0]) if n['ch'] else frozenset()
                b = A.strip_casts(n['ch'][0]) if n['ch'] else None
                if b is not None and b['k'] == 'DeclRefExpr' and 'd' in b:
                    r = r | frozenset(self.vfield.get((b['d'], n.get('n')), ()))
                return r
            return frozenset()
        if k in ('IntegerLiteral', 'CharacterLiteral', 'CXXBoolLiteralExpr', 'StringLiteral', 'FloatingLiteral', 'CXXNullPtrLiteralExpr', 'GNUNullExpr',
                 'UnaryExprOrTypeTraitExpr', 'CXXThisExpr', 'CXXDefaultArgExpr'):
            return frozenset()
        if k in ('BinaryOperator', 'CompoundAssignOperator'):
            op = n.get('op')
            if op in ('<', '<=', '>', '>=', '==', '!=', '&&', '||'):
                return frozenset()
            l, r = n['ch'][0], n['ch'][1]
            if op == '=':
                return self.et(r)
            if op == ',':
                return self.et(r)
            if op == '%':
                return self.et(r)           # x % trusted is bounded by trusted
            if op == '&':
                if 'v' in l or 'v' in r:
                    return frozenset()      # masked with a constant
                return self.et(l) & self.et(r) if (self.et(l) and self.et(r)) else frozenset()
            if op in ('>>', '/'):
                return self.et(l)
            if op == '-' and (self.ptrlike(l) and self.ptrlike(r)):
                # difference of two pointers into a buffer: a length derived from positions, trusted if both are
                return self.et(l) | self.et(r)
            return self.et(l) | self.et(r)
        if k == 'UnaryOperator':
            op = n.get('op', '')
            if op in ('!',):
                return frozenset()
            if op == '*':
                # dereference of a pointer: data read from memory the pointer designates.  Tainted when the pointer
                # designates wire memory; we track this through `wirebuf` locals
                return self.et(n['ch'][0])
            if op == '&':
                return self.et(n['ch'][0])
            return self.et(n['ch'][0])
        if k == 'ConditionalOperator':
            return self.et(n['ch'][1]) | self.et(n['ch'][2])
        if k == 'ArraySubscriptExpr':
            return self.et(n['ch'][0])
        if k.endswith('CastExpr') or k in ('ParenExpr',):
            return self.et(n['ch'][0]) if n['ch'] else frozenset()
        if k in A.CALL_KINDS:
            return self.call_ret(n)
        if k == 'InitListExpr':
            r = frozenset()
            for c in n['ch']:
                r |= self.et(c)
            return r
        return frozenset()

    def ptrlike(self, n):
        t = n.type()
        return t.endswith('*')

    def call_ret(self, n):
        q = callee(n)
        k = n['k']
        args = n.args()
        if k in ('CXXConstructExpr', 'CXXTemporaryObjectExpr'):
            # copy/conversion constructors propagate (uint32 -> io_status_t etc.)
            r = frozenset()
            for a in args:
                r |= self.et(a)
            return r
        if SRC_RET.search(q):
            # the 2-argument Import writes through its out-parameter and returns void
            if n.type() != 'void':
                return frozenset([SRC])
            return frozenset()
        if TRUSTED_RET.search(q):
            return frozenset()
        if MIN_LIKE.search(q):
            vals = [self.et(a) for a in args[:2]]
            if all(vals):
                return vals[0] | vals[1]
            return frozenset()
        if PASS_THROUGH.search(q):
            r = frozenset()
            for a in args:
                r |= self.et(a)
            return r
        if k == 'CXXOperatorCallExpr':
            # arithmetic/conversion operators on small value classes: propagate operands
            opn = q.split('::')[-1]
            if opn in ('operator()', 'operator->', 'operator*', 'operator[]'):
                return self.et(args[0]) if args else frozenset()
            return frozenset()
        if k == 'CXXMemberCallExpr':
            r = n.receiver()
            mname = q.split('::')[-1]
            # accessors on a tainted value object (e.g. io_status_t::GetByteCount on a tainted count) propagate
            if r is not None and n.get('cm') and not args and self.eng.is_value_accessor(n):
                return self.et(r)
        # summaries
        s = self.eng.summary_ret(n)
        if s:
            out = set()
            for o in s:
                if o == SRC:
                    out.add(SRC)
                elif o[0] == 'param':
                    # map to the argument (member calls: params are the explicit args)
                    idx = o[1]
                    aa = self.explicit_args(n)
                    if idx < len(aa):
                        out |= self.et(aa[idx])
            return frozenset(out)
        return frozenset()

    def explicit_args(self, n):
        args = n.args()
        if n['k'] == 'CXXOperatorCallExpr' and n.get('pk') is not None and len(n['pk']) == len(args) - 1:
            return args[1:]
        return args

    # ----------------------------------------------------------------- fixpoint over assignments
    def fix(self):
        f = self.f
        assigns = []     # (target root loc, rhs node)
        outw = []        # (call node) for out-param effects
        for n in f.walk():
            k = n['k']
            if k == 'VarDecl' and n['ch']:
                assigns.append((('v', n['d']), n['ch'][0]))
            elif k in ('BinaryOperator', 'CompoundAssignOperator') and n.get('op') in A.ASSIGN_OPS:
                lhs = A.strip_casts(n['ch'][0])
                loc = A.root_loc(lhs)
                if lhs['k'] == 'MemberExpr' and lhs.get('dk') == 'Field' and not A.is_this_member(lhs) and lhs['ch']:
                    b = A.strip_casts(lhs['ch'][0])
                    if b['k'] == 'DeclRefExpr' and 'd' in b:
                        loc = ('vf', b['d'], lhs.get('n'))
                assigns.append((loc, n['ch'][1]))
            elif k in A.CALL_KINDS:
                outw.append(n)
        changed = True
        rounds = 0
        while changed and rounds < 12:
            rounds += 1
            changed = False
            self.memo = {}
            for (loc, rhs) in assigns:
                t = self.et(rhs)
                if t:
                    # a value that is already bounded by a trusted quantity where it is assigned carries no taint on
                    if self.bounded(rhs, rhs):
                        continue
                    changed |= self.add(loc, t)
            for c in outw:
                q = callee(c)
                args = self.explicit_args(c)
                for (rx, idx) in SRC_OUT:
                    if rx.search(q) and idx < len(args):
                        pk = c.get('pk') or ''
                        if idx < len(pk) and pk[idx] in ('m', 'p'):
                            changed |= self.add(A.root_loc(args[idx]), frozenset([SRC]))
                so = self.eng.summary_out(c)
                for j, origins in so.items():
                    if j < len(args):
                        t = set()
                        for o in origins:
                            if o == SRC:
                                t.add(SRC)
                            elif o[0] == 'param' and o[1] < len(args):
                                t |= self.et(args[o[1]])
                        if t:
                            changed |= self.add(A.root_loc(args[j]), frozenset(t))

    def add(self, loc, t):
        if loc[0] == 'v':
            cur = self.var.setdefault(loc[1], set())
            n0 = len(cur)
            cur |= t
            return len(cur) != n0
        if loc[0] == 'vf':
            cur = self.vfield.setdefault((loc[1], loc[2]), set())
            n0 = len(cur)
            cur |= t
            return len(cur) != n0
        if loc[0] == 'm':
            cur = self.field.setdefault(loc[1], set())
            n0 = len(cur)
            cur |= t
            return len(cur) != n0
        return False

    # ----------------------------------------------------------------- guards
    def guards_at(self, node):
        """[(cond node, truth)] of branch edges dominating node"""
        f = self.f
        p = f.pos(node['i'])
        if p is None:
            for a in node.ancestors():
                p = f.pos(a['i'])
                if p is not None:
                    break
        if p is None:
            return []
        out = []
        for (c, truth) in C.guards_of_block(f, p[0]):
            cn = f.nodes.get(c)
            if cn is not None:
                out.append((cn, truth))
        return out

    def vars_in(self, n):
        return set(x['d'] for x in n.walk() if x['k'] == 'DeclRefExpr' and 'd' in x and 'v' not in x)

    def tainted_vars(self, expr):
        tv = set(('v', d) for d in self.vars_in(expr) if self.var.get(d))
        for x in expr.walk():
            if x['k'] == 'MemberExpr' and x.get('dk') == 'Field' and A.is_this_member(x) and self.field.get(x.get('q')):
                tv.add(('m', x.get('q')))
        return tv

    def bounded(self, expr, at, depth=0):
        """Is the tainted value of `expr` upper-bounded by a trusted quantity on every path to `at`?
        Returns a justification string or None.  (DESIGN 3.2 'Discharge')"""
        if not self.et(expr):
            return 'untainted'
        if depth > 3:
            return None
        if expr['k'].endswith('CastExpr') and expr.type() in NARROW:
            return 'value is cast to the %d-bit type `%s` (bounded by the type)' % (NARROW[expr.type()], expr.type())
        e = A.strip_casts(expr)
        key = P_canon(e)
        tv = self.tainted_vars(e)
        bvars = {}           # tainted variable -> justification
        for (cn, truth) in self.guards_at(at):
            for (a, why, cls, _b) in self.cond_upper_bounds(cn, truth, depth):
                a = A.strip_casts(a)
                if P_canon(a) == key:
                    return why
                if self.monotone(a):
                    for v in self.tainted_vars(a):
                        bvars.setdefault(v, (why, cls))
        for (a, why) in self.checked_args(at):
            a = A.strip_casts(a)
            if P_canon(a) == key:
                return why
            if self.monotone(a):
                for v in self.tainted_vars(a):
                    bvars.setdefault(v, (why, 'buffer'))
        # (x / y) * y  <=  x
        if e['k'] == 'BinaryOperator' and e.get('op') == '*':
            for (p, q) in ((e['ch'][0], e['ch'][1]), (e['ch'][1], e['ch'][0])):
                d = self.single_def(A.strip_casts(p))
                if d is not None and d['k'] == 'BinaryOperator' and d.get('op') == '/' and P_canon(d['ch'][1]) == P_canon(q):
                    j = self.bounded(d['ch'][0], at, depth + 1)
                    if j:
                        return '(%s / y) * y <= %s, which is bounded: %s' % (d['ch'][0].text(), d['ch'][0].text(), j)
        if tv and all(v in bvars for v in tv) and self.non_amplifying(e):
            return '; '.join(sorted(set(bvars[v][0] for v in tv)))
        self._last_bvars = bvars
        return None

    def bounded_by_remaining(self, expr, at, reader_root):
        """SAME-READER: `expr` bytes are consumed at reader R's current read pointer, so the bound must be R's *remaining* bytes:
        a dominating guard whose bound side is (derived from) R.GetNumBytesAvailable(), or a successful checking call on R."""
        e = A.strip_casts(expr)
        key = P_canon(e)
        tv = self.tainted_vars(e)

        def mentions_remaining(b, depth=0):
            for x in b.walk():
                if x['k'] == 'CXXMemberCallExpr' and (x.get('q') or '').endswith('::GetNumBytesAvailable'):
                    r = x.receiver()
                    if r is not None and A.root_loc(r) == reader_root:
                        return True
                if x['k'] == 'DeclRefExpr' and 'd' in x and depth < 3:
                    d = self.single_def(x)
                    if d is not None and mentions_remaining(d, depth + 1):
                        return True
            return False

        for (cn, truth) in self.guards_at(at):
            for (a, why, cls, b) in self.cond_upper_bounds(cn, truth, 0):
                a = A.strip_casts(a)
                covers = P_canon(a) == key or (self.monotone(a) and tv and tv <= self.tainted_vars(a))
                if covers and mentions_remaining(b):
                    return why
        for n in getattr(self, '_checkcalls', None) or []:
            pass
        for (a, why) in self.checked_args(at):
            a = A.strip_casts(a)
            if P_canon(a) == key or (self.monotone(a) and tv and tv <= self.tainted_vars(a)):
                # the checking call must be on the same reader
                for c in self._checkcalls:
                    if c.get('l') and ('line %s)' % c.get('l')) in why:
                        r = c.receiver() if c['k'] == 'CXXMemberCallExpr' else None
                        if r is not None and A.root_loc(r) == reader_root:
                            return why
        return None

    def operand_bounds(self, expr, at):
        """for the ARITH rule: {tainted var: (why, class)} of individually bounded operands"""
        bvars = {}
        for (cn, truth) in self.guards_at(at):
            for (a, why, cls, _b) in self.cond_upper_bounds(cn, truth, 0):
                a = A.strip_casts(a)
                if self.monotone(a):
                    for v in self.tainted_vars(a):
                        bvars.setdefault(v, (why, cls))
        for (a, why) in self.checked_args(at):
            a = A.strip_casts(a)
            if self.monotone(a):
                for v in self.tainted_vars(a):
                    bvars.setdefault(v, (why, 'buffer'))
        return bvars

    def single_def(self, n):
        """initialiser / sole assignment of a local that is defined exactly once"""
        if n['k'] != 'DeclRefExpr' or 'd' not in n:
            return None
        d = n['d']
        defs = []
        for x in self.f.walk():
            if x['k'] == 'VarDecl' and x['d'] == d and x['ch']:
                defs.append(A.strip_casts(x['ch'][0]))
            elif x['k'] in ('BinaryOperator', 'CompoundAssignOperator') and x.get('op') in A.ASSIGN_OPS:
                l = A.strip_casts(x['ch'][0])
                if l['k'] == 'DeclRefExpr' and l.get('d') == d:
                    defs.append(A.strip_casts(x['ch'][1]) if x['op'] == '=' else None)
            elif x['k'] == 'UnaryOperator' and (x.get('op', '').startswith('pre') or x.get('op', '').startswith('post')):
                l = A.strip_casts(x['ch'][0])
                if l['k'] == 'DeclRefExpr' and l.get('d') == d:
                    defs.append(None)
        if len(defs) == 1 and defs[0] is not None:
            return defs[0]
        return None

    def non_amplifying(self, e):
        """value never exceeds the largest tainted variable in it: v, v-c, v/c, v>>c, v%c, v&c, casts, ?: of such"""
        e = A.strip_casts(e)
        k = e['k']
        if k in ('DeclRefExpr', 'MemberExpr') or 'v' in e:
            return True
        if k == 'BinaryOperator':
            op = e.get('op')
            l, r = e['ch']
            if op in ('-', '/', '>>', '%', '&'):
                return self.non_amplifying(l) and (not self.et(r) or self.non_amplifying(r))
            return False
        if k == 'ConditionalOperator':
            return self.non_amplifying(e['ch'][1]) and self.non_amplifying(e['ch'][2])
        if k in ('CXXConstructExpr', 'CXXFunctionalCastExpr') and len(e['ch']) == 1:
            return self.non_amplifying(e['ch'][0])
        if k in A.CALL_KINDS and MIN_LIKE.search(callee(e)):
            return all(self.non_amplifying(a) for a in e.args()[:2])
        if k == 'CXXMemberCallExpr' and not e.args() and e.receiver() is not None:
            return self.non_amplifying(e.receiver())
        return False

    def bound_class(self, b):
        """'const' | 'buffer' | 'policy' : a configuration member (this->_maxXxx) is a policy, not a property of the buffer"""
        if 'v' in b:
            return 'const'
        for x in b.walk():
            if x['k'] == 'MemberExpr' and x.get('dk') == 'Field' and A.is_this_member(x):
                return 'policy'
            if x['k'] == 'DeclRefExpr' and x.get('dk') == 'Var' and 'd' not in x and 'v' not in x:
                return 'policy'
        return 'buffer'

    def trusted_bound(self, b, at_node, depth):
        """bound side: untainted, or every tainted variable in it is itself bounded where the comparison is made"""
        if not self.et(b):
            return True
        if depth >= 2:
            return False
        # `x <= size - n` with a wire-derived n: the unsigned subtraction wraps when n > size, so the comparison bounds nothing
        # unless n <= size is itself established where the comparison is made
        for x in b.walk():
            if x['k'] == 'BinaryOperator' and x.get('op') == '-' and len(x['ch']) == 2 and self.et(x['ch'][1]) and 'v' not in x['ch'][1]:
                if not self.sub_cannot_wrap(x, at_node):
                    return False
        tv = self.tainted_vars(b)
        if not tv:
            return False
        for v in tv:
            # find a DeclRef/Member node for v inside b to ask about
            node = None
            for x in b.walk():
                if v[0] == 'v' and x['k'] == 'DeclRefExpr' and x.get('d') == v[1]:
                    node = x
                if v[0] == 'm' and x['k'] == 'MemberExpr' and x.get('q') == v[1]:
                    node = x
            if node is None or not self.bounded(node, at_node, depth + 1):
                return False
        return self.non_amplifying(b)

    def sub_cannot_wrap(self, sub, at_node):
        """for `m - n` (n tainted): a dominating guard establishes n <= m (or n < m)"""
        m, n = P_canon(A.strip_casts(sub['ch'][0])), P_canon(A.strip_casts(sub['ch'][1]))
        for (cn, truth) in self.guards_at(at_node):
            c = cn
            pol = truth
            while c['k'] == 'UnaryOperator' and c.get('op') == '!':
                pol = not pol
                c = c['ch'][0]
            if c['k'] == 'BinaryOperator' and c.get('op') in ('<', '<=', '>', '>=') and len(c['ch']) == 2:
                l, r = P_canon(A.strip_casts(c['ch'][0])), P_canon(A.strip_casts(c['ch'][1]))
                op = c['op']
                # n <= m  /  n < m  true;  m >= n / m > n true;  n > m false; m < n false
                if (l, r) == (n, m) and ((op in ('<', '<=') and pol) or (op == '>' and not pol)):
                    return True
                if (l, r) == (m, n) and ((op in ('>', '>=') and pol) or (op == '<' and not pol)):
                    return True
        return False

    def amplified_bound(self, b):
        """bound side adds to / multiplies a non-constant quantity (avail + 4, size * 2): larger than what it names"""
        b = A.strip_casts(b)
        if 'v' in b:
            return False
        if b['k'] == 'BinaryOperator' and b.get('op') in ('+', '*', '<<'):
            return True
        if b['k'] == 'BinaryOperator' and b.get('op') in ('-', '/', '>>', '%', '&'):
            return self.amplified_bound(b['ch'][0])
        if b['k'] == 'DeclRefExpr' and 'd' in b:
            d = self.single_def(b)
            if d is not None and d is not b:
                return self.amplified_bound(d)
        return False

    def cond_upper_bounds(self, cn, truth, depth=0):
        """[(bounded expression a, justification, bound class)] that (cn == truth) establishes"""
        out = []
        pol = truth
        n = cn
        while True:
            if n['k'] == 'UnaryOperator' and n.get('op') == '!':
                pol = not pol
                n = n['ch'][0]
                continue
            if n['k'] == 'BinaryOperator' and n.get('op') in ('==', '!=') and len(n['ch']) == 2 and n['ch'][1]['k'] == 'CXXBoolLiteralExpr':
                if (n['op'] == '==') != bool(n['ch'][1].get('v')):
                    pol = not pol
                n = n['ch'][0]
                continue
            break
        if n['k'] == 'BinaryOperator' and n.get('op') in ('<', '<=', '>', '>=', '==', '!='):
            l, r = n['ch']
            op = n['op']
            flip = {'<': '>', '<=': '>=', '>': '<', '>=': '<=', '==': '==', '!=': '!='}
            for (a, b, o) in ((l, r, op), (r, l, flip[op])):
                if not self.et(a):
                    continue
                upper = (o in ('<', '<=') and pol) or (o in ('>', '>=') and not pol) or (o == '==' and pol) or (o == '!=' and not pol)
                if not upper:
                    continue
                if not self.trusted_bound(b, cn, depth):
                    continue
                if self.amplified_bound(b):
                    continue       # `n <= avail + k` does not keep n within avail
                out.append((a, '%s is %s at line %s (bound: %s)' % (n.text(), pol, n.get('l'), b.text()), self.bound_class(b), b))
        elif n['k'] in A.CALL_KINDS:
            q = callee(n)
            args = n.args()
            if re.search(r'::IsSizeOkay$', q) and pol and len(args) >= 2 and self.trusted_bound(args[1], cn, depth):
                out.append((args[0], '%s is true' % n.text(), 'buffer', args[1]))
            if re.search(r'muscleInRange$', q) and pol and len(args) == 3 and self.trusted_bound(args[2], cn, depth):
                out.append((args[0], '%s is true' % n.text(), self.bound_class(args[2]), args[2]))
        return out

    def checked_args(self, at):
        """[(argument expression, justification)] of reader checking calls whose OK edge dominates `at`"""
        out = []
        cache = getattr(self, '_checkcalls', None)
        if cache is None:
            cache = self._checkcalls = []
            for n in self.f.walk():
                if n['k'] in A.CALL_KINDS and any(rx.search(callee(n)) for (rx, _) in CHECKERS):
                    cache.append(n)
        for n in cache:
            if self.status_ok_dominates(n, at):
                g = self.eng.fx.funcs.get(n.get('fn'))
                for k, a in enumerate(self.explicit_args(n)):
                    if self.et(a):
                        # a check whose parameter is *signed* does not bound an unsigned argument: SeekRelative(int32) with a wire value >= 2^31 is a (succeeding) backward seek
                        pt = g.ptype(g.params[k]) if (g is not None and k < len(g.params)) else None
                        at_ = A.strip_casts(a).type().replace('const ', '').strip()
                        if pt is not None and SIGNED_INT.match(pt.replace('const ', '').strip()) and at_.startswith('unsigned'):
                            self.sign_converting = getattr(self, 'sign_converting', [])
                            self.sign_converting.append((n, a, pt))
                            continue
                        out.append((a, 'checking call %s succeeded (line %s)' % (n.text(), n.get('l'))))
        return out

    def monotone(self, a):
        """a is the tainted variable itself or variable +/* non-negative things (a lower-bounds the variable's contribution)"""
        a = A.strip_casts(a)
        if a['k'] in ('DeclRefExpr', 'MemberExpr'):
            return True
        if a['k'] == 'BinaryOperator' and a.get('op') in ('+', '*'):
            return all(self.monotone(c) or 'v' in c or not self.et(c) for c in a['ch'])
        if a['k'] in A.CALL_KINDS and A.CALL_KINDS and a['k'] in ('CXXConstructExpr',):
            return all(self.monotone(c) for c in a['ch'])
        return False

    def status_ok_dominates(self, call, at):
        f = self.f
        # variables initialised from the call (possibly through .GetStatus())
        holders = set()
        for v in f.walk():
            if v['k'] == 'VarDecl' and v['ch'] and call in list(v['ch'][0].walk()):
                holders.add(v['d'])
        for (cn, truth) in self.guards_at(at):
            pol = truth
            n = cn
            while n['k'] == 'UnaryOperator' and n.get('op') == '!':
                pol = not pol
                n = n['ch'][0]
            if n['k'] == 'CXXMemberCallExpr' and callee(n) in ('muscle::status_t::IsError', 'muscle::status_t::IsOK', 'muscle::io_status_t::IsError', 'muscle::io_status_t::IsOK'):
                want = callee(n).endswith('IsOK')
                if pol != want:
                    continue
                r = n.receiver()
                if r is None:
                    continue
                if call in list(r.walk()):
                    return True
                r2 = A.strip_casts(r)
                if r2['k'] == 'DeclRefExpr' and r2.get('d') in holders:
                    return True
        return False

    def overflow_checked(self, arith, at):
        """WillUnsigned{Add,Multiply}Overflow(operands) == false dominates `at` for this + or * node"""
        want = 'Add' if arith.get('op') == '+' else 'Multiply'
        ops = set(P_canon(A.strip_casts(c)) for c in arith['ch'])
        for (cn, truth) in self.guards_at(at):
            pol = truth
            n = cn
            while n['k'] == 'UnaryOperator' and n.get('op') == '!':
                pol = not pol
                n = n['ch'][0]
            if n['k'] == 'BinaryOperator' and n.get('op') in ('==', '!=') and n['ch'][1]['k'] == 'CXXBoolLiteralExpr':
                if (n['op'] == '==') != bool(n['ch'][1].get('v')):
                    pol = not pol
                n = n['ch'][0]
            if n['k'] == 'CallExpr' and OVERFLOW_CHECK.search(callee(n)) and want in callee(n) and not pol:
                got = set(P_canon(A.strip_casts(a)) for a in n.args())
                if ops <= got:
                    return '%s is false' % n.text()
        return None


def P_canon(n):
    n = A.strip_casts(n)
    k = n['k']
    if k == 'DeclRefExpr':
        return 'v%s' % n['d'] if 'd' in n else 'g:%s' % n.get('q')
    if 'v' in n and k in ('IntegerLiteral', 'CXXBoolLiteralExpr', 'CharacterLiteral', 'UnaryExprOrTypeTraitExpr'):
        return '#%s' % n['v']
    if k in ('CXXConstructExpr', 'CXXFunctionalCastExpr') and len(n['ch']) == 1:
        return P_canon(n['ch'][0])
    head = k + ':' + str(n.get('op', '')) + ':' + str(n.get('q', '')) + ':' + str(n.get('n', ''))
    return head + '(' + ','.join(P_canon(c) for c in n['ch']) + ')'


class Engine(object):
    def __init__(self, fx, max_depth=3):
        self.fx = fx
        self.max_depth = max_depth
        self._ret = {}
        self._out = {}
        self._sink = {}
        self._ft = {}
        self._stack = []

    def is_value_accessor(self, n):
        q = callee(n)
        return bool(re.search(r'^muscle::io_status_t::(GetByteCount)$|^muscle::status_t::', q)) and q.endswith('GetByteCount')

    def ft(self, f, tparams=frozenset()):
        key = (f.id, tparams)
        if key not in self._ft:
            self._ft[key] = FnTaint(self, f, tparams)
        return self._ft[key]

    def target(self, call):
        fid = call.get('fn')
        if not fid:
            return None
        g = self.fx.funcs.get(fid)
        if g is None or not g.full:
            return None
        return g

    def is_primitive(self, g):
        """reader primitives are sources / self-checking: never summarised through"""
        return bool(re.search(RE_READER, g.q)) or bool(SRC_RET.search(g.q))

    def targets(self, call):
        """resolved callee plus, for a virtual call, every overrider with a body (class-hierarchy fan-out)"""
        fid = call.get('fn')
        if not fid:
            return []
        ids = [fid]
        if call.get('virt'):
            ids += sorted(self.fx.overriders().get(fid, ()))
        out = []
        for i in ids:
            g = self.fx.funcs.get(i)
            if g is not None and g.full and not self.is_primitive(g):
                out.append(g)
        return out

    def summary_ret(self, call):
        r = frozenset()
        for g in self.targets(call):
            r |= self.ret_of(g)
        return r

    def ret_of(self, g):
        if g.id in self._ret:
            return self._ret[g.id]
        if g.id in self._stack or len(self._stack) >= self.max_depth:
            return frozenset()
        self._ret[g.id] = frozenset()
        self._stack.append(g.id)
        try:
            allp = frozenset(range(len(g.params)))
            ft = FnTaint(self, g, allp)
            r = set()
            for n in g.walk():
                if n['k'] == 'ReturnStmt' and n['ch']:
                    r |= ft.et(n['ch'][0])
            # by-value class params and pointer params are not numeric pass-through
            rr = set()
            for o in r:
                if o == SRC:
                    rr.add(o)
                elif o[0] == 'param':
                    pt = g.ptype(g.params[o[1]])
                    if A.is_integral_type(pt.replace('&', '').strip()):
                        rr.add(o)
            self._ret[g.id] = frozenset(rr)
        finally:
            self._stack.pop()
        return self._ret[g.id]

    def summary_out(self, call):
        res = {}
        for g in self.targets(call):
            for j, o in self.out_of(g).items():
                res[j] = res.get(j, frozenset()) | o
        return res

    def out_of(self, g):
        if g.id in self._out:
            return self._out[g.id]
        if g.id in self._stack or len(self._stack) >= self.max_depth:
            return {}
        self._out[g.id] = {}
        self._stack.append(g.id)
        try:
            allp = frozenset(i for i, p in enumerate(g.params) if A.is_integral_type(g.ptype(p).replace('&', '').replace('const ', '').strip()))
            ft = FnTaint(self, g, frozenset())
            res = {}
            for j, p in enumerate(g.params):
                pk = A.classify_type(g.ptype(p))
                if pk in ('mref', 'mptr'):
                    t = ft.var.get(p['d'])
                    if t:
                        tt = frozenset(o for o in t if o == SRC)
                        if tt:
                            res[j] = tt
            self._out[g.id] = res
        finally:
            self._stack.pop()
        return self._out[g.id]

    # ---------------------------------------------------------------------------------------------------
    def sinks_in(self, f, tparams=frozenset(), alloc_is_obligation=True, depth=0):
        """list of findings dicts for function f: every sink argument (direct or through a callee summary) that carries taint.
        Each: {node, kind, origins, discharged(justification or None), arith(list)}"""
        ft = self.ft(f, tparams)
        out = []
        for n in f.walk():
            if n['k'] not in A.CALL_KINDS and n['k'] not in ('CXXNewExpr', 'ArraySubscriptExpr'):
                continue
            hits = []
            if n['k'] == 'CXXNewExpr':
                if n.get('hasSize') and n['ch']:
                    hits.append((n['ch'][0], 'ALLOC'))
            elif n['k'] == 'ArraySubscriptExpr':
                hits.append((n['ch'][1], 'INDEX'))
            else:
                q = callee(n)
                args = ft.explicit_args(n)
                for (rx, spec) in SINKS:
                    if rx.search(q):
                        for (idx, kind) in spec:
                            if idx < len(args) and kind != 'READER0':
                                # ByteBuffer::AppendBytes(ptr, n) vs (n) overloads: only integral args are sizes
                                if A.is_integral_type(args[idx].type().replace('&', '').strip()):
                                    if kind == 'ALLOCCOPY':
                                        # GetByteBufferFromPool(n, src): an allocation of n bytes, and a copy of n bytes from src when src is given — decided here, at the call
                                        # itself, so that a summary of the enclosing function carries the right kind
                                        src_null = len(args) < 2 or args[1]['k'] in ('CXXDefaultArgExpr', 'GNUNullExpr', 'CXXNullPtrLiteralExpr') or args[1].get('v') == 0
                                        kind = 'ALLOC' if src_null else 'COPY'
                                    hits.append((args[idx], kind))
                # callee summaries: param k of g reaches a sink unguarded
                if not any(rx.search(q) for (rx, _) in SINKS) and depth < self.max_depth:
                    for g in self.targets(n):
                        for k_idx, a in enumerate(args):
                            if k_idx >= len(g.params):
                                break
                            if not ft.et(a):
                                continue
                            if not A.is_integral_type(g.ptype(g.params[k_idx]).replace('&', '').strip()):
                                continue
                            sk = self.param_sinks(g, k_idx, depth + 1)
                            for kind in sk:
                                hits.append((a, kind + '@' + g.q.split('::')[-1]))
            for (expr, kind) in hits:
                origins = ft.et(expr)
                if not origins:
                    continue
                just = ft.bounded(expr, n)
                if just and kind in ('INDEX', 'PTRADD') and 'bounded by the type' in just:
                    just = None
                ob = ft.operand_bounds(expr, n)
                tv = ft.tainted_vars(A.strip_casts(expr))
                if not just and tv and all(v in ob for v in tv):
                    # every tainted operand has its own upper bound; whether their sum/product is meaningful is the ARITH question
                    just = '; '.join(sorted(set(ob[v][0] for v in tv)))
                arith = []
                for x in A.strip_casts(expr).walk():
                    if x['k'] == 'BinaryOperator' and x.get('op') in ('+', '*') and ft.et(x) and not x.type().endswith('*'):
                        oc = ft.overflow_checked(x, n)
                        if not oc:
                            # operands individually bounded by a constant or by a buffer-derived quantity cannot wrap a 32-bit sum
                            xv = ft.tainted_vars(x)
                            if xv and all(v in ob and ob[v][1] in ('const', 'buffer') for v in xv):
                                oc = 'operands bounded by buffer/constant quantities: ' + '; '.join(sorted(set(ob[v][0] for v in xv)))
                        arith.append((x, oc))
                out.append({'node': n, 'expr': expr, 'kind': kind, 'origins': origins, 'just': just, 'arith': arith, 'fn': f})
        # pointer arithmetic with a tainted integer operand
        for n in f.walk():
            if n['k'] in ('BinaryOperator', 'CompoundAssignOperator') and n.get('op') in ('+', '+=', '-', '-=') and n.type().endswith('*') and len(n['ch']) == 2:
                for c in n['ch']:
                    if not c.type().endswith('*') and ft.et(c):
                        just = ft.bounded(c, n)
                        if just and 'bounded by the type' in just:
                            just = None
                        ob = ft.operand_bounds(c, n)
                        tv = ft.tainted_vars(A.strip_casts(c))
                        if not just and tv and all(v in ob for v in tv):
                            just = '; '.join(sorted(set(ob[v][0] for v in tv)))
                        out.append({'node': n, 'expr': c, 'kind': 'PTRADD', 'origins': ft.et(c), 'just': just, 'arith': [], 'fn': f})
        return out

    def param_sinks(self, g, k, depth):
        """set of sink kinds that integral parameter k of g reaches without a guard inside g"""
        key = (g.id, k)
        if key in self._sink:
            return self._sink[key]
        self._sink[key] = set()
        if g.id in self._stack:
            return set()
        self._stack.append(g.id)
        try:
            res = set()
            for h in self.sinks_in(g, frozenset([k]), depth=depth):
                if ('param', k) in h['origins'] and not h['just']:
                    res.add(h['kind'].split('@')[0])
            self._sink[key] = res
        finally:
            self._stack.pop()
        return self._sink[key]
