"""CFG algebra over the facts of one function: reachability, dominance, edge dominance
(guards), post-dominance, must-pass-through, loops.  Points are (block id, element index)."""


def succs(fn, b):
    return [s for s in fn.blocks[b].succ if s is not None and s >= 0]


def reachable_blocks(fn, start, avoid_edges=(), avoid_blocks=()):
    """blocks reachable from block `start` (inclusive) without using avoid_edges / entering avoid_blocks"""
    avoid_edges = set(avoid_edges)
    avoid_blocks = set(avoid_blocks)
    seen = set()
    st = [start]
    while st:
        b = st.pop()
        if b in seen or b in avoid_blocks:
            continue
        seen.add(b)
        for idx, s in enumerate(fn.blocks[b].succ):
            if s is None or s < 0:
                continue
            if (b, idx) in avoid_edges:
                continue
            st.append(s)
    return seen


def reaches_backwards(fn, target):
    """blocks from which block `target` is reachable (inclusive)"""
    seen = set()
    st = [target]
    while st:
        b = st.pop()
        if b in seen:
            continue
        seen.add(b)
        st.extend(fn.blocks[b].preds)
    return seen


def live_blocks(fn):
    if getattr(fn, '_live', None) is None:
        fn._live = reachable_blocks(fn, fn.entry)
    return fn._live


def block_dominates(fn, a, b):
    """every path entry->b passes through block a"""
    if a == b:
        return True
    if b not in live_blocks(fn):
        return True
    return b not in reachable_blocks(fn, fn.entry, avoid_blocks=(a,))


def dominates(fn, na, nb):
    """node na (id) is evaluated on every path before node nb (id)"""
    pa, pb = fn.pos(na), fn.pos(nb)
    if pa is None or pb is None:
        return False
    if pa[0] == pb[0]:
        return pa[1] < pb[1]
    return block_dominates(fn, pa[0], pb[0])


def branch_edges(fn):
    """[(block, succ index, cond node id, truth)] for two-way branches with a condition"""
    out = []
    for blk in fn.blocks.values():
        if blk.cond is None:
            continue
        if blk.tk == 'SwitchStmt':
            continue
        cn = fn.nodes.get(blk.cond)
        if cn is not None and 'v' in cn and cn['k'] in ('IntegerLiteral', 'CXXBoolLiteralExpr'):
            continue      # `do {...} while(0)` and friends: a literal is not a guard
        if len(blk.succ) == 2:
            out.append((blk.b, 0, blk.cond, True))
            out.append((blk.b, 1, blk.cond, False))
    return out


def guards_of_block(fn, b):
    """set of (cond node id, truth) such that the corresponding branch edge dominates block b
    (i.e. the condition had that truth value the last time it was evaluated on every path to b —
    for loops this is 'on entry to the region', which is what a dominance guard means)."""
    cache = getattr(fn, '_guards', None)
    if cache is None:
        cache = fn._guards = {}
    if b in cache:
        return cache[b]
    res = set()
    live = live_blocks(fn)
    if b in live:
        for (blk, idx, cond, truth) in branch_edges(fn):
            if blk not in live:
                continue
            # both edges to the same block => no information
            s = fn.blocks[blk].succ
            if s[0] == s[1]:
                continue
            r = reachable_blocks(fn, fn.entry, avoid_edges=((blk, idx),))
            if b not in r:
                res.add((cond, truth))
                # what the edge implies, independent of spelling: `!x`, `x == false`, `(a && b) == false` taken false, `!(a || b)` … give their atoms with the implied truth value
                cn = fn.nodes.get(cond)
                if cn is not None:
                    from . import ast as _A
                    for (a, t) in _A.implied_atoms(cn, truth):
                        if a.get('i') is not None and a['i'] in fn.nodes:
                            res.add((a['i'], t))
    cache[b] = res
    return res


def guards_of_node(fn, nid):
    p = fn.pos(nid)
    if p is None:
        return set()
    return guards_of_block(fn, p[0])


def switch_guards_of_block(fn, b):
    """[(switch cond node id, set(case values) or 'default')] for switch edges dominating b"""
    res = []
    live = live_blocks(fn)
    for blk in fn.blocks.values():
        if blk.tk != 'SwitchStmt' or blk.b not in live:
            continue
        sw = fn.nodes.get(blk.term)
        if sw is None:
            continue
        cond = sw.role('cond')
        # group successor edges by target
        vals = set()
        dominated_all = True
        for idx, s in enumerate(blk.succ):
            if s is None or s < 0:
                continue
            r = reachable_blocks(fn, fn.entry, avoid_edges=((blk.b, idx),))
            # we need: removing ALL edges not in a chosen set disconnects b.  Simplify: collect the
            # edges through which b is reachable.
        # edges through which b is reachable when only that edge of the switch is enabled
        others = [(blk.b, i) for i in range(len(blk.succ))]
        via = []
        for idx, s in enumerate(blk.succ):
            if s is None or s < 0:
                continue
            avoid = [e for e in others if e[1] != idx]
            r = reachable_blocks(fn, fn.entry, avoid_edges=avoid)
            if b in r:
                via.append(idx)
        # b must not be reachable with all switch edges removed (i.e. switch dominates b)
        r0 = reachable_blocks(fn, fn.entry, avoid_edges=others)
        if b in r0 or not via or len(via) == len([s for s in blk.succ if s is not None and s >= 0]):
            continue
        labels = set()
        for idx in via:
            tgt = fn.blocks[blk.succ[idx]]
            lab = fn.nodes.get(tgt.lab) if tgt.lab is not None else None
            if lab is not None and lab['k'] == 'CaseStmt':
                labels.add(lab.get('cv'))
            else:
                labels.add('default')
        res.append((cond['i'] if cond is not None else None, labels))
    return res


def node_block(fn, nid):
    p = fn.pos(nid)
    return p[0] if p else None


def points_of(fn, pred):
    """[(node, block, idx)] for CFG statement elements whose node satisfies pred"""
    out = []
    for blk in fn.blocks.values():
        for idx, e in enumerate(blk.elems):
            if isinstance(e, int):
                n = fn.nodes.get(e)
                if n is not None and pred(n):
                    out.append((n, blk.b, idx))
    return out


def must_pass(fn, start, targets, stop_at_exit=True, avoid_edges=()):
    """From point `start`=(block, idx) does every path to the function exit pass one of the
    target points (set of (block, idx))?  Returns (True, None) or (False, path_blocks)."""
    tb = {}
    for (b, i) in targets:
        tb.setdefault(b, []).append(i)
    sb, si = start
    # same block, later element
    if sb in tb and any(i > si for i in tb[sb]):
        return True, None
    avoid_edges = set(avoid_edges)
    # DFS over blocks after start block, blocks containing a target are absorbing
    seen = {}
    st = []
    for idx, s in enumerate(fn.blocks[sb].succ):
        if s is not None and s >= 0 and (sb, idx) not in avoid_edges:
            st.append((s, sb))
    while st:
        b, frm = st.pop()
        if b in seen:
            continue
        seen[b] = frm
        if b in tb:
            continue
        if b == fn.exit:
            path = [b]
            x = b
            while x in seen and seen[x] != sb and len(path) < 200:
                x = seen[x]
                path.append(x)
            path.append(sb)
            return False, list(reversed(path))
        if fn.blocks[b].noret:
            continue
        for idx, s in enumerate(fn.blocks[b].succ):
            if s is not None and s >= 0 and (b, idx) not in avoid_edges:
                st.append((s, b))
    return True, None


def can_reach(fn, start, targets, avoid_points=()):
    """may-reach: is some target point reachable from start without passing an avoid point"""
    tb = {}
    for (b, i) in targets:
        tb.setdefault(b, []).append(i)
    ab = {}
    for (b, i) in avoid_points:
        ab.setdefault(b, []).append(i)
    sb, si = start
    if sb in tb:
        for i in tb[sb]:
            if i > si and not any(si < a < i for a in ab.get(sb, [])):
                return True
    if any(a > si for a in ab.get(sb, [])):
        return False
    seen = set()
    st = list(succs(fn, sb))
    while st:
        b = st.pop()
        if b in seen:
            continue
        seen.add(b)
        if b in tb:
            first_t = min(tb[b])
            if not any(a < first_t for a in ab.get(b, [])):
                return True
        if b in ab:
            continue
        st.extend(succs(fn, b))
    return False


def natural_loops(fn):
    """[(header block, set(body blocks))] via back edges (t->h where h dominates t)"""
    loops = {}
    live = live_blocks(fn)
    for b in live:
        for s in succs(fn, b):
            if s in live and block_dominates(fn, s, b):
                # back edge b -> s
                body = set([s])
                st = [b]
                while st:
                    x = st.pop()
                    if x in body:
                        continue
                    body.add(x)
                    st.extend(p for p in fn.blocks[x].preds if p in live)
                loops.setdefault(s, set()).update(body)
    return sorted(loops.items())


def return_points(fn):
    return points_of(fn, lambda n: n['k'] == 'ReturnStmt')


def paths_between(fn, start, target, avoid_blocks=(), limit=4000):
    """Acyclic block paths from point start=(block, idx) to point target=(block, idx).
    Yields dict {cond node id: truth} of the two-way branch decisions taken strictly between them
    (the branch at the end of a block is recorded when the path leaves that block).
    Returns (list_of_dicts, complete?)"""
    sb, si = start
    tb, ti = target
    out = []
    avoid = set(avoid_blocks)
    if sb == tb and ti > si:
        return [dict()], True
    count = [0]
    complete = [True]

    def rec(b, visited, asg):
        if count[0] > limit:
            complete[0] = False
            return
        blk = fn.blocks[b]
        for idx, s in enumerate(blk.succ):
            if s is None or s < 0 or s in avoid:
                continue
            a2 = asg
            if blk.cond is not None and len(blk.succ) == 2 and blk.tk != 'SwitchStmt':
                a2 = dict(asg)
                a2[blk.cond] = (idx == 0)
            if s == tb:
                count[0] += 1
                out.append(a2)
                continue
            if s in visited:
                continue
            rec(s, visited | set([s]), a2)

    rec(sb, set([sb]), {})
    return out, complete[0]
