"""EFFECT (DESIGN 3.5): symbolic byte-count evaluation of serialisers and size functions.

A small abstract interpreter over the *structured* AST of the restricted shape the serialisers have: straight-line Write*/Read* calls,
`for (i < N)` loops, `if` on null-ness / ShouldWriteNumItems() / type code, accumulating size functions, switch tables.
Values are symbolic sums (Poly): {monomial (sorted tuple of atoms) : integer coefficient}; atoms are canonical strings such as
N(data), FS(data[i]), SUM[i<N(data)](...), ALT[cond](a|b).  Anything outside the fragment raises Outside -> the check exits 2, never a verdict."""
import re
from . import ast as A


class Outside(Exception):
    pass


# ----------------------------------------------------------------------------------------------------------- polynomials
def P(c):
    return {(): c} if c else {}


def atom(s):
    return {(s,): 1}


def padd(a, b):
    r = dict(a)
    for m, c in b.items():
        r[m] = r.get(m, 0) + c
        if r[m] == 0:
            del r[m]
    return r


def pmul(a, b):
    r = {}
    for m1, c1 in a.items():
        for m2, c2 in b.items():
            m = tuple(sorted(m1 + m2))
            r[m] = r.get(m, 0) + c1 * c2
            if r[m] == 0:
                del r[m]
    return r


def pneg(a):
    return {m: -c for m, c in a.items()}


def pconst(a):
    """integer value if the polynomial is a constant, else None"""
    if not a:
        return 0
    if list(a.keys()) == [()]:
        return a[()]
    return None


def pstr(a):
    if not a:
        return '0'
    parts = []
    for m in sorted(a):
        c = a[m]
        if m == ():
            parts.append(str(c))
        else:
            parts.append(('' if c == 1 else '%d*' % c) + '*'.join(m))
    return ' + '.join(parts)


def psum(var, count, body):
    """Σ_{var<count} body : terms not mentioning var are multiplied by count, the rest become one SUM atom"""
    indep, dep = {}, {}
    tag = '[%s]' % var
    for m, c in body.items():
        if any(tag in a for a in m):
            dep[m] = c
        else:
            indep[m] = c
    r = pmul(count, indep) if indep else {}
    if dep:
        r = padd(r, atom('SUM{%s<%s}(%s)' % (var, pstr(count), pstr(dep))))
    return r


def palt(cond, a, b):
    if a == b:
        return a
    # common part factored out so that ALT[c](x+k | k) == k + ALT[c](x | 0)
    common = {}
    for m, c in a.items():
        if m in b:
            k = min(c, b[m]) if (c > 0 and b[m] > 0) else 0
            if k:
                common[m] = k
    ra = padd(a, pneg(common))
    rb = padd(b, pneg(common))
    return padd(common, atom('ALT{%s}(%s|%s)' % (cond, pstr(ra), pstr(rb))))


WIDTHS = {'WriteByte': 1, 'WriteInt8': 1, 'WriteInt16': 2, 'WriteInt32': 4, 'WriteInt64': 8, 'WriteFloat': 4, 'WriteDouble': 8,
          'ReadByte': 1, 'ReadInt8': 1, 'ReadInt16': 2, 'ReadInt32': 4, 'ReadInt64': 8, 'ReadFloat': 4, 'ReadDouble': 8}
ARRAY_WIDTHS = {'WriteBytes': 1, 'WriteInt8s': 1, 'WriteInt16s': 2, 'WriteInt32s': 4, 'WriteInt64s': 8, 'WriteFloats': 4, 'WriteDoubles': 8,
                'ReadBytes': 1, 'ReadInt8s': 1, 'ReadInt16s': 2, 'ReadInt32s': 4, 'ReadInt64s': 8, 'ReadFloats': 4, 'ReadDoubles': 8}
TYPE_SIZES = {'bool': 1, 'char': 1, 'signed char': 1, 'unsigned char': 1, 'short': 2, 'unsigned short': 2, 'int': 4, 'unsigned int': 4, 'long': 8, 'unsigned long': 8,
              'long long': 8, 'unsigned long long': 8, 'float': 4, 'double': 8}


def type_size(t):
    t = t.replace('const ', '').replace('&', '').strip()
    return TYPE_SIZES.get(t)


def loop_header(ev, s, env, depth):
    """(loop variable VarDecl, count Poly) for `for (T i=0; i<N; i++)` and for iterator loops `for (Iter it(container…); it.HasData(); it++)`"""
    init, cond = s.role('init'), s.role('cond')
    var = None
    if init is not None:
        for v in init.walk():
            if v['k'] == 'VarDecl':
                var = v
                break
    c0 = A.strip_casts(cond) if cond is not None else None
    if var is None and init is not None:
        # C style: the counter is declared earlier, `for (i=0; i<N; i++)`
        i0 = A.strip_casts(init)
        if i0['k'] == 'BinaryOperator' and i0.get('op') == '=' and A.strip_casts(i0['ch'][0])['k'] == 'DeclRefExpr' and 'd' in A.strip_casts(i0['ch'][0]):
            var = A.strip_casts(i0['ch'][0])
    if var is not None and c0 is not None:
        for (l, op, r) in A.rel_forms(c0, True):
            if op == '<' and l.get('d') == var['d'] and l['k'] == 'DeclRefExpr':
                return var, ev.val(r, env, depth)
    if var is not None and c0 is not None and c0['k'] == 'CXXMemberCallExpr' and (c0.get('q') or '').endswith('::HasData') and c0.receiver() is not None \
            and A.strip_casts(c0.receiver()).get('d') == var['d'] and var['ch']:
        ctor = A.strip_casts(var['ch'][0])
        args = ctor.args() if ctor.is_call() else []
        # copy-initialisation from a factory call: for (Iter it = x.GetIterator(); ...)
        cont = ev.key(args[0], env, depth) if args else ev.key(ctor, env, depth)
        return var, atom('N(%s)' % cont)
    raise Outside('loop at line %s is neither `for (i=0; i<N; i++)` nor an iterator loop' % s.get('l'))


class _For(dict):
    """a synthetic `for (<decl of v>; cond; v++) body` built from `<decl of v>; while (cond) {body; v++;}`"""
    def __init__(self, wh, vardecl, stmts):
        dict.__init__(self, k='ForStmt', ch=[], l=wh.get('l'))
        self.r = {'init': vardecl, 'cond': wh.role('cond'), 'body': _Seq(stmts), 'inc': None}

    def role(self, r):
        return self.r.get(r)


def while_as_for(s):
    """`T v = …; while (v.HasData() | v < N) {…; v++;}` read as the equivalent for loop (None if the while loop does not have that shape)"""
    if s['k'] != 'WhileStmt' or s.role('cond') is None or s.role('body') is None:
        return None
    body = s.role('body')
    stmts = body['ch'] if body['k'] == 'CompoundStmt' else [body]
    if not stmts:
        return None
    last = A.strip_casts(stmts[-1])
    tgt = None
    if last['k'] == 'UnaryOperator' and last.get('op') in ('post++', 'pre++'):
        tgt = A.strip_casts(last['ch'][0])
    elif last['k'] == 'CXXOperatorCallExpr' and (last.get('q') or '').endswith('operator++') and len(last['ch']) > 1:
        tgt = A.strip_casts(last['ch'][1])
    if tgt is None or tgt['k'] != 'DeclRefExpr' or tgt.get('d') is None:
        return None
    if any(x['k'] == 'ContinueStmt' for st in stmts for x in st.walk()):
        return None
    cond = A.strip_casts(s.role('cond'))
    uses = (cond['k'] == 'CXXMemberCallExpr' and cond.receiver() is not None and A.strip_casts(cond.receiver()).get('d') == tgt['d']) or \
        any(l.get('d') == tgt['d'] and l['k'] == 'DeclRefExpr' for (l, op, r) in A.rel_forms(cond, True))
    if not uses:
        return None
    func = getattr(s, 'func', None)
    if func is None:
        return None
    for v in func.walk():
        if v['k'] == 'VarDecl' and v.get('d') == tgt['d']:
            return _For(s, v, stmts[:-1])
    return None


class _If(dict):
    """a synthetic `if (cond) then else <rest>` built from `if (cond) {...; continue;} rest`"""
    def __init__(self, ifs, rest):
        dict.__init__(self, k='IfStmt', ch=[], l=ifs.get('l'))
        self.r = {'cond': ifs.role('cond'), 'then': ifs.role('then'), 'else': rest}

    def role(self, r):
        return self.r.get(r)


class _Seq(dict):
    """a synthetic CompoundStmt over a tail of statements"""
    def __init__(self, stmts):
        dict.__init__(self, k='CompoundStmt', ch=list(stmts))

    def role(self, r):
        return None

    def walk(self):
        yield self
        for c in self['ch']:
            for x in c.walk():
                yield x


class Evaluator(object):
    def __init__(self, fx, consts=None, max_inline=4, cls_context=None):
        self.fx = fx
        self.cls_context = cls_context   # full class name: virtual calls on `this` resolve to the final overrider seen from this class
        self.consts = consts or {}       # member name -> int (case constraint, e.g. {'_typeCode': B_BOOL_TYPE})
        self.max_inline = max_inline
        self.trace = []
        self.assume = {}                 # condition key -> truth, while evaluating inside a branch of that condition
        self.rd = 0

    # -------------------------------------------------------------------------------------------------- canonical keys
    def key(self, n, env, depth=0):
        """canonical name of an object / count expression"""
        n = A.strip_casts(n)
        k = n['k']
        if 'v' in n and k != 'DeclRefExpr':
            return str(n['v'])
        if k == 'DeclRefExpr':
            if 'v' in n:
                return str(n['v'])
            d = n.get('d')
            if d is not None and d in env:
                v = env[d]
                return v if isinstance(v, str) else (pstr(v) if isinstance(v, dict) else str(v))
            return n.get('n', '?')
        if k == 'CXXThisExpr':
            return 'this'
        if k == 'UnaryOperator' and n.get('op') in ('*', '&'):
            return self.key(n['ch'][0], env, depth)
        if k == 'MemberExpr':
            b = A.strip_casts(n['ch'][0]) if n['ch'] else None
            if b is None or b['k'] == 'CXXThisExpr':
                return n.get('n')
            return self.key(b, env, depth) + '.' + n.get('n')
        if k == 'CXXOperatorCallExpr':
            opn = (n.get('q') or '').split('::')[-1]
            if opn in ('operator()', 'operator->', 'operator*') and len(n['ch']) >= 2:
                return self.key(n['ch'][1], env, depth)
            if opn == 'operator[]' and len(n['ch']) >= 3:
                return '%s[%s]' % (self.key(n['ch'][1], env, depth), self.key(n['ch'][2], env, depth))
        if k == 'ArraySubscriptExpr':
            return '%s[%s]' % (self.key(n['ch'][0], env, depth), self.key(n['ch'][1], env, depth))
        if k == 'CXXMemberCallExpr':
            q = n.get('q') or ''
            m = q.split('::')[-1]
            r = n.receiver()
            rk = self.key(r, env, depth) if r is not None else 'this'
            if m in ('GetItemPointer',):
                return rk
            # accessor with a trivial body: inline it (ItemAt(i) -> _data[i], GetNumItems() -> _data.GetNumItems())
            g = self.callee(n)
            if g is not None and depth < self.max_inline:
                ret = simple_return(g)
                if ret is not None and rk in ('this',):
                    env2 = self.bind(g, n, env, depth)
                    return self.key(ret, env2, depth + 1)
            return '%s.%s(%s)' % (rk, m, ','.join(self.key(a, env, depth) for a in n.args())) if rk != 'this' else '%s(%s)' % (m, ','.join(self.key(a, env, depth) for a in n.args()))
        if k == 'CallExpr':
            q = (n.get('q') or '').split('::')[-1]
            if q in ('muscleMin', 'muscleMax'):
                return '%s(%s)' % (q[6:].lower(), ','.join(sorted(self.key(a, env, depth) for a in n.args())))
            return '%s(%s)' % (q, ','.join(self.key(a, env, depth) for a in n.args()))
        if k in ('CXXConstructExpr', 'CXXFunctionalCastExpr', 'CXXTemporaryObjectExpr') and len(n['ch']) == 1:
            return self.key(n['ch'][0], env, depth)
        if k == 'BinaryOperator':
            return '(%s%s%s)' % (self.key(n['ch'][0], env, depth), n.get('op'), self.key(n['ch'][1], env, depth))
        if k == 'ConditionalOperator':
            mm = A.min_max(n)
            if mm is not None:
                return '%s(%s)' % (mm[0], ','.join(sorted(self.key(a, env, depth) for a in mm[1])))
            return '(%s?%s:%s)' % tuple(self.key(c, env, depth) for c in n['ch'])
        if k == 'CXXDynamicCastExpr':
            return self.key(n['ch'][0], env, depth)
        return k

    def callee(self, call):
        fid = call.get('fn')
        g = self.fx.funcs.get(fid) if fid else None
        if g is not None and g.full and not call.get('virt'):
            return g
        if g is not None and call.get('virt'):
            ov = self.fx.overriders().get(fid) or set()
            # a virtual call whose static target is never overridden (in the analysed units) has exactly one body
            if not ov:
                return g if g.full else None
            on_this = call['k'] != 'CXXMemberCallExpr' or call.receiver() is None or A.strip_casts(call.receiver())['k'] == 'CXXThisExpr'
            if self.cls_context and on_this:
                cands = {}
                for i in [fid] + sorted(ov):
                    h = self.fx.funcs.get(i)
                    if h is not None and h.full and h.clsfull:
                        cands[h.clsfull] = h
                for c in self.mro(self.cls_context):
                    if c in cands:
                        return cands[c]
            return None
        return None

    def mro(self, cls):
        out, st, seen = [], [cls], set()
        while st:
            c = st.pop(0)
            if c in seen:
                continue
            seen.add(c)
            out.append(c)
            r = self.fx.recs.get(c)
            if r:
                st.extend(b['name'] for b in r.get('bases', []))
        return out

    def bind(self, g, call, env, depth):
        env2 = {}
        args = call.args()
        for p, a in zip(g.params, args):
            env2[p['d']] = self.key(a, env, depth)
        return env2

    # -------------------------------------------------------------------------------------------------- numeric expressions
    def val(self, n, env, depth=0):
        """symbolic integer value (Poly) of an expression"""
        n = A.strip_casts(n)
        k = n['k']
        if 'v' in n and k != 'DeclRefExpr':
            return P(n['v'])
        if k == 'DeclRefExpr':
            if 'v' in n:
                return P(n['v'])
            d = n.get('d')
            if d is not None and d in env:
                v = env[d]
                return v if isinstance(v, dict) else atom(str(v))
            return atom(n.get('n', '?'))
        if k == 'MemberExpr':
            if n.get('n') in self.consts and (A.is_this_member(n) or n.get('dk') == 'Field'):
                return P(self.consts[n['n']])
            return atom(self.key(n, env, depth))
        if k == 'BinaryOperator':
            op = n.get('op')
            if op in ('+', '-', '*'):
                a, b = self.val(n['ch'][0], env, depth), self.val(n['ch'][1], env, depth)
                return padd(a, b) if op == '+' else (padd(a, pneg(b)) if op == '-' else pmul(a, b))
            if op in ('==', '!=', '<', '>', '<=', '>=', '&&', '||'):
                t = self.truth(n, env, depth)
                if t is not None:
                    return P(1 if t else 0)
                return atom(self.key(n, env, depth))
            if op in ('/', '%', '>>', '<<', '&', '|'):
                a, b = pconst(self.val(n['ch'][0], env, depth)), pconst(self.val(n['ch'][1], env, depth))
                if a is not None and b is not None and b != 0:
                    return P({'/': a // b, '%': a % b, '>>': a >> b, '<<': a << b, '&': a & b, '|': a | b}[op])
                return atom(self.key(n, env, depth))
            raise Outside('operator %s at line %s' % (op, n.get('l')))
        if k == 'ConditionalOperator':
            t = self.truth(n['ch'][0], env, depth)
            if t is True:
                return self.val(n['ch'][1], env, depth)
            if t is False:
                return self.val(n['ch'][2], env, depth)
            if A.min_max(n) is not None:
                return atom(self.key(n, env, depth))         # (a < b) ? a : b  is  muscleMin(a, b)
            ck = self.key(n['ch'][0], env, depth)
            return palt(ck, self.under(ck, True, lambda: self.val(n['ch'][1], env, depth)), self.under(ck, False, lambda: self.val(n['ch'][2], env, depth)))
        if k in ('CXXConstructExpr', 'CXXFunctionalCastExpr') and len(n['ch']) == 1:
            return self.val(n['ch'][0], env, depth)
        if k in ('CXXMemberCallExpr', 'CallExpr'):
            q = n.get('q') or ''
            m = q.split('::')[-1]
            if m in ('muscleMin', 'muscleMax'):
                return atom(self.key(n, env, depth))
            if m == 'FlattenedSize' and k == 'CXXMemberCallExpr' and not n.args():
                r = n.receiver()
                rk = self.key(r, env, depth) if r is not None else 'this'
                if rk != 'this':
                    g = self.callee(n)
                    # fixed-size pseudo-flattenables (Point, Rect): the size is a constant of the class
                    if g is not None:
                        ret = simple_return(g)
                        if ret is not None and 'v' in ret:
                            return P(ret['v'])
                    return atom('FS(%s)' % rk)
            g = self.callee(n)
            if g is not None and depth < self.max_inline:
                same_obj = (k == 'CallExpr') or n.receiver() is None or A.strip_casts(n.receiver())['k'] == 'CXXThisExpr'
                if same_obj or g.rec.get('static'):
                    env2 = self.bind_vals(g, n, env, depth)
                    try:
                        return self.fn_value(g, env2, depth + 1)
                    except Outside:
                        if k == 'CallExpr':
                            return atom(self.key(n, env, depth))      # a helper on another object (e.g. size of a sub-Message): opaque
                        raise
            return atom(self.key(n, env, depth))
        if k == 'UnaryExprOrTypeTraitExpr' and 'v' in n:
            return P(n['v'])
        return atom(self.key(n, env, depth))

    def bind_object(self, v, env, depth):
        """class-typed local: references / pointers are aliases of what they are initialised from; objects are themselves,
        tagged with the enclosing loop variables when they live inside a loop body (one object per iteration)"""
        t = v.type()
        tags = ''.join('[[i%d]]' % i for i in range(env.get('__depth__', 0)))
        if ('&' in t or t.rstrip().endswith('*')) and v['ch']:
            env[v['d']] = self.key(v['ch'][0], env, depth)
        else:
            env[v['d']] = (v.get('n') or '?') + tags

    def under(self, ck, truth, thunk):
        old = self.assume.get(ck, None)
        had = ck in self.assume
        self.assume[ck] = truth
        try:
            return thunk()
        finally:
            if had:
                self.assume[ck] = old
            else:
                del self.assume[ck]

    def bind_vals(self, g, call, env, depth):
        env2 = {}
        for p, a in zip(g.params, call.args()):
            t = g.ptype(p)
            if A.is_integral_type(t.replace('&', '').strip()):
                env2[p['d']] = self.val(a, env, depth)
            else:
                env2[p['d']] = self.key(a, env, depth)
        return env2

    def truth(self, n, env, depth=0):
        """True/False if the condition is decided by the constant environment, else None"""
        n = A.strip_casts(n)
        if 'v' in n and n['k'] != 'DeclRefExpr':
            return bool(n['v'])
        core, pol = A.bool_polarity(n, True)
        if core is not n and core['i'] != n['i']:
            t = self.truth(core, env, depth)
            return None if t is None else (t if pol else (not t))
        try:
            kk = self.key(n, env, depth)
            if kk in self.assume:
                return self.assume[kk]
            if kk in self.consts:
                return bool(self.consts[kk])
        except Exception:
            pass
        if n['k'] == 'UnaryOperator' and n.get('op') == '!':
            t = self.truth(n['ch'][0], env, depth)
            return None if t is None else (not t)
        if n['k'] == 'BinaryOperator' and n.get('op') in ('==', '!=', '<', '>', '<=', '>='):
            a, b = pconst(self.val(n['ch'][0], env, depth)), pconst(self.val(n['ch'][1], env, depth))
            if a is not None and b is not None:
                return {'==': a == b, '!=': a != b, '<': a < b, '>': a > b, '<=': a <= b, '>=': a >= b}[n['op']]
            return None
        if n['k'] == 'BinaryOperator' and n.get('op') in ('&&', '||'):
            a, b = self.truth(n['ch'][0], env, depth), self.truth(n['ch'][1], env, depth)
            if n['op'] == '&&':
                if a is False or b is False:
                    return False
                return True if (a and b) else None
            if a is True or b is True:
                return True
            return False if (a is False and b is False) else None
        if n['k'] in ('CXXMemberCallExpr', 'CallExpr'):
            try:
                v = pconst(self.val(n, env, depth))
            except Outside:
                v = None
            if v is not None:
                return bool(v)
        if n['k'] == 'DeclRefExpr' and n.get('d') in env and isinstance(env[n['d']], dict):
            v = pconst(env[n['d']])
            if v is not None:
                return bool(v)
        return None

    # -------------------------------------------------------------------------------------------------- functions returning a size
    def fn_value(self, g, env, depth=0):
        """symbolic return value of an integer function: single return, accumulator loops, if/else and switch with returns"""
        if g.body is None:
            raise Outside('no body for %s' % g.q)
        env = self.with_args(g, env)
        r = self.stmt_value(g.body, dict(env), depth)
        if r is None:
            raise Outside('%s: no return value on some path' % g.q)
        return r

    def stmt_value(self, s, env, depth):
        """evaluates statements until a return; returns Poly or None (fell through)"""
        k = s['k']
        if k == 'CompoundStmt':
            for (ci, c) in enumerate(s['ch']):
                if c['k'] == 'IfStmt' and c.role('else') is None and self.ends_with_continue(c.role('then')):
                    return self.stmt_value(_If(c, _Seq(s['ch'][ci + 1:])), env, depth)
                r = self.stmt_value(c, env, depth)
                if r is not None:
                    return r
            return None
        if k == 'ReturnStmt':
            return self.val(s['ch'][0], env, depth) if s['ch'] else P(0)
        if k == 'DeclStmt':
            for v in s['ch']:
                if v['k'] == 'VarDecl' and v['ch']:
                    t = v.type().replace('const ', '').replace('&', '').strip()
                    if A.is_integral_type(t):
                        env[v['d']] = self.val(v['ch'][0], env, depth)
                    else:
                        self.bind_object(v, env, depth)
                elif v['k'] == 'VarDecl':
                    self.bind_object(v, env, depth)
            return None
        if k in ('DoStmt', 'NullStmt'):
            return None      # TCHECKPOINT / MASSERT expansions
        if k == 'IfStmt':
            cond = s.role('cond')
            t = self.truth(cond, env, depth)
            th, el = s.role('then'), s.role('else')
            if t is True:
                return self.stmt_value(th, env, depth)
            if t is False:
                return self.stmt_value(el, env, depth) if el is not None else None
            core, pol = A.bool_polarity(cond, True)
            if not pol:
                th, el = (el if el is not None else _Seq([])), th     # if (!c) A else B  ==  if (c) B else A
            e1, e2 = dict(env), dict(env)
            ck = self.key(core, env, depth)
            r1 = self.under(ck, True, lambda: self.stmt_value(th, e1, depth))
            r2 = self.under(ck, False, lambda: self.stmt_value(el, e2, depth)) if el is not None else None
            if r1 is not None and r2 is not None:
                return palt(ck, r1, r2)
            if r1 is None and r2 is None:
                # merge accumulators
                for d in set(e1) | set(e2):
                    a, b = e1.get(d), e2.get(d)
                    if a != b and isinstance(a, dict) and isinstance(b, dict):
                        env[d] = palt(ck, a, b)
                    elif a == b and a is not None:
                        env[d] = a
                return None
            # one branch returns: the rest of the function is the other branch — handled by the caller continuing with env of the non-returning branch
            rest_env = e2 if r1 is not None else e1
            self._pending_alt = (ck, r1 if r1 is not None else r2, r1 is not None)
            env.clear()
            env.update(rest_env)
            env['__alt__'] = env.get('__alt__', []) + [(ck, r1 if r1 is not None else r2, r1 is not None)]
            return None
        if k == 'WhileStmt' and while_as_for(s) is not None:
            s = while_as_for(s)
            k = 'ForStmt'
        if k == 'ForStmt':
            body = s.role('body')
            var, count = loop_header(self, s, env, depth)
            name = 'i%d' % env.get('__depth__', 0)
            e2 = dict(env)
            e2[var['d']] = atom('[%s]' % name) if A.is_integral_type(var.type().replace('const ', '').strip()) else '[%s]' % name
            e2['__depth__'] = env.get('__depth__', 0) + 1
            before = {d: v for d, v in e2.items() if isinstance(v, dict)}
            for d in before:
                if d != var['d']:
                    e2[d] = P(0) if d in self.accumulators(body) else e2[d]
            self.stmt_value(body, e2, depth)
            for d in self.accumulators(body):
                if d in env and isinstance(env[d], dict):
                    env[d] = padd(env[d], psum(name, count, e2.get(d, P(0))))
            return None
        if k == 'SwitchStmt':
            cond = self.val(s.role('cond'), env, depth)
            cv = pconst(cond)
            if cv is None:
                raise Outside('switch on a non-constant at line %s (evaluate under a case constraint)' % s.get('l'))
            body = s.role('body')
            active = False
            default_at = None
            items = body['ch']
            # find matching case, else default
            idx = None
            for i, c in enumerate(items):
                x = c
                while x is not None and x['k'] in ('CaseStmt', 'DefaultStmt'):
                    if x['k'] == 'CaseStmt' and x.get('cv') == cv:
                        idx = i
                    if x['k'] == 'DefaultStmt' and default_at is None:
                        default_at = i
                    x = x['ch'][-1] if x['ch'] else None
            if idx is None:
                idx = default_at
            if idx is None:
                return None
            for c in items[idx:]:
                x = c
                while x is not None and x['k'] in ('CaseStmt', 'DefaultStmt'):
                    x = x['ch'][-1] if x['ch'] else None
                if x is None:
                    continue
                if x['k'] == 'BreakStmt':
                    return None
                r = self.stmt_value(x, env, depth)
                if r is not None:
                    return r
                if any(y['k'] == 'BreakStmt' for y in x.walk()):
                    return None
            return None
        # expression statements
        if k in ('BinaryOperator', 'CompoundAssignOperator') and s.get('op') in A.ASSIGN_OPS:
            l = A.strip_casts(s['ch'][0])
            if l['k'] == 'DeclRefExpr' and 'd' in l and isinstance(env.get(l['d']), dict):
                r = self.val(s['ch'][1], env, depth)
                env[l['d']] = r if s['op'] == '=' else (padd(env[l['d']], r) if s['op'] == '+=' else padd(env[l['d']], pneg(r)) if s['op'] == '-=' else None)
                if env[l['d']] is None:
                    raise Outside('compound assignment %s' % s['op'])
            return None
        if k in A.CALL_KINDS or k in ('UnaryOperator', 'CStyleCastExpr'):
            return None
        if k in ('BreakStmt', 'ContinueStmt'):
            return None
        raise Outside('statement %s at line %s' % (k, s.get('l')))

    def accumulators(self, body):
        out = set()
        for n in body.walk():
            if n['k'] == 'CompoundAssignOperator' and n.get('op') in ('+=', '-='):
                l = A.strip_casts(n['ch'][0])
                if l['k'] == 'DeclRefExpr' and 'd' in l:
                    out.add(l['d'])
        return out

    # -------------------------------------------------------------------------------------------------- writers / readers
    def io_bytes(self, g, stream_param, env=None, depth=0, verbs=('Write',)):
        """bytes the function moves through the flattener/unflattener bound to parameter index `stream_param`"""
        env = self.with_args(g, env or {})
        sd = g.params[stream_param]['d']
        return self.io_stmt(g.body, env, sd, depth, verbs, g)

    def with_args(self, g, env):
        """an unbound integral parameter is the symbol ARG<k>, k = its position among the integral parameters: the size function and the writer of one class are compared by the
        role of their parameters, not by what each of them happens to call it"""
        env = dict(env)
        k = 0
        for p_ in g.params:
            if A.is_integral_type(g.ptype(p_).replace('const ', '').replace('&', '').strip()):
                if p_.get('d') is not None and p_['d'] not in env:
                    env[p_['d']] = atom('ARG%d' % k)
                k += 1
        return env

    def is_stream(self, n, env, sd):
        n = A.strip_casts(n) if n is not None else None
        return n is not None and n['k'] == 'DeclRefExpr' and n.get('d') == sd

    def io_stmt(self, s, env, sd, depth, verbs, g):
        k = s['k']
        tot = {}
        if k == 'CompoundStmt':
            for (ci, c) in enumerate(s['ch']):
                if c['k'] == 'IfStmt' and c.role('else') is None and self.ends_with_continue(c.role('then')):
                    # `if (c) {...; continue;}  rest`  ==  `if (c) {...} else {rest}`
                    return padd(tot, self.io_stmt(_If(c, _Seq(s['ch'][ci + 1:])), env, sd, depth, verbs, g))
                tot = padd(tot, self.io_stmt(c, env, sd, depth, verbs, g))
                if c['k'] == 'ReturnStmt':
                    break
            return tot
        if k == 'DeclStmt':
            for v in s['ch']:
                if v['k'] == 'VarDecl' and v['ch']:
                    tot = padd(tot, self.io_expr(v['ch'][0], env, sd, depth, verbs, g))
                    t = v.type().replace('const ', '').replace('&', '').strip()
                    reads = [x for x in v['ch'][0].walk() if x['k'] == 'CXXMemberCallExpr' and self.is_stream(x.receiver(), env, sd) and (x.get('q') or '').split('::')[-1] in WIDTHS
                             and (x.get('q') or '').split('::')[-1].startswith('Read')]
                    if A.is_integral_type(t) and reads:
                        # a value read from the stream: unique symbol, indexed by the enclosing loop variables
                        self.rd += 1
                        env[v['d']] = atom('RD%d%s' % (self.rd, ''.join('[i%d]' % i for i in range(env.get('__depth__', 0)))))
                    elif A.is_integral_type(t):
                        env[v['d']] = self.val(v['ch'][0], env, depth)
                    else:
                        self.bind_object(v, env, depth)
                elif v['k'] == 'VarDecl':
                    self.bind_object(v, env, depth)
            return tot
        if k in ('NullStmt', 'BreakStmt', 'ContinueStmt'):
            return tot
        if k == 'DoStmt':
            # do { ... } while(0) macro wrappers
            return self.io_stmt(s.role('body'), env, sd, depth, verbs, g)
        if k == 'ReturnStmt':
            return self.io_expr(s['ch'][0], env, sd, depth, verbs, g) if s['ch'] else tot
        if k == 'IfStmt':
            cond = s.role('cond')
            tot = self.io_expr(cond, env, sd, depth, verbs, g)
            t = self.truth(cond, env, depth)
            th, el = s.role('then'), s.role('else')
            if t is True:
                return padd(tot, self.io_stmt(th, env, sd, depth, verbs, g))
            if t is False:
                return padd(tot, self.io_stmt(el, env, sd, depth, verbs, g)) if el is not None else tot
            # error-return branches (`if (x.IsError()) return x`) move no bytes and end the success path: ignore them
            if self.is_error_exit(th) and el is None:
                return tot
            core, pol = A.bool_polarity(cond, True)
            ck = self.key(core, env, depth)
            a = self.under(ck, pol, lambda: self.io_stmt(th, dict(env), sd, depth, verbs, g))
            b = self.under(ck, not pol, lambda: self.io_stmt(el, dict(env), sd, depth, verbs, g)) if el is not None else {}
            return padd(tot, palt(ck, a, b) if pol else palt(ck, b, a))
        if k == 'WhileStmt' and while_as_for(s) is not None:
            s = while_as_for(s)
            k = 'ForStmt'
        if k == 'ForStmt':
            body = s.role('body')
            var, count = loop_header(self, s, env, depth)
            name = 'i%d' % env.get('__depth__', 0)
            e2 = dict(env)
            e2[var['d']] = atom('[%s]' % name) if A.is_integral_type(var.type().replace('const ', '').strip()) else '[%s]' % name
            e2['__depth__'] = env.get('__depth__', 0) + 1
            return psum(name, count, self.io_stmt(body, e2, sd, depth, verbs, g))
        if k == 'WhileStmt':
            body = s.role('body')
            inner = self.io_stmt(body, dict(env), sd, depth, verbs, g)
            if inner:
                return atom('WHILE{%s}(%s)' % (self.key(s.role('cond'), env, depth), pstr(inner)))
            return tot
        if k == 'SwitchStmt':
            cv = pconst(self.val(s.role('cond'), env, depth))
            if cv is None:
                raise Outside('switch on a non-constant at line %s (evaluate under a case constraint)' % s.get('l'))
            items = s.role('body')['ch']
            idx = None
            default_at = None
            for i, c in enumerate(items):
                x = c
                while x is not None and x['k'] in ('CaseStmt', 'DefaultStmt'):
                    if x['k'] == 'CaseStmt' and x.get('cv') == cv:
                        idx = i
                    if x['k'] == 'DefaultStmt' and default_at is None:
                        default_at = i
                    x = x['ch'][-1] if x['ch'] else None
            if idx is None:
                idx = default_at
            if idx is None:
                return tot
            for c in items[idx:]:
                x = c
                while x is not None and x['k'] in ('CaseStmt', 'DefaultStmt'):
                    x = x['ch'][-1] if x['ch'] else None
                if x is None:
                    continue
                if x['k'] == 'BreakStmt':
                    break
                tot = padd(tot, self.io_stmt(x, env, sd, depth, verbs, g))
                if x['k'] == 'ReturnStmt' or any(y['k'] == 'BreakStmt' for y in x['ch']):
                    break
            return tot
        return self.io_expr(s, env, sd, depth, verbs, g)

    def ends_with_continue(self, s):
        if s is None:
            return False
        if s['k'] == 'ContinueStmt':
            return True
        return s['k'] == 'CompoundStmt' and bool(s['ch']) and s['ch'][-1]['k'] == 'ContinueStmt'

    def is_error_exit(self, s):
        rets = [n for n in s.walk() if n['k'] == 'ReturnStmt']
        return bool(rets) and s['k'] in ('ReturnStmt', 'CompoundStmt') and not any(x.is_call() and re.search(r'::(Write|Read)[A-Z]', x.get('q') or '') for x in s.walk())

    def io_expr(self, e, env, sd, depth, verbs, g):
        tot = {}
        if e is None:
            return tot
        for n in self.calls_in_order(e):
            q = n.get('q') or ''
            m = q.split('::')[-1]
            if n['k'] == 'CXXMemberCallExpr' and self.is_stream(n.receiver(), env, sd):
                args = n.args()
                if m in WIDTHS:
                    tot = padd(tot, P(WIDTHS[m]))
                elif m in ARRAY_WIDTHS and len(args) >= 2:
                    tot = padd(tot, pmul(P(ARRAY_WIDTHS[m]), self.val(args[1], env, depth)))
                elif m in ('WritePrimitive', 'ReadPrimitive'):
                    t = args[0].type() if args else n.type()
                    sz = type_size(t)
                    if sz is None:
                        raise Outside('WritePrimitive of unknown type %s' % t)
                    tot = padd(tot, P(sz))
                elif m in ('WritePrimitives', 'ReadPrimitives') and len(args) >= 2:
                    t = args[0].type().rstrip('*').strip()
                    sz = type_size(t)
                    if sz is None:
                        raise Outside('%s of unknown type %s' % (m, t))
                    tot = padd(tot, pmul(P(sz), self.val(args[1], env, depth)))
                elif m in ('WriteFlat', 'ReadFlat') and args and args[0]['k'] != 'CXXDefaultArgExpr':
                    tot = padd(tot, self.fs(args[0], env, depth))
                elif m == 'ReadFlat' and not [a for a in args if a['k'] != 'CXXDefaultArgExpr']:
                    tot = padd(tot, self.fs(n, env, depth))        # value-returning ReadFlat<T>(): sized by T
                elif m in ('WriteFlatWithLengthPrefix', 'ReadFlatWithLengthPrefix') and args:
                    tot = padd(tot, padd(P(4), self.fs(args[0], env, depth)))
                elif m in ('WriteFlatsWithLengthPrefixes', 'ReadFlatsWithLengthPrefixes') and len(args) >= 2:
                    cnt = self.val(args[1], env, depth)
                    base = self.key(args[0], env, depth)
                    tot = padd(tot, psum('j', cnt, padd(P(4), atom('FS(%s[[j]])' % base))))
                elif m in ('WriteFlats', 'ReadFlats') and len(args) >= 2:
                    cnt = self.val(args[1], env, depth)
                    base = self.key(args[0], env, depth)
                    tot = padd(tot, psum('j', cnt, atom('FS(%s[[j]])' % base)))
                elif m == 'WriteCString' or m == 'ReadCString':
                    tot = padd(tot, atom('CSTR'))
                elif m == 'SeekRelative' and args:
                    tot = padd(tot, self.val(args[0], env, depth))
                elif m in ('GetCurrentWritePointer', 'GetCurrentReadPointer', 'GetNumBytesAvailable', 'GetNumBytesWritten', 'GetNumBytesRead', 'GetStatus', 'SetCompleteWriteRequired', 'GetBuffer',
                           'GetMaxNumBytes', 'GetNumBytesRemaining', 'SeekToEnd'):
                    if m == 'SeekToEnd':
                        tot = padd(tot, atom('REST'))
                else:
                    raise Outside('stream call %s at line %s' % (m, n.get('l')))
            else:
                if n['k'] in ('CXXConstructExpr', 'CXXTemporaryObjectExpr') and 'DataUnflattenerReadLimiter' in (n.get('q') or ''):
                    continue          # a read limiter only narrows the window; it consumes nothing
                if n['k'] == 'CXXMemberCallExpr' and m in ('Flatten', 'Unflatten') and n.args() and self.is_stream(n.args()[0], env, sd):
                    r = n.receiver()
                    tot = padd(tot, self.fs(r, env, depth) if r is not None else atom('FS(this)'))
                    continue
                # a call that is handed the stream: follow it (same-class helpers), else outside
                for i, a in enumerate(n.args()):
                    if self.is_stream(a, env, sd):
                        h = self.callee(n)
                        if h is None or depth >= self.max_inline:
                            tot = padd(tot, atom('IO(%s)' % self.key(n, env, depth)))
                        else:
                            pi = i if n['k'] != 'CXXOperatorCallExpr' else i - 1
                            env2 = self.bind_vals(h, n, env, depth)
                            env2['__depth__'] = env.get('__depth__', 0)       # values read inside the helper are per iteration of the caller's loops
                            tot = padd(tot, self.io_stmt(h.body, env2, h.params[pi]['d'], depth + 1, verbs, h))
        return tot

    def calls_in_order(self, e):
        """call nodes of an expression in evaluation order (post-order: arguments before the call), not descending into lambdas"""
        out = []

        def rec(n):
            for c in n['ch']:
                rec(c)
            if n.is_call():
                out.append(n)
        rec(e)
        return out

    def fs(self, obj, env, depth):
        """flattened size of an object expression: constant for fixed-size classes, FS(key) otherwise"""
        t = obj.type().replace('const ', '').replace('&', '').strip()
        fsf = [f for f in self.fx.by_q.get(t + '::FlattenedSize', []) if f.full]
        if fsf:
            try:
                v = pconst(self.fn_value(fsf[0], {}, depth + 1))
                if v is not None:
                    return P(v)
            except Outside:
                pass
        return atom('FS(%s)' % self.key(obj, env, depth))


def simple_return(g):
    """the returned expression of a function whose body is a single `return expr;` (ignoring checkpoint macros)"""
    if g.body is None:
        return None
    stmts = [s for s in g.body['ch'] if s['k'] not in ('DoStmt', 'NullStmt')]
    if len(stmts) == 1 and stmts[0]['k'] == 'ReturnStmt' and stmts[0]['ch']:
        return A.strip_casts(stmts[0]['ch'][0])
    return None


def shape(p):
    """order-insensitive structural shape of a byte count: counts -> N, per-item sizes/lengths -> ITEM, loop variables unified"""
    t = pstr(p)
    t = re.sub(r'min\([^()]*(\([^()]*\))*[^()]*\)', 'N', t)
    t = re.sub(r'RD\d+(\[\[?[ij]\d*\]?\])+', 'ITEM', t)
    t = re.sub(r'RD\d+', 'N', t)
    t = re.sub(r'FS\([^()]*(\([^()]*\))*[^()]*\)', 'ITEM', t)
    t = re.sub(r'\b[ij]\d*<', 'i<', t)
    t = re.sub(r'[A-Za-z_][A-Za-z_0-9.]*\(\)', 'N', t)
    return t
