"""Verdict bookkeeping: obligations, violations, known findings, evidence and replay files."""
import json, os, sys, time

VERIF = os.path.dirname(os.path.dirname(os.path.abspath(__file__)))
KNOWN = os.path.join(VERIF, 'known_findings.json')


class Result(object):
    def __init__(self, pid, tier, seed=0):
        self.pid = pid
        self.tier = tier
        self.seed = seed
        self.t0 = time.time()
        self.obligations = []     # dicts: rule, site, what, ok, how, nontrivial
        self.violations = []      # dicts: rule, key, where, function, message, detail
        self.infos = []
        self.rules = {}           # rule name -> description / floors
        self.explanation = ''
        self.assumptions = []
        self.not_decided = []
        self.units = []
        self.functions_analysed = 0
        self.extra = {}
        self.broken = []

    # -------------------------------------------------------------- recording
    def rule(self, name, text, floor=None):
        self.rules[name] = {'rule': text, 'instances': 0, 'discharged': 0, 'floor': floor}

    def ob(self, rule, where, what, ok, how=None, nontrivial=True, function=None, key=None, detail=None, message=None):
        """record one obligation; a failed one becomes a violation (key identifies it for known findings)"""
        r = self.rules.setdefault(rule, {'rule': '', 'instances': 0, 'discharged': 0, 'floor': None})
        r['instances'] += 1
        if ok:
            r['discharged'] += 1
        self.obligations.append({'rule': rule, 'where': where, 'function': function, 'what': what, 'ok': bool(ok),
                                 'how': how, 'nontrivial': bool(nontrivial)})
        if not ok:
            self.violations.append({'rule': rule, 'key': key or ('%s|%s|%s' % (rule, function or '', what)), 'where': where,
                                    'function': function, 'message': message or what, 'detail': detail})
        return ok

    def info(self, rule, where, text):
        self.infos.append({'rule': rule, 'where': where, 'text': text})

    def check_floor(self, rule, floor=None):
        r = self.rules.get(rule)
        fl = floor if floor is not None else (r or {}).get('floor')
        n = r['instances'] if r else 0
        if fl is not None and n < fl:
            self.broken.append('rule %s matched %d instances, below the floor of %d confirmed by reading (anchor moved or rule blind)' % (rule, n, fl))

    # -------------------------------------------------------------- finishing
    def finish(self):
        from .facts import AnalysisBroken
        for name, r in self.rules.items():
            if r.get('floor') is not None and r['instances'] < r['floor']:
                msg = 'rule %s matched %d instances, below the floor of %d confirmed by reading' % (name, r['instances'], r['floor'])
                if msg not in self.broken:
                    self.broken.append(msg)
        if self.broken:
            raise AnalysisBroken('; '.join(self.broken))

        known = []
        if os.path.exists(KNOWN):
            known = json.load(open(KNOWN)).get('findings', [])
        known_here = [k for k in known if k.get('property') == self.pid and k.get('status') == 'known']
        listed, unlisted = [], []
        for v in self.violations:
            hit = None
            for k in known_here:
                if k.get('key') == v['key']:
                    hit = k
                    break
            (listed if hit else unlisted).append((v, hit))

        # replay files: /verif/out/<id>/ for a run on /repo; runs of the checker's own self-test (scratch tree given with --repo, or MSA_OUT_SUFFIX set) write
        # theirs elsewhere so that they neither race with each other nor remove the replay files of the real run
        if os.environ.get('MSA_REPO'):
            outdir = os.path.join(os.environ['MSA_REPO'], '.msa-out', self.pid)
        elif os.environ.get('MSA_OUT_SUFFIX'):
            outdir = os.path.join(VERIF, 'out', '%s.%s' % (self.pid, os.environ['MSA_OUT_SUFFIX']))
        else:
            outdir = os.path.join(VERIF, 'out', self.pid)
        os.makedirs(outdir, exist_ok=True)
        for f in os.listdir(outdir):
            if f.startswith('v') and f.endswith('.json'):
                try:
                    os.unlink(os.path.join(outdir, f))
                except OSError:
                    pass
        lines = []
        for (v, k) in listed:
            lines.append('KNOWN-FINDING: property=%s %s [%s at %s]' % (self.pid, k.get('what', v['message']), v['rule'], v['where']))
        for n, (v, _) in enumerate(unlisted):
            path = os.path.join(outdir, 'v%d.json' % n)
            json.dump({'property': self.pid, 'rule': v['rule'], 'rule_text': self.rules.get(v['rule'], {}).get('rule'),
                       'key': v['key'], 'where': v['where'], 'function': v['function'],
                       'message': v['message'], 'detail': v['detail'],
                       'replay': './check %s --tier %s --explain %s' % (self.pid, self.tier, path)}, open(path, 'w'), indent=1)
            lines.append('VIOLATION property=%s replay=%s' % (self.pid, path))
            lines.append('  %s: %s: %s' % (v['where'], v['rule'], v['message']))
        self.write_evidence(len(unlisted), [v['key'] for v, _ in listed])
        for l in lines:
            print(l)
        nob = len(self.obligations)
        nd = sum(1 for o in self.obligations if o['ok'])
        print('%s %s: %d obligations, %d discharged, %d known findings, %d violations, %.1fs' %
              (self.pid, self.tier, nob, nd, len(listed), len(unlisted), time.time() - self.t0))
        return 1 if unlisted else 0

    def write_evidence(self, nviol, known_matched):
        obs = self.obligations
        distinct = set()
        for o in obs:
            if o['nontrivial']:
                distinct.add((o['rule'], o['where'], o['what']))
        samples = []
        per_rule_seen = {}
        for o in obs:
            c = per_rule_seen.get(o['rule'], 0)
            if c < 3:
                samples.append({k: o[k] for k in ('rule', 'where', 'function', 'what', 'ok', 'how')})
                per_rule_seen[o['rule']] = c + 1
        cov = {
            'explanation': self.explanation,
            'evaluations': len(obs),
            'distinct_nontrivial': len(distinct),
            'rule': 'one evaluation = one rule instance (a site in the current /repo sources that the rule matched) decided on the CFG / call graph / resolved AST; '
                    'non-trivial = the instance required a real discharge (a guard, pairing, or table entry had to be found), distinct by (rule, site, requirement)',
            'obligations': len(obs),
            'discharged': sum(1 for o in obs if o['ok']),
            'samples': samples[:40],
            'rules': self.rules,
            'units_parsed': self.units,
            'functions_analysed': self.functions_analysed,
            'known_findings_matched': known_matched,
            'not_decided': self.not_decided,
            'informational': self.infos[:60],
            'exhaustive': True,
        }
        cov.update(self.extra)
        ev = {
            'property_id': self.pid,
            'tier': self.tier,
            'seed': self.seed,
            'level': 'other',
            'coverage': cov,
            'assumptions': self.assumptions,
            'wall_s': round(time.time() - self.t0, 2),
            'violations': nviol,
        }
        evdir = os.path.join(VERIF, 'evidence')
        os.makedirs(evdir, exist_ok=True)
        json.dump(ev, open(os.path.join(evdir, '%s.json' % self.pid), 'w'), indent=1, sort_keys=False)
