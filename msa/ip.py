"""Interprocedural views for rules that are stated about "the function F": after an extract-helper or split-function refactoring the statements a rule looks for sit in a private helper
that F calls.  These helpers let a rule keep talking about F while looking through such calls.

  helper_of(fx, call, scope_re)      the analysed body a (non-virtual) call resolves to, if its qualified name matches scope_re (the class / file the rule is about)
  may_sites(fx, f, pred, scope_re)   nodes of f that ARE an event (pred) or are calls to a helper that MAY perform one            -> [(node in f, [leaf (g, node) …])]
  must_sites(fx, f, pred, scope_re)  nodes of f that are an event or are calls to a helper that performs one on EVERY path from its entry to a normal return
  scope(fx, f, scope_re)             f and the helpers reachable from it by such calls (each once)                                  -> [g …]
  call_sites_of(fx, g, scope_re)     call nodes (h, call) in analysed functions that resolve to g

Only direct, non-virtual calls to functions whose bodies were analysed are followed, to a small depth; everything else stays opaque, as before."""
import re
from . import cfg as C


def helper_of(fx, call, scope_re):
    if not call.is_call() or call.get('virt'):
        return None
    q = call.get('q') or ''
    if not re.search(scope_re, q):
        return None
    g = fx.funcs.get(call.get('fn')) if call.get('fn') else None
    if g is not None and g.full:
        return g
    # resolve by qualified name when the call record has no id (static functions, templates instantiated elsewhere): unique full body only
    cands = [h for h in fx.funcs.values() if h.full and h.q == q]
    return cands[0] if len(cands) == 1 else None


def _pos(f, n):
    p = f.pos(n['i'])
    if p is None:
        for a in n.ancestors():
            p = f.pos(a['i'])
            if p is not None:
                break
    return p


def may_sites(fx, f, pred, scope_re, depth=3, _stack=()):
    out = []
    for n in f.walk():
        if pred(n):
            out.append((n, [(f, n)]))
        elif n.is_call() and depth > 0:
            g = helper_of(fx, n, scope_re)
            if g is not None and g is not f and g.id not in _stack:
                sub = may_sites(fx, g, pred, scope_re, depth - 1, _stack + (f.id,))
                if sub:
                    out.append((n, [leaf for (_, leaves) in sub for leaf in leaves]))
    return out


def must_sites(fx, f, pred, scope_re, depth=3, _stack=(), escapes=None):
    """nodes of f at which the event certainly happens: the event itself, or a call to a helper all of whose entry-to-return paths pass an event (error/escape edges excepted by `escapes(g)`)"""
    out = []
    for n in f.walk():
        if pred(n):
            out.append(n)
        elif n.is_call() and depth > 0:
            g = helper_of(fx, n, scope_re)
            if g is not None and g is not f and g.id not in _stack:
                sub = must_sites(fx, g, pred, scope_re, depth - 1, _stack + (f.id,), escapes)
                pts = set(p for p in (_pos(g, x) for x in sub) if p)
                if pts and C.must_pass(g, (g.entry, -1), pts, avoid_edges=set(escapes(g)) if escapes else set())[0]:
                    out.append(n)
    return out


def scope(fx, f, scope_re, depth=3, single_caller=False):
    """f and the helpers reachable from it; with single_caller=True only helpers that have exactly one call site in the analysed functions of the scope (a block or tail that was
    split off f), not shared routines that other entry points call as well"""
    out, work = [f], [(f, depth)]
    while work:
        g0, d = work.pop()
        if d <= 0:
            continue
        for c in g0.walk():
            if c.is_call():
                h = helper_of(fx, c, scope_re)
                if h is not None and h not in out:
                    if single_caller and len(call_sites_of(fx, h, scope_re)) != 1:
                        continue
                    out.append(h)
                    work.append((h, d - 1))
    return out


def call_sites_of(fx, g, scope_re='.'):
    out = []
    for h in fx.funcs.values():
        if not h.full or not re.search(scope_re, h.q):
            continue
        for c in h.walk():
            if c.is_call() and (c.get('fn') == g.id or ((c.get('q') or '') == g.q and helper_of(fx, c, '.') is g)):
                out.append((h, c))
    return out


def atoms_at_ip(fx, f, g, node, scope_re, depth=3):
    """facts that hold when control reaches `node` of g, seen from f: the dominating atoms inside g (msa.guards.atoms_at), and — when g is a helper with a single call site in the
    scope — the atoms that dominate that call site, plus, for every atom that tests a parameter of g, what the same test says about the argument passed at the call site."""
    from . import guards as G
    from . import ast as A
    atoms = list(G.atoms_at(g, node))
    if g is f or depth <= 0:
        return atoms
    sites = call_sites_of(fx, g, scope_re)
    if len(sites) != 1:
        return atoms
    (h, c) = sites[0]
    pidx = dict((p_['d'], k) for k, p_ in enumerate(g.params) if p_.get('d') is not None)
    args = c.args()
    if c['k'] == 'CXXOperatorCallExpr' and len(args) == len(g.params) + 1:
        args = args[1:]
    extra = []
    for (a, t) in atoms:
        a0 = A.strip_casts(a)
        if a0['k'] == 'DeclRefExpr' and a0.get('d') in pidx and pidx[a0['d']] < len(args):
            extra += G.atoms_of_cond(h, args[pidx[a0['d']]], t)
    return atoms + extra + atoms_at_ip(fx, f, h, c, scope_re, depth - 1)


def resolve_arg(fx, g, expr, scope_re, depth=3):
    """(function, expression) that `expr` of g stands for, seen from g's caller: a reference to a parameter of a helper with a single call site is replaced by the argument passed there"""
    from . import ast as A
    e = A.strip_casts(expr)
    if depth <= 0 or e['k'] != 'DeclRefExpr' or e.get('d') is None:
        return g, expr
    for k, p_ in enumerate(g.params):
        if p_.get('d') == e['d']:
            sites = call_sites_of(fx, g, scope_re)
            if len(sites) != 1:
                return g, expr
            (h, c) = sites[0]
            args = c.args()
            if c['k'] == 'CXXOperatorCallExpr' and len(args) == len(g.params) + 1:
                args = args[1:]
            if k < len(args):
                return resolve_arg(fx, h, args[k], scope_re, depth - 1)
    return g, expr
