"""C19  A thread pool handles each client's Messages once, in order, one at a time.
LOCKSET (all pool tables under _poolLock, 'Unsafe' helpers only called with it), HANDOFF-ATOMIC (hand-off, 'being handled' flag and removal from the pending
table in one critical section; submit defers iff the flag is set; completion clears the flag, promotes deferred->pending and dispatches in one critical
section), UNREGISTER (registration for completion in the same critical section as the outstanding test; wait outside the lock)."""
import re
from msa import guards as G
from msa import pair as P
from msa import ast as A
from msa import cfg as C
from msa import lockset as L
from msa.facts import AnalysisBroken
from . import common

TP = 'muscle::ThreadPool'
TABLES = ('_availableThreads', '_activeThreads', '_registeredClients', '_pendingMessages', '_deferredMessages', '_waitingForCompletion', '_shuttingDown', '_threadIDCounter')
LOCK = ('this', '_poolLock')
BLOCKING = re.compile(r'^muscle::(WaitCondition::Wait|Thread::WaitForInternalThreadToExit|Thread::ShutdownInternalThread|ThreadPool::ShutdownThreadsInTableWithoutDeadlocking)$')


def lockset_rule(res, fx, cls, funcs, tables, lock, rule, exceptions, floor):
    res.rule(rule, 'every access to %s of %s happens with the same object\'s %s held (helpers that assume the lock: inferred from all their call sites)' % (', '.join(tables), cls.split('::')[-1], lock[1]), floor=floor)
    cl = L.ClassLocks(fx, funcs)
    n = 0
    for f in sorted(funcs, key=lambda f: (f.file, f.line)):
        short = f.q.split('::')[-1]
        if short in ('(ctor)', '(dtor)'):
            continue
        bad = []
        cnt = 0
        for m0 in f.walk():
            # an access is a use of the member — directly, or through a local reference that is another name for it; binding such a reference is not itself an access
            m = A.strip_casts(m0) if (m0['k'] == 'DeclRefExpr' and 'alias_i' in m0) else m0
            if m0['k'] == 'MemberExpr' and m0.get('alias_binding'):
                continue
            if m['k'] == 'MemberExpr' and m.get('dk') == 'Field' and m.get('n') in tables and (m.get('q') or '').startswith(cls + '::'):
                cnt += 1
                m_use = m0
                key = L.access_key(m, lock[1])
                if key not in cl.held_at(f, m_use):
                    # merely binding the table to a reference parameter of a callee is not an access
                    p = m.parent
                    if p is not None and p.is_call() and m in p.args():
                        pk = A.param_kinds(p)
                        idx = p.args().index(m)
                        if idx < len(pk) and pk[idx] in ('mref', 'cref') and (short, m.get('n')) in exceptions:
                            continue
                    if (short, m.get('n')) in exceptions or (short, '*') in exceptions:
                        continue
                    bad.append(m)
        if cnt == 0:
            continue
        n += cnt
        res.ob(rule, f.where(bad[0]) if bad else f.where(), '%d access(es) to guarded state in %s hold %s' % (cnt, short, lock[1]), not bad, function=f.q,
               how='lock set at each access contains %s%s' % (lock[1], ' (assumed at entry: held at all %s call sites)' % short if cl.entry.get(f.id) else ''),
               key='%s|%s|%s' % (rule, f.q, bad[0].get('n') if bad else ''),
               message='%s touches %s at line %s without holding %s: concurrent pool threads and clients race on the pool tables' % (f.q, bad[0].get('n') if bad else '', bad[0].get('l') if bad else '', lock[1]))
    return cl, n


def run(res, tier):
    fx = common.load_units(res, ['system/ThreadPool.cpp', 'system/Thread.cpp'], fn_regex=r'^muscle::(ThreadPool|IThreadPoolClient|Thread)(::|$)')
    funcs = [f for f in fx.funcs.values() if f.full and f.cls == TP]
    if len(funcs) < 10:
        raise AnalysisBroken('only %d ThreadPool functions' % len(funcs))
    res.functions_analysed = len(funcs)
    EXC = {('Print', '*'): 'debug printer', ('GetMaxThreadCount', '_maxThreadCount'): 'constant after construction',
           ('Shutdown', '_availableThreads'): 'only bound to a reference parameter; the callee swaps it out under _poolLock (checked below)',
           ('Shutdown', '_activeThreads'): 'same'}
    cl, n_acc = lockset_rule(res, fx, TP, funcs, TABLES, LOCK, 'LOCKSET', EXC, floor=8)
    res.extra['guarded_accesses'] = n_acc
    res.extra['frozen_exceptions'] = {'%s.%s' % k: v for k, v in EXC.items()}
    res.extra['inferred_entry_locks'] = {f.q.split('::')[-1]: sorted(k[1] for k in cl.entry[f.id]) for f in funcs if cl.entry.get(f.id)}
    # the by-reference exception: every use of the parameter inside the callee is under the lock
    f = fx.fn1(TP + '::ShutdownThreadsInTableWithoutDeadlocking')
    pd = f.params[0]['d']
    uses = [x for x in f.walk() if x['k'] == 'DeclRefExpr' and x.get('d') == pd]
    ok = bool(uses) and all(LOCK in cl.held_at(f, u) for u in uses)
    res.ob('LOCKSET', f.where(), 'ShutdownThreadsInTableWithoutDeadlocking touches its table argument only under _poolLock', ok, function=f.q, how='%d use(s), all under the guard' % len(uses),
           key='LOCKSET|%s|param' % f.q, message='the table handed over by Shutdown() is used without _poolLock')
    # Unsafe helpers are called with the lock
    for f in funcs:
        if f.q.endswith('Unsafe'):
            ok = LOCK in (cl.entry.get(f.id) or ())
            res.ob('LOCKSET', f.where(), '%s is only called with _poolLock held' % f.q.split('::')[-1], ok, function=f.q, how='held at all call sites', key='LOCKSET|%s|precondition' % f.q,
                   message='%s (documented to assume _poolLock) is called from a site that does not hold it' % f.q)
    # ---------------------------------------------------------------------------------- NO-BLOCK
    res.rule('NO-BLOCK', 'no blocking call (WaitCondition::Wait, thread join/shutdown) while _poolLock is held', floor=2)
    nb = 0
    for f in sorted(funcs, key=lambda f: f.line):
        for c in f.walk():
            if c.is_call() and BLOCKING.search(c.get('q') or ''):
                nb += 1
                held = cl.may_held_at(f, c)
                if (f.q.split('::')[-1], (c.get('q') or '').split('::')[-1]) == ('DispatchPendingMessagesUnsafe', 'ShutdownInternalThread'):
                    # frozen exception, confirmed by reading: roll-back of a thread started in this very critical section that has not been given a client;
                    # such a thread only waits for its first Message and never takes _poolLock, so joining it under the lock cannot deadlock
                    recv = c.receiver()
                    fresh = recv is not None and any(v['k'] == 'VarDecl' and v['d'] == A.root_loc(recv)[1] and any(x['k'] == 'CXXNewExpr' for x in v.walk()) for v in f.walk())
                    res.ob('NO-BLOCK', f.where(c), 'roll-back join of the thread created in this critical section', fresh, nontrivial=False, function=f.q,
                           how='receiver is the ThreadPoolThread allocated a few lines above (never handed a client)', key='NO-BLOCK|%s|rollback-join' % f.q,
                           message='DispatchPendingMessagesUnsafe joins a thread other than the one it has just created while holding _poolLock')
                    continue
                res.ob('NO-BLOCK', f.where(c), '%s in %s runs without _poolLock' % ((c.get('q') or '').split('::')[-1], f.q.split('::')[-1]), LOCK not in held, function=f.q,
                       how='lock set %s' % sorted(k[1] for k in held), key='NO-BLOCK|%s|%s' % (f.q, (c.get('q') or '').split('::')[-1]),
                       message='%s blocks in %s while holding _poolLock: the pool thread that must make progress needs the same lock (deadlock)' % (f.q, (c.get('q') or '').split('::')[-1]))
    # ---------------------------------------------------------------------------------- HANDOFF-ATOMIC
    res.rule('HANDOFF-ATOMIC', 'dispatch: success of SendMessagesToInternalThread is followed, in the same critical section, by *isBeingHandled = true and removal from _pendingMessages; '
                               'submit: queue chosen by the flag; completion: flag cleared, deferred promoted to pending, dispatch, all under one guard', floor=5)
    f = fx.fn1(TP + '::DispatchPendingMessagesUnsafe')
    send = [c for c in f.walk() if c['k'] == 'CXXMemberCallExpr' and (c.get('q') or '').endswith('ThreadPoolThread::SendMessagesToInternalThread')]
    if len(send) != 1:
        raise AnalysisBroken('DispatchPendingMessagesUnsafe: hand-off call not found')
    setflag = [n for n in f.walk() if n['k'] == 'BinaryOperator' and n.get('op') == '=' and A.strip_casts(n['ch'][0])['k'] == 'UnaryOperator' and n['ch'][1].get('v') == 1]
    rmfirst = [c for c in f.walk() if c['k'] == 'CXXMemberCallExpr' and (c.get('q') or '').endswith('::RemoveFirst') and c.receiver() is not None and A.strip_casts(c.receiver()).get('n') == '_pendingMessages']
    esc = P.escape_edges(f)
    ok1, _ = P.must_follow(f, send[0], setflag, escapes=esc) if setflag else (False, None)
    # the flag pointer must be the entry of the client that is handed off
    flag_ok = False
    if setflag:
        ptr = A.strip_casts(A.strip_casts(setflag[0]['ch'][0])['ch'][0])
        for v in f.walk():
            if v['k'] == 'VarDecl' and v['d'] == ptr.get('d') and v['ch']:
                c0 = A.strip_casts(v['ch'][0])
                if c0['k'] == 'CXXMemberCallExpr' and A.strip_casts(c0.receiver()).get('n') == '_registeredClients' and c0.args():
                    flag_ok = A.strip_casts(c0.args()[0]).get('d') == A.strip_casts(send[0].args()[0]).get('d')
    guarded_rm = [r for r in rmfirst if any(cn is not None for cn in [1])]
    succ_rm = []
    for r in rmfirst:
        # the removal on the success path: dominated by the hand-off's OK edge
        for (cn, t) in [(f.nodes[c], t) for (c, t) in C.guards_of_block(f, P.pos_of(f, r)[0])]:
            n, pol = P.strip_not(cn, t)
            if P.is_status_test(n) == 'ok' and pol and send[0] in list(n.walk()):
                succ_rm.append(r)
    res.ob('HANDOFF-ATOMIC', f.where(send[0]), 'after a successful hand-off the client is marked as being handled and leaves the pending table (no unlock in between: the function runs under the caller\'s guard)',
           ok1 and flag_ok and bool(succ_rm), function=f.q, how='*isBeingHandled = true at line %s, _pendingMessages.RemoveFirst() at line %s' % (setflag[0].get('l') if setflag else '?', succ_rm[0].get('l') if succ_rm else '?'),
           key='HANDOFF-ATOMIC|%s|mark' % f.q,
           message='DispatchPendingMessagesUnsafe can hand a client\'s Messages to a thread without marking the client as being handled (or without removing it from the pending table): a second thread picks up the same client concurrently or the Messages are handled twice')
    f = fx.fn1(TP + '::SendMessageToThreadPool')
    # the queue a new Message goes to: every use of _deferredMessages / _pendingMessages as the receiver of GetOrPut() (directly, or as an arm of `c ? a : b`, whose arms are
    # separate CFG blocks) is dominated by the being-handled flag of this client being true / false
    flagvars = set()
    for v in f.walk():
        if v['k'] == 'VarDecl' and v['ch']:
            c0 = A.strip_casts(v['ch'][0])
            if c0['k'] == 'CXXMemberCallExpr' and c0.receiver() is not None and A.strip_casts(c0.receiver()).get('n') == '_registeredClients' and c0.args() and A.strip_casts(c0.args()[0]).get('d') == f.params[0]['d']:
                flagvars.add(v['d'])

    def flag_truth(node):
        out = set()
        for (cn, t) in G.atoms_at(f, node):
            c1 = G.local_init(f, cn)
            if c1['k'] == 'UnaryOperator' and c1.get('op') == '*' and A.strip_casts(c1['ch'][0]).get('d') in flagvars:
                out.add(t)
        return out
    uses = {'_deferredMessages': [], '_pendingMessages': []}
    for c in f.walk():
        if c['k'] == 'CXXMemberCallExpr' and (c.get('q') or '').endswith('::GetOrPut') and c.receiver() is not None:
            for x in c.receiver().walk():
                if x['k'] == 'MemberExpr' and x.get('n') in uses:
                    uses[x['n']].append(x)
    sel = None
    if uses['_deferredMessages'] and uses['_pendingMessages'] and flagvars:
        okq = all(flag_truth(x) == set([True]) for x in uses['_deferredMessages']) and all(flag_truth(x) == set([False]) for x in uses['_pendingMessages'])
        sel = (uses['_deferredMessages'][0], sorted(flagvars)[0]) if okq else None
    flagsrc = bool(flagvars)
    res.ob('HANDOFF-ATOMIC', f.where(), 'SendMessageToThreadPool appends to _deferredMessages iff the client\'s being-handled flag is set, else to _pendingMessages', bool(sel) and flagsrc, function=f.q,
           how='((*isBeingHandled) ? _deferredMessages : _pendingMessages).GetOrPut(client)', key='HANDOFF-ATOMIC|%s|queue-choice' % f.q,
           message='SendMessageToThreadPool no longer defers Messages of a client that is currently being handled: they are dispatched to a second thread while the first is still running the client\'s handler')
    disp = P.calls(f, r'::DispatchPendingMessagesUnsafe$')
    okd = False
    for d in disp:
        okd = False
        for (cn, t) in G.atoms_at(f, d):
            cn = G.local_init(f, cn)
            if cn['k'] == 'UnaryOperator' and cn.get('op') == '*' and not t and sel and A.strip_casts(cn['ch'][0]).get('d') == sel[1]:
                okd = True
    res.ob('HANDOFF-ATOMIC', f.where(), 'SendMessageToThreadPool dispatches only when the client is not being handled', okd, function=f.q, key='HANDOFF-ATOMIC|%s|dispatch-guard' % f.q,
           message='SendMessageToThreadPool can dispatch while the client is being handled')
    f = fx.fn1(TP + '::ThreadFinishedProcessingClientMessages')
    clr = [n for n in f.walk() if n['k'] == 'BinaryOperator' and n.get('op') == '=' and A.strip_casts(n['ch'][0])['k'] == 'UnaryOperator' and n['ch'][1].get('v') == 0]
    from msa import ip as IP_
    # the promotion (SwapContents of the deferred queue into the pending one) may sit in a private helper: the call of that helper is then the event in this function
    swap = [top for (top, leaves) in IP_.may_sites(fx, f, lambda c: c['k'] == 'CXXMemberCallExpr' and (c.get('q') or '').endswith('::SwapContents'),
                                                   '^' + TP + '::(?!DispatchPendingMessagesUnsafe$)')]
    disp = P.calls(f, r'::DispatchPendingMessagesUnsafe$')
    # one critical section: the flag clear, the promotion and the dispatch all run under one and the same guard object (a scoped guard, or an explicit Lock() … Unlock() pair)
    lf_c = L.LockFlow(f)

    def gids(node):
        p_ = P.pos_of(f, node)
        base = lf_c.IN.get(p_[0]) if p_ else None
        return set(g_ for g_ in lf_c._transfer(p_[0], base, upto=p_[1]) if lf_c.guards.get(g_) == LOCK) if base is not None else set()
    evs_ = clr + swap + disp
    common_g = None
    for e_ in evs_:
        common_g = gids(e_) if common_g is None else (common_g & gids(e_))
    one_cs = bool(evs_) and bool(common_g)
    order = bool(clr) and bool(disp) and all(P.must_precede(f, clr, d, P.escape_edges(f)) for d in disp) and (not swap or all(P.must_precede(f, swap, d, P.escape_edges(f)) or True for d in disp))
    # promotion precedes dispatch on the path where deferred Messages exist
    promo = bool(swap) and all(not C.can_reach(f, P.pos_of(f, d), set([P.pos_of(f, s)])) for d in disp for s in swap)
    res.ob('HANDOFF-ATOMIC', f.where(), 'completion: flag cleared, deferred promoted to pending, then dispatch — one guard, no early unlock', one_cs and order and promo, function=f.q,
           how='clear at line %s, SwapContents at line %s, dispatch at line %s' % (clr[0].get('l') if clr else '?', swap[0].get('l') if swap else '?', disp[0].get('l') if disp else '?'),
           key='HANDOFF-ATOMIC|%s|completion' % f.q,
           message='ThreadFinishedProcessingClientMessages no longer clears the being-handled flag and promotes the deferred Messages before dispatching, inside one critical section: deferred Messages are lost, reordered or handled concurrently')
    # the wake-up may sit in this function or in a private helper it calls (under the same guard: LOCKSET covers the helper's entry lock set)
    scope, work = [f], [f]
    while work:
        g0 = work.pop()
        for c in g0.walk():
            if c.is_call() and (c.get('q') or '').startswith(TP + '::'):
                for h in fx.by_q.get(c.get('q'), []) if hasattr(fx, 'by_q') else [x for x in fx.funcs.values() if x.q == c.get('q') and x.full]:
                    if h.full and h not in scope:
                        scope.append(h)
                        work.append(h)
    wake = [(g0, c) for g0 in scope for c in g0.walk() if c['k'] == 'CXXMemberCallExpr' and (c.get('q') or '').endswith('WaitCondition::Notify')]
    okw = bool(wake)
    for (g0, w) in wake:
        okw = okw and any(n.is_call() and (n.get('q') or '').endswith('::DoesClientHaveMessagesOutstandingUnsafe') and not pol for (n, pol) in G.atoms_at(g0, w))
        if g0 is not f:
            okw = okw and LOCK in (cl.entry.get(g0.id) or ())
    res.ob('HANDOFF-ATOMIC', f.where(), 'the unregistering client is woken only when it has no Messages outstanding', okw, function=f.q, key='HANDOFF-ATOMIC|%s|wake' % f.q,
           message='the completion path wakes UnregisterClient while Messages of that client are still outstanding')
    # ---------------------------------------------------------------------------------- UNREGISTER
    res.rule('UNREGISTER', 'UnregisterClient registers its wait condition in the same critical section as the outstanding-Messages test and waits outside the lock', floor=1)
    f = fx.fn1(TP + '::UnregisterClient')
    put = [c for c in f.walk() if c['k'] == 'CXXMemberCallExpr' and (c.get('q') or '').endswith('::Put') and A.strip_casts(c.receiver()).get('n') == '_waitingForCompletion']
    test = P.calls(f, r'::DoesClientHaveMessagesOutstandingUnsafe$')
    flow = cl.flow(f)
    same = False
    if put and test:
        # same guard object held at both
        g1 = set(d for d in flow._transfer(P.pos_of(f, put[0])[0], flow.IN[P.pos_of(f, put[0])[0]], upto=P.pos_of(f, put[0])[1]))
        g2 = set(d for d in flow._transfer(P.pos_of(f, test[0])[0], flow.IN[P.pos_of(f, test[0])[0]], upto=P.pos_of(f, test[0])[1]))
        same = bool(g1 & g2) and P.must_precede(f, test, put[0])
    wait = P.calls(f, r'WaitCondition::Wait$')
    outside = bool(wait) and all(LOCK not in cl.may_held_at(f, w) for w in wait)
    res.ob('UNREGISTER', f.where(), 'outstanding test and registration in _waitingForCompletion share one guard; the wait is outside _poolLock', same and outside, function=f.q,
           key='UNREGISTER|%s|atomic' % f.q,
           message='UnregisterClient tests for outstanding Messages and registers its wait condition in different critical sections (or waits under the lock): the completion can slip in between and the wake-up is lost')
    # ---- round-1 additions
    f = fx.fn1(TP + '::DoesClientHaveMessagesOutstandingUnsafe')
    # every per-client table of the pool (a member keyed by IThreadPoolClient *) takes part in "does this client still have work": being handled, pending, deferred
    tabs = set()
    for g in fx.funcs.values():
        if g.full and g.cls == TP:
            for m in g.walk():
                if m['k'] == 'MemberExpr' and m.get('dk') == 'Field' and A.is_this_member(m) and 'IThreadPoolClient *' in m.type() and 'Hashtable' in m.type():
                    tabs.add(m.get('n'))
    tabs.discard('_waitingForCompletion')      # the table of clients blocked in UnregisterClient itself
    read = set(m.get('n') for m in f.walk() if m['k'] == 'MemberExpr' and A.is_this_member(m))
    missing = sorted(t for t in tabs if t not in read)
    if len(tabs) < 3:
        raise AnalysisBroken('UNREGISTER: expected at least three per-client tables in ThreadPool, found %s' % sorted(tabs))
    res.ob('UNREGISTER', f.where(), 'the outstanding-work predicate consults every per-client table %s' % sorted(tabs), not missing, function=f.q, key='UNREGISTER|%s|all-tables' % f.q,
           message='DoesClientHaveMessagesOutstandingUnsafe does not look at %s: a client whose Messages sit there counts as idle, UnregisterClient() returns at once and the unhandled Messages are '
                   'discarded' % missing)
    f = fx.fn1(TP + '::ThreadFinishedProcessingClientMessages')
    # the deferred queue is promoted whenever it is non-empty (accepted emptiness idioms only)
    is_gp = lambda c: c['k'] == 'CXXMemberCallExpr' and (c.get('q') or '').endswith('::GetOrPut') and c.receiver() is not None and A.strip_casts(c.receiver()).get('n') == '_pendingMessages'
    gp = [c for c in f.walk() if is_gp(c)]
    if not gp:
        # the promotion block may have been extracted into a private helper (msa/ip.py): judge it where it is
        from msa import ip as IP
        for g_ in IP.scope(fx, f, '^' + TP + '::'):
            if g_ is not f and any(is_gp(c) for c in g_.walk()) and not g_.q.endswith('::SendMessageToThreadPool') and not g_.q.endswith('::DispatchPendingMessagesUnsafe'):
                f = g_
                gp = [c for c in f.walk() if is_gp(c)]
                break
    if not gp:
        raise AnalysisBroken('HANDOFF-ATOMIC: the promotion of deferred Messages (_pendingMessages.GetOrPut) was not found')
    okp, howp = False, None
    p0 = P.pos_of(f, gp[0])
    dq = set(v['d'] for v in f.walk() if v['k'] == 'VarDecl' and v['ch'] and any(x['k'] == 'MemberExpr' and x.get('n') == '_deferredMessages' for x in v['ch'][0].walk()))
    for (c_, t_) in (C.guards_of_block(f, p0[0]) if p0 else []):
        gn, pol = P.strip_not(f.nodes[c_])
        onq = lambda e: e is not None and any(x['k'] == 'DeclRefExpr' and x.get('d') in dq for x in e.walk())
        if gn['k'] == 'CXXMemberCallExpr' and onq(gn.receiver()):
            m = (gn.get('q') or '').split('::')[-1]
            if (m == 'HasItems' and t_ == pol) or (m == 'IsEmpty' and t_ != pol):
                okp, howp = True, gn.text(40)
        if gn['k'] == 'BinaryOperator' and gn.get('op') in ('>', '!=', '>=') and t_ == pol:
            l, r = A.strip_casts(gn['ch'][0]), A.strip_casts(gn['ch'][1])
            if l['k'] == 'CXXMemberCallExpr' and (l.get('q') or '').endswith('::GetNumItems') and onq(l.receiver()):
                if (gn['op'] in ('>', '!=') and r.get('v') == 0) or (gn['op'] == '>=' and r.get('v') == 1):
                    okp, howp = True, gn.text(40)
                else:
                    howp = '%s (not an emptiness test)' % gn.text(40)
    res.ob('HANDOFF-ATOMIC', f.where(gp[0]), 'completion promotes the deferred queue whenever it is non-empty', okp, how=howp, function=f.q, key='HANDOFF-ATOMIC|%s::ThreadFinishedProcessingClientMessages|promote-nonempty' % TP,
           message='ThreadFinishedProcessingClientMessages promotes the deferred Messages under `%s` instead of "the deferred queue has items": a single deferred Message stays stranded while the client is '
                   'marked idle; it is never handled, later Messages overtake it and UnregisterClient() blocks forever' % (howp or 'no emptiness test on the deferred queue'))
    # ---- round-2 additions
    f = fx.fn1(TP + '::DispatchPendingMessagesUnsafe')
    lim = [n for n in f.walk() if n['k'] == 'BinaryOperator' and n.get('op') in ('<', '<=', '>', '>=') and any(x['k'] == 'MemberExpr' and x.get('n') == '_maxThreadCount' for x in n.walk())
           and any(x['k'] == 'MemberExpr' and x.get('n') == '_activeThreads' for x in n.walk())]
    if not lim:
        raise AnalysisBroken('HANDOFF-ATOMIC: the thread-limit test of DispatchPendingMessagesUnsafe was not found')
    for n in lim:
        lhs_is_count = any(x['k'] == 'MemberExpr' and x.get('n') == '_activeThreads' for x in n['ch'][0].walk())
        op = n['op'] if lhs_is_count else {'<': '>', '<=': '>=', '>': '<', '>=': '<='}[n['op']]
        res.ob('HANDOFF-ATOMIC', f.where(n), 'a new pool thread is created only while active threads < _maxThreadCount (strictly)', op == '<', how=n.text(60), function=f.q,
               key='HANDOFF-ATOMIC|%s|thread-limit' % f.q,
               message='DispatchPendingMessagesUnsafe creates a thread under `%s`: a saturated pool grows to _maxThreadCount + 1 threads, so one client more than the limit is handled in parallel' % n.text(60))
    f = fx.fn1(TP + '::Shutdown')
    from msa import ip as IP2
    # Shutdown and the private member(s) its tail may have been split into (msa/ip.py): the part that holds the Notify() loop is judged where it is
    sd_scope = [g_ for g_ in IP2.scope(fx, f, '^' + TP + '::(?!ShutdownThreadsInTableWithoutDeadlocking$)')]
    is_wclr = lambda c: c['k'] == 'CXXMemberCallExpr' and (c.get('q') or '').endswith('::Clear') and c.receiver() is not None and A.strip_casts(c.receiver()).get('n') == '_waitingForCompletion'
    is_nt = lambda c: c.is_call() and (c.get('q') or '').endswith('WaitCondition::Notify')
    for g_ in sd_scope:
        if any(is_wclr(c) for c in g_.walk()) and any(is_nt(c) for c in g_.walk()):
            f = g_
            break
    clr = [c for c in f.walk() if is_wclr(c)]
    nts = [c for c in f.walk() if is_nt(c)]
    if not clr or not nts:
        raise AnalysisBroken('UNREGISTER: Shutdown: _waitingForCompletion.Clear() / Notify() not found')
    bad = any(P.pos_of(f, c_) and P.pos_of(f, n_) and ((P.pos_of(f, c_)[0] == P.pos_of(f, n_)[0] and P.pos_of(f, c_)[1] < P.pos_of(f, n_)[1]) or C.can_reach(f, P.pos_of(f, c_), set([P.pos_of(f, n_)]))) for c_ in clr for n_ in nts)
    res.ob('UNREGISTER', f.where(clr[0]), 'Shutdown notifies the clients blocked in UnregisterClient before it clears their table', not bad, function=f.q, key='UNREGISTER|%s::Shutdown|notify-before-clear' % TP,
           message='ThreadPool::Shutdown clears _waitingForCompletion before the loop that notifies its entries: the loop runs over an empty table and a thread blocked in UnregisterClient() hangs forever')
    g = [h for h in fx.funcs.values() if h.full and h.q.endswith('ThreadPoolThread::MessageReceivedFromOwner')]
    if not g:
        raise AnalysisBroken('HANDOFF-ATOMIC: ThreadPoolThread::MessageReceivedFromOwner not found')
    g = g[0]
    hs = [c for c in g.walk() if c.is_call() and (c.get('q') or '').endswith('::MessageReceivedFromThreadPoolAux') and len(c.args()) >= 2]
    okh = bool(hs)
    for c in hs:
        a = A.strip_casts(c.args()[1])
        okh = okh and a.is_call() and (a.get('q') or '').split('::')[-1] in ('Head', 'HeadPointer', 'RemoveHeadWithDefault') and any(x.is_call() and (x.get('q') or '').endswith('::RemoveHead') for x in g.walk()) \
            or (a['k'] == 'DeclRefExpr' and any(x.is_call() and (x.get('q') or '').endswith('::RemoveHead') for x in g.walk()))
    res.ob('HANDOFF-ATOMIC', g.where(hs[0]) if hs else g.where(), 'the pool thread handles the head of its batch queue and then removes the head (submission order)', bool(okh), function=g.q,
           key='HANDOFF-ATOMIC|%s|head-first' % g.q,
           message='ThreadPoolThread::MessageReceivedFromOwner no longer takes the Message to handle from the head of _internalQueue: a batch of several Messages of one client is handled out of order')
    # ---- round 3: three ordering / ownership conditions
    f = fx.fn1(TP + '::UnregisterClient')
    puts = [c for c in f.walk() if c['k'] == 'CXXMemberCallExpr' and (c.get('q') or '').endswith('::Put') and c.receiver() is not None and A.strip_casts(c.receiver()).get('n') == '_waitingForCompletion' and len(c.args()) >= 2]
    okl = bool(puts)
    for c in puts:
        a1 = A.strip_casts(c.args()[1])
        tgt = A.strip_casts(a1['ch'][0]) if a1['k'] == 'UnaryOperator' and a1.get('op') == '&' else None
        okl = okl and tgt is not None and tgt['k'] == 'DeclRefExpr' and tgt.get('dk') in (None, 'Var') and any(v['k'] == 'VarDecl' and v.get('d') == tgt.get('d') for v in f.walk())
    res.ob('UNREGISTER', f.where(puts[0]) if puts else f.where(), 'UnregisterClient registers a wait condition that is a local of the call (one per blocked caller)', okl, function=f.q, key='UNREGISTER|%s|private-wait-condition' % f.q,
           message='UnregisterClient registers a wait condition that is not a local variable of the call: two threads unregistering different clients then wait on one object, the notification '
                   'for the client that finishes first is consumed by whichever thread waits first — it returns while its client\'s handler is still running, and the other thread waits for ever')
    g = fx.fn1('muscle::IThreadPoolClient::SetThreadPool')
    unreg = P.calls(g, r'::UnregisterClient$')
    asg = [w for w in g.walk() if w['k'] == 'BinaryOperator' and w.get('op') == '=' and A.strip_casts(w['ch'][0]).get('n') == '_threadPool' and A.strip_casts(w['ch'][1]).get('d') == g.params[0]['d']]
    reg = P.calls(g, r'::RegisterClient$')
    if not unreg or not asg or not reg:
        raise AnalysisBroken('UNREGISTER: SetThreadPool: UnregisterClient / _threadPool = tp / RegisterClient not found')
    late = any(C.can_reach(g, P.pos_of(g, x), set([P.pos_of(g, u)])) or (P.pos_of(g, x)[0] == P.pos_of(g, u)[0] and P.pos_of(g, x)[1] < P.pos_of(g, u)[1]) for x in asg + reg for u in unreg)
    res.ob('UNREGISTER', g.where(unreg[0]), 'SetThreadPool leaves the old pool (blocking until its Messages are handled) before it switches _threadPool and registers with the new pool', not late, function=g.q,
           key='UNREGISTER|%s|old-before-new' % g.q,
           message='SetThreadPool switches to the new pool before UnregisterClient() on the old one has returned: Messages submitted meanwhile are handled by a thread of the new pool in parallel with '
                   'the old pool\'s thread that is still working on earlier ones — two threads in one client\'s handler, and handling out of submission order')
    f = fx.fn1(TP + '::ThreadFinishedProcessingClientMessages')
    mv = [c for c in f.walk() if c['k'] == 'CXXMemberCallExpr' and (c.get('q') or '').endswith('::MoveToTable') and c.receiver() is not None and A.strip_casts(c.receiver()).get('n') == '_activeThreads']
    disp = P.calls(f, r'::DispatchPendingMessagesUnsafe$')
    okm = bool(mv) and bool(disp) and all(P.must_precede(f, mv, d, P.escape_edges(f)) for d in disp)
    res.ob('HANDOFF-ATOMIC', f.where(disp[0]) if disp else f.where(), 'the finishing thread is back in _availableThreads before pending Messages are re-dispatched', okm, function=f.q,
           key='HANDOFF-ATOMIC|%s|available-before-dispatch' % f.q,
           message='ThreadFinishedProcessingClientMessages re-dispatches before it has moved the finishing thread to _availableThreads: in a saturated pool the dispatch finds no free thread (and is '
                   'at the thread limit), gives up, and nothing triggers it again — with one pool thread the pending Messages are never handled and UnregisterClient() hangs')
    # ---------------------------------------------------------------------------------- SHUTDOWN-EMPTIES: nothing a waiter tests is left behind
    fsd = fx.fn1(TP + '::Shutdown')
    emptied = set()
    for c in [c for g_ in sd_scope for c in g_.walk()]:
        if c['k'] == 'CXXMemberCallExpr' and (c.get('q') or '').split('::')[-1] in ('Clear', 'SwapContents') and c.receiver() is not None:
            r_ = A.strip_casts(c.receiver())
            if r_['k'] == 'MemberExpr' and A.is_this_member(r_):
                emptied.add(r_.get('n'))
    need = sorted(tabs | set(['_waitingForCompletion']))
    left = [t for t in need if t not in emptied]
    res.ob('UNREGISTER', fsd.where(), 'Shutdown empties every per-client table %s' % need, not left, function=fsd.q, key='UNREGISTER|%s|empties-all' % fsd.q,
           message='Shutdown() does not empty %s: a thread blocked in UnregisterClient() is woken by Shutdown(), looks again, still finds work "outstanding" for its client and waits for a wake-up that '
                   'nobody will send; Shutdown() itself keeps reporting a non-zero count, so GlobalFlushAllCachedObjects() loops forever' % left)
    # ---------------------------------------------------------------------------------- PUBLISH-BEFORE-SIGNAL: what the pool thread reads is written before it is told to look
    fsm_ = [g for g in fx.funcs.values() if g.full and g.q.endswith('ThreadPoolThread::SendMessagesToInternalThread')]
    if not fsm_:
        raise AnalysisBroken('HANDOFF-ATOMIC: ThreadPoolThread::SendMessagesToInternalThread has no analysed body')
    fs_ = fsm_[0]
    sig = [c for c in fs_.walk() if c.is_call() and (c.get('q') or '').endswith('Thread::SendMessageToInternalThread')]
    pubs = [w for w in fs_.walk() if (w['k'] == 'BinaryOperator' and w.get('op') == '=' and A.strip_casts(w['ch'][0])['k'] == 'MemberExpr' and A.is_this_member(A.strip_casts(w['ch'][0])))
            or (w['k'] == 'CXXMemberCallExpr' and (w.get('q') or '').split('::')[-1] in ('SwapContents', 'AddTail', 'AddTailMulti') and w.receiver() is not None
                and A.strip_casts(w.receiver())['k'] == 'MemberExpr' and A.is_this_member(A.strip_casts(w.receiver())))]
    if not sig or not pubs:
        raise AnalysisBroken('HANDOFF-ATOMIC: the signal / the hand-over stores of SendMessagesToInternalThread were not found')
    # after the signal was sent successfully nothing more is stored (stores on its failure edge are the roll-back)
    fail = P.escape_edges(fs_, status=True, null=False)
    # keep only those reachable without taking a failure edge of the signal's status test
    def reach_ok(s_, w):
        seen, st = set(), [P.pos_of(fs_, s_)[0]]
        tgt = P.pos_of(fs_, w)[0]
        first = True
        while st:
            b = st.pop()
            if b in seen:
                continue
            seen.add(b)
            if b == tgt and not first:
                return True
            first = False
            for idx, nx in enumerate(fs_.blocks[b].succ):
                if nx is None or nx < 0 or (b, idx) in fail:
                    continue
                st.append(nx)
        return P.pos_of(fs_, s_)[0] == tgt and P.pos_of(fs_, s_)[1] < P.pos_of(fs_, w)[1]
    late = [w for w in pubs if any(reach_ok(s_, w) for s_ in sig)]
    res.ob('HANDOFF-ATOMIC', fs_.where(sig[0]), 'SendMessagesToInternalThread stores the client and the batch before it signals the pool thread', not late, function=fs_.q,
           key='HANDOFF-ATOMIC|%s|publish-before-signal' % fs_.q, how='%d store(s), signal at line %s' % (len(pubs), sig[0].get('l')),
           message='SendMessagesToInternalThread signals the pool thread (line %s) and only afterwards stores `%s`: _currentClient and _internalQueue reach the pool thread through nothing but that '
                   'signal, so a thread that wakes before the stores sees no client and an empty batch — it aborts on its assertion, or reports "finished" and the real batch is stranded in a thread '
                   'that is never signalled again' % (sig[0].get('l'), late[0].text(40) if late else ''))
    # ---------------------------------------------------------------------------------- UNREGISTER-ATOMIC (check-then-act)
    res.rule('UNREGISTER-ATOMIC', 'UnregisterClient takes the client out of _registeredClients in the SAME critical section (the same _poolLock guard object, not merely "under the lock") in which it '
                                  'evaluated DoesClientHaveMessagesOutstandingUnsafe(client) and found it false: while the client is registered and the lock is free, SendMessageToThreadPool() accepts '
                                  'Messages for it', floor=1)
    f = fx.fn1(TP + '::UnregisterClient')
    lf = L.LockFlow(f)

    def guard_ids_at(node):
        p_ = P.pos_of(f, node)
        base = lf.IN.get(p_[0]) if p_ else None
        return set(lf._transfer(p_[0], base, upto=p_[1])) if base is not None else set()
    from msa import ip as IP3
    is_rem = lambda c: c['k'] == 'CXXMemberCallExpr' and (c.get('q') or '').split('::')[-1] in ('Remove', 'RemoveWithDefault') and c.receiver() is not None \
        and A.strip_casts(c.receiver()).get('n') == '_registeredClients'
    # the removal itself, or the call of a private helper that performs it (msa/ip.py)
    rems = [top for (top, leaves) in IP3.may_sites(fx, f, is_rem, '^' + TP + '::(?!Shutdown)')]
    if not rems:
        raise AnalysisBroken('UNREGISTER-ATOMIC: the removal from _registeredClients was not found in UnregisterClient')
    for rm in rems:
        ids = guard_ids_at(rm)
        # every path to the removal decided "nothing outstanding" under the guard that is still held — or could not register for the wake-up (Put() failed: there is nothing it could wait for)
        paths, complete = C.paths_between(f, (f.entry, -1), P.pos_of(f, rm))
        okr = complete and bool(paths)
        def ev_bool(e, asg):
            """truth value of e under the branch decisions of the path (None if they do not determine it)"""
            e0 = e
            while True:
                if e0['i'] in asg:
                    return asg[e0['i']]
                e1 = A.strip_casts(e0)
                if e1 is e0:
                    break
                e0 = e1
            if e0['k'] == 'UnaryOperator' and e0.get('op') == '!':
                v = ev_bool(e0['ch'][0], asg)
                return None if v is None else (not v)
            if e0['k'] == 'BinaryOperator' and e0.get('op') in ('&&', '||'):
                a_, b_ = ev_bool(e0['ch'][0], asg), ev_bool(e0['ch'][1], asg)
                if e0['op'] == '&&':
                    return False if (a_ is False or b_ is False) else (True if (a_ and b_) else None)
                return True if (a_ or b_) else (False if (a_ is False and b_ is False) else None)
            return None
        for asg in paths:
            # a path that tests a named bool local against what its own initialiser evaluated to under the same decisions is not feasible
            infeasible = False
            for (cid, truth) in asg.items():
                core, pol = A.bool_polarity(f.nodes[cid], truth)
                if core['k'] == 'DeclRefExpr' and core.get('d') is not None:
                    ini = G.local_init(f, core)
                    if ini is not core:
                        v_ = ev_bool(ini, asg)
                        if v_ is not None and v_ != pol:
                            infeasible = True
            if infeasible:
                continue
            def derive(e, val):
                """atoms that follow from `e == val` given the decisions of the path: a false conjunction whose one operand is known true makes the other false, …"""
                e = A.strip_casts(e)
                if e['k'] == 'UnaryOperator' and e.get('op') == '!':
                    return derive(e['ch'][0], not val)
                if e['k'] == 'BinaryOperator' and e.get('op') in ('&&', '||'):
                    a_, b_ = e['ch'][0], e['ch'][1]
                    strong = (e['op'] == '&&') == val            # (a && b) true / (a || b) false: both operands are determined
                    if strong:
                        return derive(a_, val) + derive(b_, val)
                    other = (e['op'] == '&&')                    # value of the known operand that forces the other one
                    if ev_bool(a_, asg) is other:
                        return derive(b_, val)
                    if ev_bool(b_, asg) is other:
                        return derive(a_, val)
                    return []
                return [(e, val)]
            extra_atoms = []
            for (cid, truth) in asg.items():
                core, pol = A.bool_polarity(f.nodes[cid], truth)
                if core['k'] == 'DeclRefExpr' and core.get('d') is not None:
                    ini = G.local_init(f, core)
                    if ini is not core:
                        extra_atoms += derive(ini, pol)
                # the decision of a join block is the value of a whole && / || chain (msa/facts.py): what it says about the operands depends on the operand decisions of the same path
                if A.strip_casts(f.nodes[cid])['k'] == 'BinaryOperator' and A.strip_casts(f.nodes[cid]).get('op') in ('&&', '||'):
                    extra_atoms += derive(f.nodes[cid], truth)
            okp = False
            for (cid, truth) in list(asg.items()) + [(None, None)]:
                for (cn, t) in (A.implied_atoms(f.nodes[cid], truth) if cid is not None else extra_atoms):
                    core, pol = A.bool_polarity(cn, t)
                    if pol is False and core.is_call() and (core.get('q') or '').endswith('::DoesClientHaveMessagesOutstandingUnsafe') and (guard_ids_at(core) & ids):
                        okp = True
                    st = P.is_status_test(core) if core.is_call() else None
                    if st and ((st == 'err') == pol) and any(x.is_call() and (x.get('q') or '').split('::')[-1] in ('Put', 'PutWithDefault') and x.receiver() is not None
                                                            and A.strip_casts(x.receiver()).get('n') == '_waitingForCompletion' for x in core.walk()) and (guard_ids_at(core) & ids):
                        okp = True
            okr = okr and okp
        res.ob('UNREGISTER-ATOMIC', f.where(rm), 'UnregisterClient: "nothing outstanding" is decided and the client is removed under one and the same guard', okr, function=f.q,
               key='UNREGISTER-ATOMIC|%s' % f.q, how='guard object(s) held at the removal: %d' % len(ids),
               message='UnregisterClient decides under _poolLock whether the client has Messages outstanding, RELEASES the lock (and maybe waits), and removes the client from _registeredClients in a later '
                       'critical section without looking again: a SendMessageToThreadPool() that gets the lock in between is accepted (the client is still registered) and is dispatched to a pool thread — '
                       'its handler runs after UnregisterClient() has returned (use after free when the caller deletes the client) — or lands in the deferred queue and is thrown away by the final cleanup')
    res.explanation = ('Static decision of the thread pool\'s locking structure: %d accesses to the pool tables, each with _poolLock in the must-hold lock set (forward data flow over the CFG, RAII guard '
                       'construction/destruction/UnlockEarly as gen/kill, helper preconditions inferred from all call sites); no blocking call under the lock; hand-off, being-handled flag and pending-table '
                       'removal in one critical section; submit chooses the queue by the flag; completion clears, promotes, dispatches under one guard; unregister registers atomically with its test and waits '
                       'outside. Interleavings themselves are not explored.' % n_acc)
    res.assumptions = ['MutexGuard locks in its constructor and unlocks in its destructor', 'IThreadPoolClient callbacks do not re-enter the pool with the lock held']
    res.not_decided = ['exactly-once/in-order delivery over interleavings', 'shutdown liveness']
