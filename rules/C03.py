"""C03  A gateway delivers exactly the sent Message sequence for every byte segmentation — decided clauses:
IORESULT (after every partial-transfer call whose buffer argument is base+cursor, the cursor and the remaining budget are advanced by the *returned* count,
never by the requested count), COMPLETE (a received Message is handed up only when the cursor has reached the end of its buffer),
FRAME (writer and readers of the 8-byte stream frame use the same offsets for length and encoding).  Everything that depends on where the cuts fall is not decided."""
import re
from msa import pair as P
from msa import ast as A
from msa import cfg as C
from msa.taint import P_canon
from msa.facts import AnalysisBroken, library_units, C_UNITS
from . import common

IO_RE = re.compile(r'(DataIO::(Read|Write|ReadFrom|WriteTo))$')


def loc_key(n):
    """canonical key of an lvalue like _sendBuffer._offset / gw->_curInputPos / local"""
    n = A.strip_casts(n)
    if n['k'] == 'MemberExpr':
        b = A.strip_casts(n['ch'][0]) if n['ch'] else None
        base = 'this' if (b is None or b['k'] == 'CXXThisExpr') else loc_key(b)
        return base + '.' + n.get('n')
    if n['k'] == 'DeclRefExpr':
        return 'v%s' % n['d'] if 'd' in n else n.get('q')
    if n['k'] == 'UnaryOperator' and n.get('op') in ('*', '&'):
        return loc_key(n['ch'][0])
    return P_canon(n)


def lvalues_in(n):
    out = set()
    for x in n.walk():
        if x['k'] == 'MemberExpr' and x.get('dk') == 'Field':
            p = x.parent
            if p is not None and p['k'] == 'MemberExpr' and p.get('dk') == 'Field' and p['ch'] and A.strip_casts(p['ch'][0]) is x:
                continue        # inner part of a.b.c
            out.add(loc_key(x))
        elif x['k'] == 'DeclRefExpr' and 'd' in x and 'v' not in x:
            p = x.parent
            if p is not None and p['k'] == 'MemberExpr' and p.get('dk') == 'Field':
                continue
            out.add(loc_key(x))
    return out


def cursor_parts(buf):
    """the offset part of a buffer argument  base + off  /  &base[off]  ->  set of lvalue keys in `off`, else empty"""
    b = A.strip_casts(buf)
    if b['k'] == 'UnaryOperator' and b.get('op') == '&':
        b = A.strip_casts(b['ch'][0])
    if b['k'] == 'BinaryOperator' and b.get('op') == '+':
        return lvalues_in(b['ch'][1]) - set(lvalues_in(b['ch'][0]))
    if b['k'] == 'ArraySubscriptExpr':
        return lvalues_in(b['ch'][1])
    if b['k'] == 'MemberExpr' and b.type().endswith('*') and not A.is_this_member(b) and b.get('n', '').startswith('_first'):
        return set([loc_key(b)])     # pointer cursor (gw->_firstValidOutputByte)
    return set()


def run(res, tier):
    units = [u for u in library_units() if u.startswith('iogateway/')] + ['lang/c/minimessage/MiniMessageGateway.c', 'lang/c/micromessage/MicroMessageGateway.c']
    fx = common.load_units(res, units, fn_regex=r'.*(IOGateway|^MGDo|^UGDo|^MG|^UG).*')
    res.functions_analysed = sum(1 for f in fx.funcs.values() if f.full)
    res.rule('IORESULT', 'for every DataIO read/write (and C send/recv callback) whose buffer argument is base+cursor: the call result is kept, and every later update of the cursor or of a budget that appears '
                         'in the size argument is computed from the returned count', floor=10)
    n_sites = 0
    for f in sorted((f for f in fx.funcs.values() if f.full), key=lambda f: (f.file, f.line)):
        if not (f.file.startswith('iogateway/') or f.file.startswith('lang/c/')):
            continue
        for c in f.walk():
            if not c.is_call():
                continue
            q = c.get('q') or ''
            is_io = bool(IO_RE.search(q)) or (f.file.startswith('lang/c/') and c['k'] == 'CallExpr' and not c.get('fn') and len(c.args()) == 3)
            if not is_io or len(c.args()) < 2:
                continue
            cur = cursor_parts(c.args()[0])
            if not cur:
                continue
            n_sites += 1
            where = f.where(c)
            short = f.q.split('::')[-1]
            # result holder
            holder = None
            for v in f.walk():
                if v['k'] == 'VarDecl' and v['ch'] and c in list(v['ch'][0].walk()):
                    holder = v
                if v['k'] == 'BinaryOperator' and v.get('op') == '=' and c in list(v['ch'][1].walk()):
                    l = A.strip_casts(v['ch'][0])
                    if l['k'] == 'DeclRefExpr' and 'd' in l:
                        holder = {'d': l['d'], 'n': l.get('n'), 'i': v['i']}
            key = 'IORESULT|%s|%s:%s' % (f.q, (q.split('::')[-1] or 'callback'), sorted(cur)[0])
            if holder is None:
                res.ob('IORESULT', where, '%s: result of the partial transfer at line %s is kept' % (short, c.get('l')), False, function=f.q, key=key,
                       message='%s discards the byte count returned by the transfer into base+cursor: the cursor cannot follow a short transfer' % f.q)
                continue
            derived = set([holder['d']])
            changed = True
            while changed:
                changed = False
                for v in f.walk():
                    if v['k'] == 'VarDecl' and v['ch'] and v['d'] not in derived and any(x['k'] == 'DeclRefExpr' and x.get('d') in derived for x in v['ch'][0].walk()):
                        derived.add(v['d'])
                        changed = True
            size_locals = set()
            a1 = A.strip_casts(c.args()[1])
            budget = lvalues_in(c.args()[1])
            if a1['k'] == 'DeclRefExpr' and 'd' in a1:
                size_locals.add(a1['d'])          # the requested-size variable itself: recomputing it for the next transfer is not an advance
                for v in f.walk():
                    rhs = None
                    if v['k'] == 'VarDecl' and v['d'] == a1['d'] and v['ch']:
                        rhs = v['ch'][0]
                    if v['k'] == 'BinaryOperator' and v.get('op') == '=' and A.strip_casts(v['ch'][0]).get('d') == a1['d']:
                        rhs = v['ch'][1]
                    if rhs is not None:
                        budget |= lvalues_in(rhs)
            # only the caller's byte budget (a parameter such as maxBytes) counts; limits kept in fields are set per protocol phase
            params = set('v%s' % p_['d'] for p_ in f.params)
            budget = (budget & params) - cur - set('v%s' % d for d in size_locals)
            cpos = P.pos_of(f, c)
            ups = []
            for n in f.walk():
                tgt = rhs = None
                if n['k'] in ('BinaryOperator', 'CompoundAssignOperator') and n.get('op') in ('+=', '-=', '='):
                    tgt, rhs = n['ch'][0], n['ch'][1]
                if tgt is None:
                    continue
                k = loc_key(tgt)
                if k not in cur and k not in budget:
                    continue
                npos = P.pos_of(f, n)
                # updates that belong to this transfer: dominated by it (another transfer in a sibling branch has its own result variable)
                if npos is None or not C.dominates(f, holder['i'], n['i']):
                    continue
                if n.get('op') == '=' and ('v' in rhs or not any(x['k'] == 'DeclRefExpr' and 'd' in x for x in rhs.walk()) and not lvalues_in(rhs)):
                    continue          # reset to a constant (buffer switched / finished)
                if n.get('op') == '=' and k in budget and k not in cur:
                    # recomputation of a budget from other state is fine when it does not use the requested size
                    pass
                uses_result = any(x['k'] == 'DeclRefExpr' and x.get('d') in derived for x in rhs.walk())
                uses_request = any(x['k'] == 'DeclRefExpr' and x.get('d') in size_locals for x in rhs.walk())
                ups.append((n, k, uses_result, uses_request))
            bad = [(n, k) for (n, k, ur, uq) in ups if (not ur) or uq]
            adv = [n for (n, k, ur, uq) in ups if k in cur and ur]
            ok = not bad and bool(adv)
            res.ob('IORESULT', where, '%s: cursor %s advances by the count returned at line %s' % (short, sorted(cur), c.get('l')), ok, function=f.q, key=key,
                   how='%d update(s) of cursor/budget after the call, all computed from `%s`' % (len(ups), holder.get('n')),
                   message='%s: after the partial transfer at line %s %s: on a short read/write the stream position and the buffer position diverge and every following Message is corrupted' %
                           (f.q, c.get('l'), ('`%s` at line %s is not computed from the returned byte count `%s`' % (bad[0][0].text(60), bad[0][0].get('l'), holder.get('n'))) if bad
                            else 'the cursor %s is never advanced by the returned count' % sorted(cur)))
    if n_sites < 8:
        raise AnalysisBroken('IORESULT: only %d cursor-style transfer sites found' % n_sites)
    # ------------------------------------------------------------------------------------------- COMPLETE
    res.rule('COMPLETE', 'the stream branch of MessageIOGateway::DoInputImplementation hands a Message up only under `_recvBuffer._offset == buffer size`; the C gateways only when the input position reached the end', floor=1)
    f = fx.fn1('muscle::MessageIOGateway::DoInputImplementation')
    ups = [c for c in P.calls(f, r'::UnflattenHeaderAndMessage$')]
    ok_any = False
    for u in ups:
        gs = [(f.nodes[c], t) for (c, t) in C.guards_of_block(f, P.pos_of(f, u)[0])]
        for (cn, t) in gs:
            n = A.strip_casts(cn)
            if n['k'] == 'BinaryOperator' and n.get('op') == '==' and t:
                ks = [loc_key(x) for x in n['ch'] if A.strip_casts(x)['k'] == 'MemberExpr']
                if any(k.endswith('_recvBuffer._offset') for k in ks) and any((x.get('q') or '').endswith('ByteBuffer::GetNumBytes') for y in n['ch'] for x in y.walk() if x.is_call()):
                    ok_any = True
    # every unflatten in the TCP branch (mtuSize == 0) must be so guarded; the UDP branch reads whole packets
    tcp = []
    for u in ups:
        gs = [(f.nodes[c], t) for (c, t) in C.guards_of_block(f, P.pos_of(f, u)[0])]
        udp = any(A.strip_casts(cn)['k'] == 'BinaryOperator' and A.strip_casts(cn).get('op') == '>' and t and any(x.get('n') == 'mtuSize' for x in cn.walk()) for (cn, t) in gs)
        if not udp:
            tcp.append(u)
    okc = bool(tcp)
    for u in tcp:
        gs = [(f.nodes[c], t) for (c, t) in C.guards_of_block(f, P.pos_of(f, u)[0])]
        g = False
        for (cn, t) in gs:
            n = A.strip_casts(cn)
            if n['k'] == 'BinaryOperator' and n.get('op') == '==' and t and any(loc_key(x).endswith('_recvBuffer._offset') for x in n['ch'] if A.strip_casts(x)['k'] == 'MemberExpr') \
                    and any((x.get('q') or '').endswith('ByteBuffer::GetNumBytes') for y in n['ch'] for x in y.walk() if x.is_call()):
                g = True
        okc = okc and g
    res.ob('COMPLETE', f.where(), 'stream branch: UnflattenHeaderAndMessage only when _recvBuffer._offset == bb->GetNumBytes()', okc, function=f.q, key='COMPLETE|%s|stream' % f.q,
           message='MessageIOGateway can parse and deliver a Message before all of its bytes have arrived (a partial read delivers a truncated Message or mis-frames the stream)')
    # ------------------------------------------------------------------------------------------- FRAME
    res.rule('FRAME', 'the 8-byte stream frame: body length at byte offset 0, encoding at byte offset 4, in FlattenHeaderAndMessage (writer), GetBodySize and UnflattenHeaderAndMessage (readers); GetHeaderSize() is 8', floor=3)
    def frame_offsets(fn, verb):
        out = {}
        for c in fn.walk():
            if c.is_call() and (c.get('q') or '').endswith('EndianConverter::' + verb):
                ptr = c.args()[1] if verb == 'Export' else c.args()[0]
                off = None
                for x in ptr.walk():
                    if x['k'] == 'ArraySubscriptExpr' and 'v' in x['ch'][1]:
                        off = x['ch'][1]['v']
                what = None
                if verb == 'Export':
                    v = A.strip_casts(c.args()[0])
                    what = 'encoding' if (v.get('n') == 'encoding') else ('length' if any((y.get('q') or '').endswith('::GetNumBytes') for y in v.walk() if y.is_call()) else v.text(30))
                out[off] = what
        return out
    w = fx.fn1('muscle::MessageIOGateway::FlattenHeaderAndMessage')
    wo = frame_offsets(w, 'Export')
    res.ob('FRAME', w.where(), 'writer: length at offset 0, encoding at offset 4', wo == {0: 'length', 4: 'encoding'}, how=str(wo), function=w.q, key='FRAME|%s|writer' % w.q,
           message='FlattenHeaderAndMessage lays out the frame header as %s' % wo)
    g = fx.fn1('muscle::MessageIOGateway::GetBodySize')
    offs = {}
    for c in g.walk():
        if c.is_call() and (c.get('q') or '').endswith('EndianConverter::Import'):
            off = None
            for x in c.args()[0].walk():
                if x['k'] == 'ArraySubscriptExpr' and 'v' in x['ch'][1]:
                    off = x['ch'][1]['v']
            # which one feeds the out parameter (length) and which one the range test (encoding)
            role = 'length' if any(n['k'] == 'BinaryOperator' and n.get('op') == '=' and c in list(n['ch'][1].walk()) for n in g.walk()) else 'encoding'
            offs[off] = role
    res.ob('FRAME', g.where(), 'GetBodySize: length from offset 0, encoding from offset 4', offs == {0: 'length', 4: 'encoding'}, how=str(offs), function=g.q, key='FRAME|%s|reader' % g.q,
           message='GetBodySize reads the frame header as %s while the writer uses {0: length, 4: encoding}' % offs)
    hs = [x for x in fx.funcs.values() if x.full and x.q == 'muscle::MessageIOGateway::GetHeaderSize']
    if hs:
        rets = [n for n in hs[0].walk() if n['k'] == 'ReturnStmt']
        v = rets[0]['ch'][0].get('v') if rets and rets[0]['ch'] else None
        res.ob('FRAME', hs[0].where(), 'MessageIOGateway::GetHeaderSize() == 8', v == 8, how=str(v), function=hs[0].q, key='FRAME|GetHeaderSize', message='GetHeaderSize() is %s, the frame is two 32-bit words' % v)
    res.explanation = ('Static decision of the short-transfer discipline of the stream gateways: %d transfer sites whose buffer argument is base+cursor were found in iogateway/*.cpp and the two C gateways; at each '
                       'the result is kept and every later update of the cursor / remaining budget is data-dependent on the returned count and not on the requested size; the stream branch delivers only a complete '
                       'buffer; the 8-byte frame has the same layout on the write and read side. Behaviour for concrete segmentations (CR at a read boundary, 2048-byte scratch boundary), zlib dictionary carry-over, '
                       'WebSocket masking and the template cache are not decided.' % n_sites)
    res.assumptions = ['DataIO::Read/Write return the number of bytes actually transferred']
    res.not_decided = ['exact sequence delivery for every segmentation and interleaving of input/output calls', 'zlib and template-cache state staying in step', 'text line splitting and SLIP/WebSocket framing']
