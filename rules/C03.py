"""C03  A gateway delivers exactly the sent Message sequence for every byte segmentation — decided clauses:
IORESULT (after every partial-transfer call whose buffer argument is base+cursor, the cursor and the remaining budget are advanced by the *returned* count,
never by the requested count), COMPLETE (a received Message is handed up only when the cursor has reached the end of its buffer),
FRAME (writer and readers of the 8-byte stream frame use the same offsets for length and encoding).  Everything that depends on where the cuts fall is not decided."""
import re
from msa import guards as G
from msa import pair as P
from msa import ast as A
from msa import cfg as C
from msa.taint import P_canon
from msa.facts import AnalysisBroken, library_units, C_UNITS
from . import common

IO_RE = re.compile(r'(DataIO::(Read|Write|ReadFrom|WriteTo))$')


def loc_key(n):
    """canonical key of an lvalue like _sendBuffer._offset / gw->_curInputPos / local"""
    n = A.strip_casts(n)
    if n['k'] == 'MemberExpr':
        b = A.strip_casts(n['ch'][0]) if n['ch'] else None
        base = 'this' if (b is None or b['k'] == 'CXXThisExpr') else loc_key(b)
        return base + '.' + n.get('n')
    if n['k'] == 'DeclRefExpr':
        return 'v%s' % n['d'] if 'd' in n else n.get('q')
    if n['k'] == 'UnaryOperator' and n.get('op') in ('*', '&'):
        return loc_key(n['ch'][0])
    return P_canon(n)


def lvalues_in(n):
    out = set()
    for x in n.walk():
        if x['k'] == 'MemberExpr' and x.get('dk') == 'Field':
            p = x.parent
            if p is not None and p['k'] == 'MemberExpr' and p.get('dk') == 'Field' and p['ch'] and A.strip_casts(p['ch'][0]) is x:
                continue        # inner part of a.b.c
            out.add(loc_key(x))
        elif x['k'] == 'DeclRefExpr' and 'd' in x and 'v' not in x:
            p = x.parent
            if p is not None and p['k'] == 'MemberExpr' and p.get('dk') == 'Field':
                continue
            out.add(loc_key(x))
    return out


def cursor_parts(buf):
    """the offset part of a buffer argument  base + off  /  &base[off]  ->  set of lvalue keys in `off`, else empty"""
    b = A.strip_casts(buf)
    if b['k'] == 'UnaryOperator' and b.get('op') == '&':
        b = A.strip_casts(b['ch'][0])
    if b['k'] == 'BinaryOperator' and b.get('op') == '+':
        return lvalues_in(b['ch'][1]) - set(lvalues_in(b['ch'][0]))
    if b['k'] == 'ArraySubscriptExpr':
        return lvalues_in(b['ch'][1])
    if b['k'] == 'MemberExpr' and b.type().endswith('*') and not A.is_this_member(b) and b.get('n', '').startswith('_first'):
        return set([loc_key(b)])     # pointer cursor (gw->_firstValidOutputByte)
    return set()


def _content_vars(f):
    """locals whose value is read out of a buffer: `c = buf[i]`, `c = *p`, and locals computed from those"""
    content = set()
    def reads_content(e):
        for x in e.walk():
            if x['k'] == 'ArraySubscriptExpr' or (x['k'] == 'UnaryOperator' and x.get('op') == '*'):
                par = x.parent
                if par is not None and par['k'] == 'UnaryOperator' and par.get('op') == '&':
                    continue       # &buf[k] is an address handed to a reader, not a value read out of the buffer
                return True
            if x['k'] == 'DeclRefExpr' and x.get('d') in content:
                return True
        return False
    changed = True
    while changed:
        changed = False
        for n in f.walk():
            if n['k'] == 'VarDecl' and n['ch'] and n['d'] not in content and not n.type().rstrip().endswith(('*', '&')) and reads_content(n['ch'][0]):
                content.add(n['d'])
                changed = True
    return content, reads_content


def stream_carry_instances(f):
    """[(VarDecl of the local, loop header block, defining assignment, packet_mode?)]: a scalar local that is initialised with a constant outside a loop, assigned inside the loop from the
    *content* of the received bytes, and read in the loop before it is assigned in that iteration: parser state carried from byte to byte.  In a stream gateway such state must survive
    the end of one read (be a member); in packet mode every packet is self-contained and a local is right."""
    out = []
    content, reads_content = _content_vars(f)
    decls = {n['d']: n for n in f.walk() if n['k'] == 'VarDecl' and n['ch'] and 'v' in A.strip_casts(n['ch'][0]) and re.match(r'^(const )?(bool|_Bool|char|int|unsigned int|unsigned char|short|long|unsigned long|unsigned short|muscle::\w+)$', n.type().strip())}
    if not decls:
        return out
    for (h, body) in C.natural_loops(f):
        for d, vd in decls.items():
            vp = f.pos(vd['i'])
            if vp is None or vp[0] in body:
                continue           # declared inside the loop body: re-initialised every iteration, not carried
            defs, uses = [], []
            for b in body:
                for idx, e in enumerate(f.blocks[b].elems):
                    if not isinstance(e, int):
                        continue
                    x = f.nodes.get(e)
                    if x is None:
                        continue
                    if x['k'] in ('BinaryOperator', 'CompoundAssignOperator') and x.get('op') in A.ASSIGN_OPS and A.strip_casts(x['ch'][0]).get('d') == d:
                        if reads_content(x['ch'][1]):
                            defs.append((x, (b, idx)))
                    elif x['k'] == 'DeclRefExpr' and x.get('d') == d:
                        par = x.parent
                        if par is not None and par['k'] in ('BinaryOperator',) and par.get('op') == '=' and par['ch'][0] is x:
                            continue
                        uses.append((x, (b, idx)))
            if not defs or not uses:
                continue
            alldefpts = set(p for (_, p) in defs)
            carried = [u for (u, up) in uses if C.can_reach(f, (h, -1), set([up]), avoid_points=alldefpts) or up[0] == h]
            if not carried:
                continue
            packet = False
            for (c, truth) in C.guards_of_block(f, h):
                cn = f.nodes.get(c)
                if cn is None:
                    continue
                n, pol = P.strip_not(cn)
                mention = False
                for x in n.walk():
                    if x.is_call() and (x.get('q') or '').endswith('::GetMaximumPacketSize'):
                        mention = True
                    if x['k'] == 'DeclRefExpr' and 'd' in x:
                        for v in f.walk():
                            if v['k'] == 'VarDecl' and v['d'] == x['d'] and v['ch'] and any(y.is_call() and (y.get('q') or '').endswith('::GetMaximumPacketSize') for y in v['ch'][0].walk()):
                                mention = True
                z = A.zero_test(cn, truth)
                if mention and ((z is not None and not z[1]) or (z is None and n['k'] != 'BinaryOperator' and truth == pol)):
                    packet = True
            out.append((vd, h, defs[0][0], packet))
    return out


def queue_ends_rule(res, fx):
    """the C mini gateway keeps its outgoing buffers in a singly linked list with a head (_curOutput) and a tail (_outputTail): when the head advances past the last buffer the tail must be
    cleared, or the next MGAddOutgoingMessage() appends behind a freed buffer and never sets the head — every later Message is lost"""
    res.rule('QUEUE-ENDS', 'in MiniMessageGateway.c a function that advances _curOutput to the next-pointer of the buffer it frees also sets _outputTail to NULL on the edge where that '
                           'next-pointer is NULL (unless it frees the whole gateway)', floor=1)
    n = 0
    for f in sorted((g for g in fx.funcs.values() if g.full and g.file.endswith('minimessage/MiniMessageGateway.c')), key=lambda g: g.line):
        adv = []
        for w in f.walk():
            if w['k'] == 'BinaryOperator' and w.get('op') == '=' and A.strip_casts(w['ch'][0])['k'] == 'MemberExpr' and A.strip_casts(w['ch'][0]).get('n') == '_curOutput':
                if any(x.is_call() and (x.get('q') or '') == 'GetNextPointer' for x in A.walk_through_locals(f, w['ch'][1])):
                    adv.append(w)
        if not adv:
            continue
        frees_gw = any(c.is_call() and (c.get('q') or '') in ('MMFree', 'MFree', 'free') and c.args() and A.strip_casts(c.args()[0]).get('d') in set(p_['d'] for p_ in f.params) for c in f.walk())
        if frees_gw:
            continue
        n += 1
        ok = False
        for w in f.walk():
            if w['k'] == 'BinaryOperator' and w.get('op') == '=' and A.strip_casts(w['ch'][0])['k'] == 'MemberExpr' and A.strip_casts(w['ch'][0]).get('n') == '_outputTail':
                r0 = A.strip_casts(w['ch'][1])
                if not (r0['k'] in ('GNUNullExpr', 'CXXNullPtrLiteralExpr') or r0.get('v') == 0):
                    continue
                for (cn, t) in G.atoms_at(f, w):
                    z = A.zero_test(cn, t)
                    nul = None
                    if z is not None and z[1]:
                        nul = z[0]
                    else:
                        n0, pol = P.strip_not(cn, t)
                        if not pol:
                            nul = n0
                    if nul is not None and any(x.is_call() and (x.get('q') or '') == 'GetNextPointer' for x in A.walk_through_locals(f, nul)):
                        ok = True
        res.ob('QUEUE-ENDS', f.where(adv[0]), '%s: _outputTail is cleared when the last buffer of the output list has been sent' % f.q, ok, function=f.q, key='QUEUE-ENDS|%s' % f.q,
               message='%s advances _curOutput to the freed buffer\'s next-pointer without clearing _outputTail when that pointer is NULL: after the queue has drained, _outputTail points at freed '
                       'memory, the next MGAddOutgoingMessage() links the new buffer behind it and leaves _curOutput NULL, and that Message and all later ones are never sent' % f.q)
    if n < 1:
        raise AnalysisBroken('QUEUE-ENDS: no function advancing _curOutput found in MiniMessageGateway.c')


def codec_direction_rule(res, fx):
    """each direction of a MessageIOGateway has its own zlib stream: the input path touches only _recvCodec, the output path only _sendCodec"""
    res.rule('CODEC-DIRECTION', 'MessageIOGateway: functions of the input path (UnflattenHeaderAndMessage, DoInputImplementation, GetReceiveCodec) never name _sendCodec, functions of the output path '
                                '(FlattenHeaderAndMessage*, DoOutputImplementation, GetSendCodec) never name _recvCodec', floor=2)
    n = 0
    for f in sorted((g for g in fx.funcs.values() if g.full and g.q.startswith('muscle::MessageIOGateway::')), key=lambda g: (g.file, g.line)):
        short = f.q.split('::')[-1]
        side = 'in' if re.search(r'^(Unflatten|DoInput|GetReceiveCodec|ReceiveMoreData)', short) else ('out' if re.search(r'^(Flatten|DoOutput|GetSendCodec|SendMoreData)', short) else None)
        if side is None:
            continue
        uses = [x for x in f.walk() if x['k'] == 'MemberExpr' and x.get('n') in ('_sendCodec', '_recvCodec')]
        if not uses:
            continue
        n += 1
        wrong = [x for x in uses if x.get('n') == ('_sendCodec' if side == 'in' else '_recvCodec')]
        res.ob('CODEC-DIRECTION', f.where(wrong[0]) if wrong else f.where(), '%s uses only the codec of its own direction' % short, not wrong, function=f.q, key='CODEC-DIRECTION|%s' % f.q,
               message='%s (%s path) uses %s: both directions then share one zlib stream object, and GetCodec() re-creates it whenever the two peers use different levels — the dependent '
                       'deflate/inflate state of the other direction is thrown away, the peer\'s Inflate() fails and the rest of the stream is lost' % (f.q, 'input' if side == 'in' else 'output', wrong[0].get('n') if wrong else ''))
    if n < 2:
        raise AnalysisBroken('CODEC-DIRECTION: only %d functions using the codec members found' % n)


def stream_carry_rule(res, fx):
    res.rule('STREAM-CARRY', 'in the stream-mode input path of a gateway, parser state that is derived from the content of the received bytes and carried from one byte to the next lives in a member, '
                             'not in a local that is re-initialised on every read (otherwise the result depends on where the reads cut the stream); packet mode is exempt', floor=6)
    # the rule is tested on every run against an example under /verif (one function that must be flagged, one that must not), independent of /repo
    from msa import facts as F
    import os
    exdir = os.path.join(F.VERIF, 'examples')
    ex = F.load(['C03_stream_carry.cpp'], repo=exdir, fn_regex='.*')
    pos = [f for f in ex.funcs.values() if f.full and f.q.endswith('Lossy::DoInputImplementation')]
    neg = [f for f in ex.funcs.values() if f.full and f.q.endswith('Careful::DoInputImplementation')]
    if not pos or not neg or not [i for i in stream_carry_instances(pos[0]) if not i[3]] or [i for i in stream_carry_instances(neg[0]) if not i[3]]:
        raise AnalysisBroken('STREAM-CARRY: the self-check example under /verif/examples is not classified as expected (rule matcher broken)')
    n_exempt = 0
    for f in sorted((f for f in fx.funcs.values() if f.full and f.file.startswith('iogateway/') and f.q.endswith('::DoInputImplementation')), key=lambda f: (f.file, f.line)):
        inst = stream_carry_instances(f)
        bad = [i for i in inst if not i[3]]
        n_exempt += len(inst) - len(bad)
        res.ob('STREAM-CARRY', f.where(), '%s: no content-derived loop-carried local in stream mode' % f.q, not bad, function=f.q, key='STREAM-CARRY|%s|%s' % (f.q, bad[0][0].get('n') if bad else ''),
               how='%d packet-mode instance(s) exempt' % (len(inst) - len(bad)),
               message='%s: local `%s` (line %s) is set from the content of the received bytes at line %s and read again for the next byte, but it is re-initialised on every call: when a read ends '
                       'between the two bytes the state is lost, so the delivered sequence depends on the segmentation' % (f.q, bad[0][0].get('n'), bad[0][0].get('l'), bad[0][2].get('l')) if bad else None)
    res.extra['stream_carry_packet_mode_exempt'] = n_exempt


def resume_offset_rule(res, fx, rule='RESUME-OFFSET', file_re=r'^(iogateway|dataio)/', floor=3):
    """the dual of IORESULT: a transfer whose size is `total - cursor` (the part not yet transferred) starts at `base + cursor`"""
    res.rule(rule, 'every DataIO read/write whose size argument is computed from a cursor (size = N - cursor, the untransferred rest) passes a buffer argument that is offset by the same cursor', floor=None)
    n = 0
    for f in sorted((f for f in fx.funcs.values() if f.full and re.search(file_re, f.file)), key=lambda f: (f.file, f.line)):
        for c in f.walk():
            if not c.is_call() or not IO_RE.search(c.get('q') or '') or len(c.args()) < 2:
                continue
            size = c.args()[1]
            # cursor candidates: member lvalues under a subtraction in the size expression (directly or through one local)
            def minus_terms(e, depth=0):
                out = set()
                for x in e.walk():
                    if x['k'] == 'BinaryOperator' and x.get('op') == '-':
                        out |= set(k for k in lvalues_in(x['ch'][1]) if k.startswith('this.'))
                    if x['k'] == 'DeclRefExpr' and 'd' in x and depth < 1:
                        for v in f.walk():
                            if v['k'] == 'VarDecl' and v.get('d') == x['d'] and v['ch']:
                                out |= minus_terms(v['ch'][0], depth + 1)
                return out
            cur = minus_terms(size)
            if not cur:
                continue
            n += 1
            def mentions(e, depth=0):
                ks = set(lvalues_in(e))
                if depth < 1:
                    for x in e.walk():
                        if x['k'] == 'DeclRefExpr' and 'd' in x:
                            for v in f.walk():
                                if v['k'] == 'VarDecl' and v.get('d') == x['d'] and v['ch']:
                                    ks |= mentions(v['ch'][0], depth + 1)
                return ks
            ok = bool(cur & mentions(c.args()[0]))
            res.ob(rule, f.where(c), '%s: transfer of the rest (size uses %s) starts at base + the same cursor' % (f.q.split('::')[-1], sorted(cur)[0]), ok, function=f.q,
                   key='%s|%s|resume:%s' % (rule, f.q, sorted(cur)[0]),
                   message='%s transfers `%s` bytes — the part not yet transferred according to %s — but starts at `%s`, which does not depend on that cursor: after a short transfer the resumed write '
                           'repeats the beginning of the buffer instead of continuing, so the tail of the packet is replaced by a copy of its head' % (f.q, size.text(50), sorted(cur)[0], c.args()[0].text(40)))
    if n < floor:
        raise AnalysisBroken('%s: %d resume-style transfers found, expected at least %d' % (rule, n, floor))


def stale_cursor_rule(res, fx, rule='STALE-CURSOR'):
    """C gateways keep their cursors as pointers into a buffer that is compacted with memmove: a local pointer computed from the cursor fields is dead once a cursor field is reassigned"""
    res.rule(rule, 'in the C gateways a local pointer computed from the gateway\'s cursor fields (gw->_firstValid…, gw->_numValid…) is not used after one of those fields has been reassigned '
                   '(buffer compaction) without being recomputed', floor=2)
    n = 0
    for f in sorted((f for f in fx.funcs.values() if f.full and re.search(r'^lang/c/.*Gateway\.c$', f.file)), key=lambda f: (f.file, f.line)):
        for v in f.walk():
            if v['k'] != 'VarDecl' or not v['ch'] or not v.type().rstrip().endswith('*'):
                continue
            flds = set((P_canon(x['ch'][0]) if x['ch'] else '', x.get('n')) for x in v['ch'][0].walk() if x['k'] == 'MemberExpr' and x.get('dk') == 'Field' and x.get('n', '').startswith('_'))
            if not flds:
                continue
            n += 1
            vp = P.pos_of(f, v)
            bad = None
            for a in f.walk():
                if a['k'] in ('BinaryOperator', 'CompoundAssignOperator') and a.get('op') in A.ASSIGN_OPS:
                    l = A.strip_casts(a['ch'][0])
                    if l['k'] == 'MemberExpr' and ((P_canon(l['ch'][0]) if l['ch'] else '', l.get('n')) in flds):
                        ap = P.pos_of(f, a)
                        if not (vp and ap and ((vp[0] == ap[0] and vp[1] < ap[1]) or C.can_reach(f, vp, set([ap])))):
                            continue
                        for u in f.walk():
                            if u['k'] == 'DeclRefExpr' and u.get('d') == v['d']:
                                up = P.pos_of(f, u)
                                if up and ((ap[0] == up[0] and ap[1] < up[1]) or (ap[0] != up[0] and C.can_reach(f, ap, set([up]), avoid_points=set([vp])))) and not any(x is a for x in u.ancestors()):
                                    bad = (a, u)
            res.ob(rule, f.where(v), '%s: `%s` is not used after a cursor field it was computed from is reassigned' % (f.q, v.get('n')), bad is None, function=f.q, key='%s|%s|%s' % (rule, f.q, v.get('n')),
                   message='%s: `%s` (line %s) was computed from the gateway\'s cursor fields, `%s` (line %s) moves the cursor, and `%s` is used afterwards (line %s) without being recomputed: after '
                           'the buffer is compacted the pointer still refers to the old position, so the next Message is built in the wrong place (and can extend past the buffer)'
                           % (f.q, v.get('n'), v.get('l'), bad[0].text(50) if bad else '', bad[0].get('l') if bad else '', v.get('n'), bad[1].get('l') if bad else ''))
    if n < 2:
        raise AnalysisBroken('%s: %d cursor-derived local pointers found in the C gateways' % (rule, n))


def recv_capacity_rule(res, fx, rule='RECV-CAPACITY'):
    """The stream receiver keeps its scratch buffer only if header + body fit into it: ByteBuffer::TruncateToLength(n) never grows a buffer, so a guard that forgets a term of n
    lets the gateway go on with a buffer that is too small and the frame is cut short."""
    from msa import taint as T
    res.rule(rule, 'MessageIOGateway::DoInputImplementation: TruncateToLength(len) on the receive buffer is guarded by a comparison that accounts for every term of len (header size and body size) '
                   'against the capacity of that same buffer; otherwise a larger buffer is allocated', floor=1)
    f = fx.fn1('muscle::MessageIOGateway::DoInputImplementation')
    eng = T.Engine(fx, max_depth=1)
    ft = eng.ft(f)
    n = 0
    for c in f.walk():
        if c['k'] != 'CXXMemberCallExpr' or not (c.get('q') or '').endswith('ByteBuffer::TruncateToLength') or c.receiver() is None or not c.args():
            continue
        wire = set()
        for g in f.walk():
            if g.is_call() and (g.get('q') or '').endswith('::GetBodySize') and len(g.args()) >= 2:
                wire |= ft.vars_in(g.args()[1])
        if not (ft.vars_in(c.args()[0]) & wire) and not ft.et(c.args()[0]):
            continue           # a length that is not wire-declared (e.g. the byte count a packet read returned) fits by construction
        n += 1
        R = T.P_canon(c.receiver())
        need = ft.vars_in(c.args()[0])

        def closure(e, depth=0):
            vs = set(ft.vars_in(e))
            cap = any(x['k'] == 'CXXMemberCallExpr' and (x.get('q') or '').endswith('ByteBuffer::GetNumBytes') and x.receiver() is not None and T.P_canon(x.receiver()) == R for x in e.walk())
            if depth < 2:
                for x in e.walk():
                    if x['k'] == 'DeclRefExpr' and 'd' in x:
                        d = ft.single_def(x)
                        if d is not None:
                            v2, c2 = closure(d, depth + 1)
                            vs |= v2
                            cap = cap or c2
            return vs, cap
        ok, how = False, None
        p = P.pos_of(f, c)
        for (g, truth) in (C.guards_of_block(f, p[0]) if p else []):
            gn = f.nodes[g]
            if gn['k'] == 'BinaryOperator' and gn.get('op') in ('<', '<=', '>', '>='):
                vl, cl = closure(gn['ch'][0])
                vr, cr = closure(gn['ch'][1])
                if (cl or cr) and need <= (vl | vr):
                    ok, how = True, '%s is %s' % (gn.text(50), truth)
        res.ob(rule, f.where(c), 'TruncateToLength(%s) is guarded against the capacity of %s with all terms accounted for' % (c.args()[0].text(30), c.receiver().text(20)), ok, how=how, function=f.q,
               key='%s|%s|%s' % (rule, f.q, c.args()[0].text(30)),
               message='%s: the receive buffer is kept (TruncateToLength(%s)) under a test that does not involve every term of that length and the buffer\'s own GetNumBytes(): for body sizes within one '
                       'header size of the scratch buffer the frame no longer fits, the read stops short and the stream dies on a length mismatch' % (f.q, c.args()[0].text(30)))
    if n < 1:
        raise AnalysisBroken('RECV-CAPACITY: no TruncateToLength on the receive buffer found')


def codec_step_rule(res, fx, min_sites=2):
    """A zlib stream whose Messages depend on each other advances on both sides with every Message: what Deflate() consumed must be what is sent."""
    res.rule('CODEC-STEP', 'after a successful ZLibCodec::Deflate() in dependent mode (independent flag not literally true) the deflated buffer becomes the outgoing buffer and the frame is tagged with the zlib '
                           'encoding on every path; otherwise the sender codec has consumed a Message the receiver codec never sees', floor=2)
    n = 0
    for f in sorted((f for f in fx.funcs.values() if f.full and f.file.startswith('iogateway/')), key=lambda f: (f.file, f.line)):
        for c in P.calls(f, r'^muscle::ZLibCodec::Deflate$'):
            a = c.args()
            ind = [x for x in a if x['k'] == 'CXXBoolLiteralExpr' or (x.type() == 'bool' and 'v' in x)]
            if any(x.get('v') in (1, True) for x in ind):
                continue           # every packet is deflated independently: dropping a deflated result desynchronises nothing
            holder = None
            for v in f.walk():
                if v['k'] == 'VarDecl' and v['ch'] and c in list(v['ch'][0].walk()):
                    holder = v
            rets = [r for r in f.walk() if r['k'] == 'ReturnStmt' and r['ch']]
            outvars = set(A.strip_casts(x).get('d') for r in rets for x in r['ch'][0].walk() if x['k'] == 'DeclRefExpr' and 'd' in x)
            n += 1
            if holder is None or not outvars:
                res.ob('CODEC-STEP', f.where(c), '%s: deflated result is kept' % f.q, False, function=f.q, key='CODEC-STEP|%s|holder' % f.q, message='%s: the result of Deflate() is not held in a local / no returned buffer variable' % f.q)
                continue
            moves = []
            for x in f.walk():
                if x['k'] == 'CXXOperatorCallExpr' and (x.get('q') or '').endswith('::operator=') and len(x['ch']) >= 3 and A.strip_casts(x['ch'][1]).get('d') in outvars \
                        and any(y['k'] == 'DeclRefExpr' and y.get('d') == holder['d'] for y in x['ch'][2].walk()):
                    moves.append(x)
            encs = [x for x in f.walk() if x['k'] == 'BinaryOperator' and x.get('op') == '=' and any('ZLIB' in (y.get('n') or '') for y in x['ch'][1].walk())]
            # escape: the branch on which the deflated buffer is NULL (Deflate failed)
            esc = set()
            for blk in f.blocks.values():
                if blk.cond is None or blk.cond not in f.nodes or len(blk.succ) != 2:
                    continue
                cn, pol = P.strip_not(f.nodes[blk.cond])
                if any(y['k'] == 'DeclRefExpr' and y.get('d') == holder['d'] for y in cn.walk()) and P.is_pointerish(cn):
                    esc.add((blk.b, 1 if pol else 0))
            ok1, path = P.must_follow(f, holder, moves, escapes=esc) if moves else (False, None)
            ok2, _ = P.must_follow(f, holder, encs, escapes=esc) if encs else (False, None)
            # … and the converse: the frame is labelled zlib only where the deflated buffer is what goes out (a receiver inflates whatever carries the label)
            from msa import guards as G_
            bad_lab = None
            for e_ in encs:
                dom = P.must_precede(f, [holder], e_)
                nonnull = any(any(y['k'] == 'DeclRefExpr' and y.get('d') == holder['d'] for y in cn.walk()) and t and P.is_pointerish(A.strip_casts(cn)) for (cn, t) in G_.atoms_at(f, e_))
                if not (dom and nonnull):
                    bad_lab = bad_lab or e_
            res.ob('CODEC-STEP', f.where(bad_lab) if bad_lab is not None else f.where(c), '%s: the zlib encoding word is set only where Deflate() returned a buffer' % f.q, bad_lab is None and bool(encs), function=f.q,
                   key='CODEC-STEP|%s|label-implies-deflated' % f.q,
                   message='%s sets the zlib encoding word at line %s on a path where no deflated buffer is known to be sent: a frame whose body is the raw flattened Message goes out labelled as '
                           'deflated, the C++ receiver fails to inflate it and drops the connection, the C and Python codecs (which accept only the default encoding) reject it'
                           % (f.q, bad_lab.get('l') if bad_lab is not None else '?'))
            res.ob('CODEC-STEP', f.where(c), '%s: a non-NULL Deflate() result always becomes the outgoing buffer and sets the zlib encoding word' % f.q, ok1 and ok2, function=f.q,
                   how='buffer taken at line %s, encoding set at line %s' % (moves[0].get('l') if moves else '?', encs[0].get('l') if encs else '?'), key='CODEC-STEP|%s|deflate-used' % f.q,
                   message='%s: a path from a successful dependent-mode Deflate() reaches the return without sending the deflated buffer (or without tagging the frame as zlib): the sender\'s zlib stream '
                           'has advanced past a Message the receiver never inflates, so the next compressed Message fails to decode' % f.q)
    if n < min_sites:
        raise AnalysisBroken('CODEC-STEP: %d dependent-mode Deflate() sites found, expected the stream gateway and the templating gateway' % n)


def template_lru_rule(res, fx):
    res.rule('TEMPLATE-LRU', 'TemplatingMessageIOGateway: sender and receiver apply the same order-affecting operations to their template caches (hit: GetAndMoveToFront; new template: PutAtFront, tally += size, '
                             'TrimLRUCache on the own table and tally), so both evict the same templates', floor=3)
    w = fx.fn1('muscle::TemplatingMessageIOGateway::FlattenHeaderAndMessage')
    r = fx.fn1('muscle::TemplatingMessageIOGateway::UnflattenHeaderAndMessage')
    from msa import ip as IP
    TG = r'^muscle::TemplatingMessageIOGateway::'

    def ops(f, table):
        out = {}
        for c in [c for g_ in IP.scope(fx, f, TG) for c in g_.walk()]:      # the cache maintenance block may have been extracted into a private member
            if c['k'] == 'CXXMemberCallExpr' and c.receiver() is not None and A.strip_casts(c.receiver()).get('n') == table:
                m = (c.get('q') or '').split('::')[-1]
                const = bool(c.get('cm'))
                out[m] = const
        return out
    wo, ro = ops(w, '_outgoingTemplates'), ops(r, '_incomingTemplates')
    wm = set(m for m, const in wo.items() if not const)
    rm = set(m for m, const in ro.items() if not const) - set(['Remove'])     # receiver-only: defensive removal of a stale template with the same id before PutAtFront (no-op while in step)
    res.ob('TEMPLATE-LRU', r.where(), 'same set of cache-mutating Hashtable methods on both sides', wm == rm and 'GetAndMoveToFront' in wm, how='sender %s, receiver %s' % (sorted(wm), sorted(rm)), function=r.q,
           key='TEMPLATE-LRU|ops', message='the template caches are maintained differently: sender calls %s on _outgoingTemplates, receiver calls %s on _incomingTemplates (non-const methods); '
                                           'their LRU orders diverge and they evict different templates, after which a payload-only Message names a template the receiver has dropped' % (sorted(wm), sorted(rm)))
    for (f0, table, tally) in ((w, '_outgoingTemplates', '_outgoingTemplatesTotalSizeBytes'), (r, '_incomingTemplates', '_incomingTemplatesTotalSizeBytes')):
        f = next((g_ for g_ in IP.scope(fx, f0, TG) if any(c['k'] == 'CXXMemberCallExpr' and (c.get('q') or '').endswith('::PutAtFront') and c.receiver() is not None
                                                            and A.strip_casts(c.receiver()).get('n') == table for c in g_.walk())), f0)
        trims = [c for c in P.calls(f, r'::TrimLRUCache$')]
        ok = bool(trims) and all(len(c.args()) >= 2 and A.strip_casts(c.args()[0]).get('n') == table and A.strip_casts(c.args()[1]).get('n') == tally for c in trims)
        puts = [c for c in f.walk() if c['k'] == 'CXXMemberCallExpr' and (c.get('q') or '').endswith('::PutAtFront') and c.receiver() is not None and A.strip_casts(c.receiver()).get('n') == table]
        adds = [x for x in f.walk() if x['k'] == 'CompoundAssignOperator' and x.get('op') == '+=' and A.strip_casts(x['ch'][0]).get('n') == tally]
        ok = ok and bool(puts) and bool(adds) and all(P.must_follow(f, p_, trims, escapes=P.escape_edges(f))[0] for p_ in puts) and all(P.must_follow(f, p_, adds, escapes=P.escape_edges(f))[0] for p_ in puts)
        res.ob('TEMPLATE-LRU', f.where(), '%s: PutAtFront on %s is followed by %s += size and TrimLRUCache(%s, %s)' % (f.q.split('::')[-1], table, tally, table, tally), ok, function=f.q,
               key='TEMPLATE-LRU|%s|put-trim' % f0.q, message='%s: a new template is not followed by the size tally update and TrimLRUCache on its own table/tally: the two caches no longer hold the same set' % f.q)


STATUS_ONLY = ('IsError', 'IsOK', 'GetStatus', 'operator()', 'operator!')


def count_consulted_rule(res, fx, rule='COUNT-CONSULTED', floor=10):
    """a transfer may move fewer bytes than were asked for, none included: code that never looks at the count cannot tell"""
    res.rule(rule, 'in the gateway classes the byte count returned by every DataIO read/write is consulted (GetByteCount(), arithmetic or comparison on the result, or the result handed on to the caller) on '
                   'every path from the call to the end of the function that is not an error exit; looking at the error status alone does not count', floor=floor)
    n = 0
    for f in sorted((f for f in fx.funcs.values() if f.full and f.file.startswith('iogateway/')), key=lambda f: (f.file, f.line)):
        for c in f.walk():
            if not (c.is_call() and IO_RE.search(c.get('q') or '')):
                continue
            n += 1
            holder = None
            for v in f.walk():
                if v['k'] == 'VarDecl' and v['ch'] and any(x is c for x in v['ch'][0].walk()):
                    holder = v
                if v['k'] == 'BinaryOperator' and v.get('op') == '=' and any(x is c for x in v['ch'][1].walk()):
                    l = A.strip_casts(v['ch'][0])
                    if l['k'] == 'DeclRefExpr' and 'd' in l:
                        holder = {'d': l['d'], 'n': l.get('n'), 'i': v['i'], 'k': 'assign'}
                        holder_node = v
            key = '%s|%s|%s@%s' % (rule, f.q, (c.get('q') or '').split('::')[-1], A.strip_casts(c.args()[0]).text(30) if c.args() else '')
            short = f.q.split('::')[-2] + '::' + f.q.split('::')[-1] if f.q.count('::') >= 2 else f.q
            if holder is None:
                # the value is used where it stands: returned, or consulted directly
                par = [a for a in c.ancestors()]
                direct = any(a['k'] == 'ReturnStmt' for a in par) or any(a['k'] == 'CXXMemberCallExpr' and (a.get('q') or '').split('::')[-1] == 'GetByteCount' for a in par) or \
                    any(a['k'] in ('BinaryOperator', 'CompoundAssignOperator', 'CXXOperatorCallExpr') and (a.get('op') or (a.get('q') or '').split('::')[-1]) in ('+', '+=', 'operator+', 'operator+=', 'operator|=') for a in par)
                res.ob(rule, f.where(c), '%s: the count of the transfer at line %s is used where it is returned' % (short, c.get('l')), direct, function=f.q, key=key,
                       message='%s ignores the byte count of the transfer `%s`: a transfer of fewer bytes than requested (zero included) is treated like a complete one' % (f.q, c.text(60)))
                continue
            start = holder if holder.get('k') != 'assign' else holder_node
            derived = set([holder['d']])
            uses = []
            for x in f.walk():
                if x['k'] != 'DeclRefExpr' or x.get('d') not in derived:
                    continue
                # climb through casts / member access to the call the reference is the receiver of
                a = x
                status_only = False
                for up in x.ancestors():
                    if up['k'] in ('ImplicitCastExpr', 'ParenExpr', 'MemberExpr', 'CXXFunctionalCastExpr', 'CStyleCastExpr', 'CXXStaticCastExpr', 'MaterializeTemporaryExpr', 'CXXBindTemporaryExpr'):
                        a = up
                        continue
                    if up['k'] in ('CXXMemberCallExpr', 'CXXOperatorCallExpr') and (up.get('q') or '').split('::')[-1] in STATUS_ONLY:
                        rc = up.receiver() if up['k'] == 'CXXMemberCallExpr' else (up['ch'][1] if len(up['ch']) > 1 else None)
                        if rc is not None and any(y is x for y in rc.walk()):
                            status_only = True
                    break
                if not status_only:
                    uses.append(x)
            esc = P.escape_edges(f, status=True, null=False)
            ok, path = P.must_follow(f, start, uses, escapes=esc) if uses else (False, None)
            res.ob(rule, f.where(c), '%s: the byte count of `%s` (line %s) is consulted on every non-error path' % (short, holder.get('n'), c.get('l')), ok, function=f.q, key=key,
                   how='%d use(s) of the count at line(s) %s' % (len(uses), sorted(set(u.get('l') for u in uses))[:6]),
                   message='%s: after `%s = %s` there is a non-error path to the end of the function on which the byte count is never looked at (only the error status is): a read that delivers no '
                           'byte (the normal answer of a non-blocking DataIO that has nothing yet) is treated as if it had delivered the requested bytes — the destination is consumed although nothing was '
                           'stored in it, so the result depends on how the peer\'s bytes were segmented' % (f.q, holder.get('n'), c.text(50)))
    if n < floor:
        raise AnalysisBroken('%s: only %d DataIO transfer calls found in iogateway/' % (rule, n))


def byte_view_rule(res, fx, rule='BYTE-VIEW'):
    """an integer has one byte order in memory and (in general) another one on the wire: a value must not be used through both"""
    res.rule(rule, 'in the gateway classes an integer local that is read as raw bytes (reinterpret_cast / C cast of its address to a byte pointer, memcpy from its address) is not also written with a '
                   'byte-order converting writer (DataFlattener::WriteInt16/32/64 of a fixed-endian flattener, EndianConverter::Export): the two orders differ on one of the host byte orders', floor=1)
    n = n_written = 0
    WR = re.compile(r'(DataFlattener\w*::WriteInt(16|32|64)s?|EndianConverter::Export|::muscleCopyOut)$')
    for f in sorted((f for f in fx.funcs.values() if f.full and f.file.startswith('iogateway/')), key=lambda f: (f.file, f.line)):
        views = {}
        for x in f.walk():
            if x['k'] in ('CXXReinterpretCastExpr', 'CStyleCastExpr') and re.search(r'(unsigned char|uint8|char|uint8_t) ?(const)? ?\*$', x.type().replace('const ', '').strip() + ''):
                o = A.strip_casts(x['ch'][0]) if x['ch'] else None
                if o is not None and o['k'] == 'UnaryOperator' and o.get('op') == '&':
                    v = A.strip_casts(o['ch'][0])
                    if v['k'] == 'DeclRefExpr' and v.get('d') is not None and re.search(r'^(const )?(unsigned |signed )?(u?int(16|32|64)(_t)?|short|int|long|long long)( const)?$', v.type().strip()):
                        views.setdefault(v['d'], []).append(x)
        INT = r'^(const )?(unsigned |signed )?(u?int(16|32|64)(_t)?|short|int|long|long long)( const)?$'
        for x in f.walk():
            # memcpy(dst, &x, n) / memcpy(&x, src, n): the bytes of x as they lie in memory
            if x.is_call() and (x.get('q') or '').split('::')[-1] in ('memcpy', 'memmove', 'memcmp') and len(x.args()) >= 2:
                for a in x.args()[:2]:
                    o = A.strip_casts(a)
                    if o['k'] == 'UnaryOperator' and o.get('op') == '&':
                        v = A.strip_casts(o['ch'][0])
                        if v['k'] == 'DeclRefExpr' and v.get('d') is not None and re.search(INT, v.type().strip()) and not v.get('param'):
                            views.setdefault(v['d'], []).append(o)
        written = {}
        for c in f.walk():
            if c.is_call() and WR.search(c.get('q') or '') and 'Native' not in (c.get('q') or ''):
                for a in c.args():
                    a0 = A.strip_casts(a)
                    if a0['k'] == 'DeclRefExpr' and a0.get('d') is not None and re.search(INT, a0.type().strip()):
                        written.setdefault(a0['d'], []).append(c)
        n_written += len(written)
        for d, vs in sorted(views.items()):
            n += 1
            wr = written.get(d, [])
            name = [y.get('n') for y in vs[0].walk() if y['k'] == 'DeclRefExpr' and y.get('d') == d][0]
            res.ob(rule, f.where(vs[0]), '%s: `%s` is used through its bytes in memory only' % (f.q.split('::')[-1], name), not wr, function=f.q, key='%s|%s|%s' % (rule, f.q, name),
                   message='%s writes `%s` with %s (a fixed wire byte order) and also uses the bytes of `%s` as they lie in memory (line %s): on a host whose byte order differs from the wire order the two '
                           'sequences are each other\'s reverse — the peer, which sees the wire bytes, cannot undo what was done with the memory bytes'
                           % (f.q, name, (wr[0].get('q') or '').split('::')[-1] if wr else '', name, vs[0].get('l')))
    res.info(rule, 'iogateway/', '%d integer local(s) viewed as bytes, %d written with a byte-order converting writer' % (n, n_written))
    if n + n_written < 1:
        raise AnalysisBroken('%s: neither a byte view of an integer local nor an endian-converting write of one found in iogateway/' % rule)


def run(res, tier):
    units = [u for u in library_units() if u.startswith('iogateway/')] + ['lang/c/minimessage/MiniMessageGateway.c', 'lang/c/micromessage/MicroMessageGateway.c']
    fx = common.load_units(res, units, fn_regex=r'.*(IOGateway|^MGDo|^UGDo|^MG|^UG).*')
    res.functions_analysed = sum(1 for f in fx.funcs.values() if f.full)
    res.rule('IORESULT', 'for every DataIO read/write (and C send/recv callback) whose buffer argument is base+cursor: the call result is kept, and every later update of the cursor or of a budget that appears '
                         'in the size argument is computed from the returned count', floor=10)
    n_sites = 0
    for f in sorted((f for f in fx.funcs.values() if f.full), key=lambda f: (f.file, f.line)):
        if not (f.file.startswith('iogateway/') or f.file.startswith('lang/c/')):
            continue
        for c in f.walk():
            if not c.is_call():
                continue
            q = c.get('q') or ''
            is_io = bool(IO_RE.search(q)) or (f.file.startswith('lang/c/') and c['k'] == 'CallExpr' and not c.get('fn') and len(c.args()) == 3)
            if not is_io or len(c.args()) < 2:
                continue
            cur = cursor_parts(c.args()[0])
            if not cur:
                continue
            n_sites += 1
            where = f.where(c)
            short = f.q.split('::')[-1]
            # result holder
            holder = None
            for v in f.walk():
                if v['k'] == 'VarDecl' and v['ch'] and c in list(v['ch'][0].walk()):
                    holder = v
                if v['k'] == 'BinaryOperator' and v.get('op') == '=' and c in list(v['ch'][1].walk()):
                    l = A.strip_casts(v['ch'][0])
                    if l['k'] == 'DeclRefExpr' and 'd' in l:
                        holder = {'d': l['d'], 'n': l.get('n'), 'i': v['i']}
            key = 'IORESULT|%s|%s:%s' % (f.q, (q.split('::')[-1] or 'callback'), sorted(cur)[0])
            if holder is None:
                res.ob('IORESULT', where, '%s: result of the partial transfer at line %s is kept' % (short, c.get('l')), False, function=f.q, key=key,
                       message='%s discards the byte count returned by the transfer into base+cursor: the cursor cannot follow a short transfer' % f.q)
                continue
            derived = set([holder['d']])
            changed = True
            while changed:
                changed = False
                for v in f.walk():
                    if v['k'] == 'VarDecl' and v['ch'] and v['d'] not in derived and any(x['k'] == 'DeclRefExpr' and x.get('d') in derived for x in v['ch'][0].walk()):
                        derived.add(v['d'])
                        changed = True
            size_locals = set()
            a1 = A.strip_casts(c.args()[1])
            budget = lvalues_in(c.args()[1])
            if a1['k'] == 'DeclRefExpr' and 'd' in a1:
                size_locals.add(a1['d'])          # the requested-size variable itself: recomputing it for the next transfer is not an advance
                for v in f.walk():
                    rhs = None
                    if v['k'] == 'VarDecl' and v['d'] == a1['d'] and v['ch']:
                        rhs = v['ch'][0]
                    if v['k'] == 'BinaryOperator' and v.get('op') == '=' and A.strip_casts(v['ch'][0]).get('d') == a1['d']:
                        rhs = v['ch'][1]
                    if rhs is not None:
                        budget |= lvalues_in(rhs)
            # only the caller's byte budget (a parameter such as maxBytes) counts; limits kept in fields are set per protocol phase
            params = set('v%s' % p_['d'] for p_ in f.params)
            budget = (budget & params) - cur - set('v%s' % d for d in size_locals)
            cpos = P.pos_of(f, c)
            ups = []
            for n in f.walk():
                tgt = rhs = None
                if n['k'] in ('BinaryOperator', 'CompoundAssignOperator') and n.get('op') in ('+=', '-=', '='):
                    tgt, rhs = n['ch'][0], n['ch'][1]
                if tgt is None:
                    continue
                k = loc_key(tgt)
                if k not in cur and k not in budget:
                    continue
                npos = P.pos_of(f, n)
                # updates that belong to this transfer: dominated by it (another transfer in a sibling branch has its own result variable)
                if npos is None or not C.dominates(f, holder['i'], n['i']):
                    continue
                if n.get('op') == '=' and ('v' in rhs or not any(x['k'] == 'DeclRefExpr' and 'd' in x for x in rhs.walk()) and not lvalues_in(rhs)):
                    continue          # reset to a constant (buffer switched / finished)
                if n.get('op') == '=' and k in budget and k not in cur:
                    # recomputation of a budget from other state is fine when it does not use the requested size
                    pass
                uses_result = any(x['k'] == 'DeclRefExpr' and x.get('d') in derived for x in rhs.walk())
                uses_request = any(x['k'] == 'DeclRefExpr' and x.get('d') in size_locals for x in rhs.walk())
                ups.append((n, k, uses_result, uses_request))
            bad = [(n, k) for (n, k, ur, uq) in ups if (not ur) or uq]
            adv = [n for (n, k, ur, uq) in ups if k in cur and ur]
            ok = not bad and bool(adv)
            res.ob('IORESULT', where, '%s: cursor %s advances by the count returned at line %s' % (short, sorted(cur), c.get('l')), ok, function=f.q, key=key,
                   how='%d update(s) of cursor/budget after the call, all computed from `%s`' % (len(ups), holder.get('n')),
                   message='%s: after the partial transfer at line %s %s: on a short read/write the stream position and the buffer position diverge and every following Message is corrupted' %
                           (f.q, c.get('l'), ('`%s` at line %s is not computed from the returned byte count `%s`' % (bad[0][0].text(60), bad[0][0].get('l'), holder.get('n'))) if bad
                            else 'the cursor %s is never advanced by the returned count' % sorted(cur)))
    if n_sites < 8:
        raise AnalysisBroken('IORESULT: only %d cursor-style transfer sites found' % n_sites)
    # ------------------------------------------------------------------------------------------- COMPLETE
    res.rule('COMPLETE', 'the stream branch of MessageIOGateway::DoInputImplementation hands a Message up only under `_recvBuffer._offset == buffer size`; the C gateways only when the input position reached the end', floor=1)
    f = fx.fn1('muscle::MessageIOGateway::DoInputImplementation')
    ups = [c for c in P.calls(f, r'::UnflattenHeaderAndMessage$')]
    ok_any = False
    for u in ups:
        gs = [(f.nodes[c], t) for (c, t) in C.guards_of_block(f, P.pos_of(f, u)[0])]
        for (cn, t) in gs:
            for (l, op, r) in A.rel_forms(cn, t):
                if op == '==' and l['k'] == 'MemberExpr' and loc_key(l).endswith('_recvBuffer._offset') and any((x.get('q') or '').endswith('ByteBuffer::GetNumBytes') for x in r.walk() if x.is_call()):
                    ok_any = True
    # every unflatten in the TCP branch (mtuSize == 0) must be so guarded; the UDP branch reads whole packets
    tcp = []
    for u in ups:
        gs = [(f.nodes[c], t) for (c, t) in C.guards_of_block(f, P.pos_of(f, u)[0])]
        # packet mode: a dominating test says the maximum packet size (GetMaximumPacketSize(), usually held in a local) is non-zero
        udp = any(A.zero_test(cn, t) is not None and not A.zero_test(cn, t)[1] and
                  any(x.is_call() and (x.get('q') or '').endswith('::GetMaximumPacketSize') for x in A.walk_through_locals(f, A.zero_test(cn, t)[0])) for (cn, t) in gs)
        if not udp:
            tcp.append(u)
    okc = bool(tcp)
    for u in tcp:
        gs = [(f.nodes[c], t) for (c, t) in C.guards_of_block(f, P.pos_of(f, u)[0])]
        g = False
        for (cn, t) in gs:
            for (l, op, r) in A.rel_forms(cn, t):
                if op == '==' and l['k'] == 'MemberExpr' and loc_key(l).endswith('_recvBuffer._offset') and any((x.get('q') or '').endswith('ByteBuffer::GetNumBytes') for x in r.walk() if x.is_call()):
                    g = True
        okc = okc and g
    res.ob('COMPLETE', f.where(), 'stream branch: UnflattenHeaderAndMessage only when _recvBuffer._offset == bb->GetNumBytes()', okc, function=f.q, key='COMPLETE|%s|stream' % f.q,
           message='MessageIOGateway can parse and deliver a Message before all of its bytes have arrived (a partial read delivers a truncated Message or mis-frames the stream)')
    # ------------------------------------------------------------------------------------------- FRAME
    res.rule('FRAME', 'the 8-byte stream frame: body length at byte offset 0, encoding at byte offset 4, in FlattenHeaderAndMessage (writer), GetBodySize and UnflattenHeaderAndMessage (readers); GetHeaderSize() is 8', floor=3)
    def frame_offsets(fn0, verb):
        out = {}
        from msa import ip as IP
        # the header words may be written by a helper the function was split into (msa/ip.py): a value that arrives there as a parameter is looked up at the call site
        for (fn, c) in [(g_, c) for g_ in IP.scope(fx, fn0, r'MessageIOGateway|^muscle::\w+$|^\w+$') for c in g_.walk()]:
            if c.is_call() and (c.get('q') or '').endswith('EndianConverter::' + verb):
                ptr = c.args()[1] if verb == 'Export' else c.args()[0]
                off = None
                for x in ptr.walk():
                    if x['k'] == 'ArraySubscriptExpr' and 'v' in x['ch'][1]:
                        off = x['ch'][1]['v']
                what = None
                if verb == 'Export':
                    v = A.strip_casts(c.args()[0])
                    if fn is not fn0:
                        (fn, v) = IP.resolve_arg(fx, fn, v, r'MessageIOGateway|^muscle::\w+$|^\w+$')
                        v = A.strip_casts(v)
                    # the encoding word: a value whose definitions mention the MUSCLE_MESSAGE_ENCODING_* constants (whatever the local holding it is called)
                    defs = [v]
                    if v['k'] == 'DeclRefExpr' and v.get('d') is not None:
                        defs += [x['ch'][0] for x in fn.walk() if x['k'] == 'VarDecl' and x.get('d') == v['d'] and x['ch']]
                        defs += [x['ch'][1] for x in fn.walk() if x['k'] == 'BinaryOperator' and x.get('op') == '=' and A.strip_casts(x['ch'][0]).get('d') == v['d']]
                    is_enc = any('MESSAGE_ENCODING' in (y.get('n') or '') for d_ in defs for y in d_.walk())
                    what = 'encoding' if is_enc else ('length' if any((y.get('q') or '').endswith('::GetNumBytes') for y in v.walk() if y.is_call()) else v.text(30))
                out[off] = what
        return out
    w = fx.fn1('muscle::MessageIOGateway::FlattenHeaderAndMessage')
    wo = frame_offsets(w, 'Export')
    res.ob('FRAME', w.where(), 'writer: length at offset 0, encoding at offset 4', wo == {0: 'length', 4: 'encoding'}, how=str(wo), function=w.q, key='FRAME|%s|writer' % w.q,
           message='FlattenHeaderAndMessage lays out the frame header as %s' % wo)
    g = fx.fn1('muscle::MessageIOGateway::GetBodySize')
    offs = {}
    for c in g.walk():
        if c.is_call() and (c.get('q') or '').endswith('EndianConverter::Import'):
            off = None
            for x in c.args()[0].walk():
                if x['k'] == 'ArraySubscriptExpr' and 'v' in x['ch'][1]:
                    off = x['ch'][1]['v']
            # which one feeds the out parameter (length) and which one the range test (encoding)
            role = 'length' if any(n['k'] == 'BinaryOperator' and n.get('op') == '=' and c in list(n['ch'][1].walk()) for n in g.walk()) else 'encoding'
            offs[off] = role
    res.ob('FRAME', g.where(), 'GetBodySize: length from offset 0, encoding from offset 4', offs == {0: 'length', 4: 'encoding'}, how=str(offs), function=g.q, key='FRAME|%s|reader' % g.q,
           message='GetBodySize reads the frame header as %s while the writer uses {0: length, 4: encoding}' % offs)
    hs = [x for x in fx.funcs.values() if x.full and x.q == 'muscle::MessageIOGateway::GetHeaderSize']
    if hs:
        rets = [n for n in hs[0].walk() if n['k'] == 'ReturnStmt']
        v = rets[0]['ch'][0].get('v') if rets and rets[0]['ch'] else None
        res.ob('FRAME', hs[0].where(), 'MessageIOGateway::GetHeaderSize() == 8', v == 8, how=str(v), function=hs[0].q, key='FRAME|GetHeaderSize', message='GetHeaderSize() is %s, the frame is two 32-bit words' % v)
    resume_offset_rule(res, fx)
    count_consulted_rule(res, fx)
    byte_view_rule(res, fx)
    # ACCUMULATE: several frames decoded from one read are collected in one pending Message
    res.rule('ACCUMULATE', 'a gateway member that collects decoded chunks during one DoInput() call (it is appended to with AddFlat/AddString/AddData and handed up elsewhere) is re-created only '
                           'where it was found empty (NULL): creating it afresh for every frame drops the frames decoded earlier in the same call', floor=1)
    n_ac = 0
    for g in sorted((g for g in fx.funcs.values() if g.full and g.file.startswith('iogateway/')), key=lambda g: (g.file, g.line)):
        app = [c for c in g.walk() if c['k'] == 'CXXMemberCallExpr' and re.search(r'Message::Add(Flat|String|Data)$', c.get('q') or '') and c.receiver() is not None
               and any(x['k'] == 'MemberExpr' and A.is_this_member(x) and 'MessageRef' in (x.type() or '') or (x['k'] == 'MemberExpr' and A.is_this_member(x) and 'Ref<muscle::Message>' in (x.type() or '')) for x in c.receiver().walk())]
        for c in app:
            mem = [x for x in c.receiver().walk() if x['k'] == 'MemberExpr' and A.is_this_member(x)][0]
            fresh = [w for w in g.walk() if w['k'] == 'CXXOperatorCallExpr' and (w.get('q') or '').endswith('::operator=') and len(w['ch']) > 2 and A.strip_casts(w['ch'][1]).get('n') == mem.get('n')
                     and A.is_this_member(A.strip_casts(w['ch'][1])) and any(x.is_call() and (x.get('q') or '').endswith('GetMessageFromPool') for x in w['ch'][2].walk())]
            if not fresh:
                continue
            n_ac += 1
            bad = None
            for w in fresh:
                isnull = False
                for (cn, t) in G.atoms_at(g, w):
                    core, pol = P.strip_not(cn)
                    if P.is_pointerish(core) and (pol if t else (not pol)) is False and any(x['k'] == 'MemberExpr' and x.get('n') == mem.get('n') for x in core.walk()):
                        isnull = True
                if not isnull:
                    bad = bad or w
            res.ob('ACCUMULATE', g.where(fresh[0]), '%s: `%s` is created only when it is still NULL' % (g.q.split('::')[-1], mem.get('n')), bad is None, function=g.q, key='ACCUMULATE|%s|%s' % (g.q, mem.get('n')),
                   message='%s assigns a fresh Message to `%s` without having found it NULL: every completed frame replaces the Message that holds the frames decoded earlier in the same read, so with '
                           'two or more frames in one read only the last one is delivered (fine-grained segmentations still work)' % (g.q, mem.get('n')))
    if n_ac < 1:
        raise AnalysisBroken('ACCUMULATE: no accumulating pending-Message member found in the gateways (SLIPFramedDataMessageIOGateway expected)')
    stale_cursor_rule(res, fx)
    queue_ends_rule(res, fx)
    codec_direction_rule(res, fx)
    codec_kept_rule(res, fx)
    # a frame length decoded as a signed narrow integer must not be sign-extended into the unsigned size it is used as (the rule itself lives with TAINT in C02; here the source is
    # recognised syntactically: a value produced by one of the byte-order decoding helpers)
    from .C02 import sign_extend_sites
    res.rule('SIGN-EXTEND', 'in the gateway input paths a value decoded from the header bytes as a signed integer is not passed to a wider unsigned parameter (length, size) unless a dominating test says it is >= 0', floor=0)
    dec = lambda a: any(x.is_call() and re.search(r'(EndianConverter::Import|muscleCopyIn|MuscleX86SwapInt|B_SWAP_|ENDIAN_TO_HOST)', x.get('q') or '') for x in a.walk())
    for g_ in sorted((g_ for g_ in fx.funcs.values() if g_.full and re.search(r'^iogateway/', g_.file)), key=lambda g_: (g_.file, g_.line)):
        sign_extend_sites(res, fx, None, g_, 'SIGN-EXTEND', is_src=dec)
    stream_carry_rule(res, fx)
    recv_capacity_rule(res, fx)
    codec_step_rule(res, fx)
    template_lru_rule(res, fx)
    res.explanation = ('Static decision of the short-transfer discipline of the stream gateways: %d transfer sites whose buffer argument is base+cursor were found in iogateway/*.cpp and the two C gateways; at each '
                       'the result is kept and every later update of the cursor / remaining budget is data-dependent on the returned count and not on the requested size; the stream branch delivers only a complete '
                       'buffer; the 8-byte frame has the same layout on the write and read side. Behaviour for concrete segmentations (CR at a read boundary, 2048-byte scratch boundary), zlib dictionary carry-over, '
                       'WebSocket masking and the template cache are not decided.' % n_sites)
    res.assumptions = ['DataIO::Read/Write return the number of bytes actually transferred']
    res.not_decided = ['exact sequence delivery for every segmentation and interleaving of input/output calls', 'zlib and template-cache state staying in step', 'text line splitting and SLIP/WebSocket framing']


def codec_kept_rule(res, fx):
    """a zlib stream is stateful in both directions (dependent deflate): the receive codec must survive frames that are not deflated (small Messages are sent with the default encoding
    in the middle of a zlib stream), so the codec object is thrown away only to be replaced by one of another level"""
    res.rule('CODEC-KEPT', 'MessageIOGateway::GetCodec discards the codec it was handed (delete / assignment of NULL) only on paths that go on to store a newly created codec in the same place', floor=1)
    fs = [g for g in fx.funcs.values() if g.full and g.q == 'muscle::MessageIOGateway::GetCodec']
    if not fs:
        raise AnalysisBroken('CODEC-KEPT: MessageIOGateway::GetCodec has no analysed body')
    from msa import ip as IPK
    judged = 0
    for f in IPK.scope(fx, fs[0], r'^muscle::MessageIOGateway::'):       # GetCodec and the private helpers the replacement may have been moved into
        judged += _codec_kept_in(res, f)
    if judged < 1:
        raise AnalysisBroken('CODEC-KEPT: no function in the scope of GetCodec stores a new codec through a ZLibCodec*& parameter')


def _codec_kept_in(res, f):
    refp = [p_['d'] for p_ in f.params if 'ZLibCodec' in (f.ptype(p_) or '') and '&' in (f.ptype(p_) or '')]
    if not refp:
        return 0
    d = refp[0]
    drops, stores = [], []
    for n in f.walk():
        if n['k'] == 'CXXDeleteExpr' and n['ch'] and A.strip_casts(n['ch'][0]).get('d') == d:
            drops.append(n)
        if n['k'] == 'BinaryOperator' and n.get('op') == '=' and A.strip_casts(n['ch'][0]).get('d') == d:
            if any(x['k'] == 'CXXNewExpr' for x in A.walk_through_locals(f, n['ch'][1])):
                stores.append(n)
            else:
                drops.append(n)
    if not stores and not drops:
        return 0
    for (i, dr) in enumerate(sorted(drops, key=lambda n: n['i'])):
        ok, path = P.must_follow(f, dr, stores)
        res.ob('CODEC-KEPT', f.where(dr), 'GetCodec: the codec is dropped only to be replaced', bool(ok), function=f.q, key='CODEC-KEPT|%s|%d' % (f.q, i),
               message='MessageIOGateway::GetCodec throws the codec away on a path that does not create a new one: the receiver asks for a codec with the encoding of EVERY incoming header, and a zlib sender '
                       'transmits small Messages un-deflated with the default encoding in the middle of its stream — the inflater and the dictionary the sender\'s dependent deflate stream still relies '
                       'on are lost, the next deflated Message fails to inflate and the rest of the stream is never delivered')
    if not drops:
        res.ob('CODEC-KEPT', f.where(), 'GetCodec never drops the codec', True, nontrivial=False, function=f.q, key='CODEC-KEPT|%s|none' % f.q, message='')
    return 1
