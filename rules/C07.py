"""C07  One client's traffic can never hang or crash the server.
Decided statically: PROGRESS (+cursor consistency) on every loop reachable from the command
dispatcher, R-REC (recursion guards) and R-CRASH (abort reachability) from the same entries.
Not decided: complexity ("bounded" != fast), memory exhaustion."""
from msa import progress as P
from msa.callgraph import CallGraph
from msa.facts import AnalysisBroken
from . import common

ENTRIES = [
    'muscle::StorageReflectSession::MessageReceivedFromGateway',
    'muscle::DumbReflectSession::MessageReceivedFromGateway',
]


ANCHOR_FILES = [r'^reflector/', r'^regex/(QueryFilter|StringMatcher|PathMatcher|SegmentedStringMatcher)', r'^message/Message']


def progress_rule(res, fx, cg, reach, rule='PROGRESS'):
    res.rule(rule, 'every cycle through a loop reachable from the entry set can change an input of one of the loop\'s exit conditions; '
                   'remove-or-advance loops remove at the cursor the loop test just validated', floor=None)
    nloops = ndec = 0
    seen_sites = set()
    for fid in sorted(reach):
        f = fx.funcs.get(fid)
        if f is None or not f.full or not f.blocks:
            continue
        for r in P.analyse_function(f, fx):
            site = (f.file, r['line'], f.q)
            nloops += 1
            v = r['verdict']
            where = '%s:%s' % (f.file, r['line'])
            if v in ('info-forever', 'info-noexitcond', 'ok-opaque-test'):
                if site not in seen_sites:
                    seen_sites.add(site)
                    if v != 'ok-opaque-test':
                        res.info(rule, where, '%s: %s (not judged)' % (f.q, v))
                continue
            if site in seen_sites:
                continue            # other instantiation of the same template source loop
            seen_sites.add(site)
            ndec += 1
            ok = (v == 'ok')
            key = None
            if not ok:
                if v == 'cursor-mismatch':
                    c = r['cursor']
                    key = '%s|%s|cursor:%s:index=%s:cursor=%s' % (rule, f.q, c['mutator'].get('q'), c['arg'], c['cursor'])
                else:
                    key = '%s|%s|no-progress:inputs=%s' % (rule, f.q, ','.join(input_names(f, r)))
            res.ob(rule, where, 'loop at %s in %s makes progress on every cycle' % (where, f.q), ok,
                   how='exit-condition inputs %s can change on every cycle' % input_names(f, r) if ok else None,
                   function=f.q, key=key, message=r.get('why'),
                   detail={'entry_path': [cg.name(x) for x in cg.path(reach, fid)], 'loop_line': r['line'], 'lines': r.get('lines')} if not ok else None)
    return nloops, ndec


def input_names(f, r):
    out = []
    for s in r.get('inputs', []):
        try:
            t = eval(s)
        except Exception:
            out.append(s)
            continue
        if t[0] == 'v':
            out.append(P.local_name(f, t[1]))
        elif t[0] == 'm':
            out.append(t[1].split('::')[-1])
        else:
            out.append(t[0])
    return sorted(set(out))


def run(res, tier):
    fx = common.load_all(res, tier, with_c=False)
    cg = CallGraph(fx)
    entries = common.entry_ids(fx, ENTRIES)
    reach = cg.reachable(entries)
    res.functions_analysed = sum(1 for x in reach if x in fx.funcs and fx.funcs[x].full)
    nloops, ndec = progress_rule(res, fx, cg, reach)
    if ndec < 150:
        raise AnalysisBroken('PROGRESS decided only %d loops reachable from the dispatcher (expected several hundred): call graph or entry set is broken' % ndec)
    from msa import reach as R
    R.rec_rule(res, fx, cg, entries, reach, 'R-REC', anchor_files=ANCHOR_FILES, side_nesting=True)
    R.crash_rule(res, fx, cg, entries, reach, 'R-CRASH', taint_entry=False)
    # lengths that reach a helper from client-controlled filters and payloads: the helper cannot rely on their relation
    common.param_underflow_rule(res, fx, 'R-CRASH', floor=1, only_reach=set(reach))
    from . import sm_state
    from . import srs_shared as SS
    SS.ancestor_deref_rule(res, fx, 'R-CRASH')
    SS.nullable_results_rule(res, fx, 'R-CRASH')
    SS.raw_from_ref_rule(res, fx, 'R-CRASH')
    sm_state.regex_valid_rule(res, fx)       # a client-supplied pattern that fails to compile must leave the matcher unusable-but-safe, not crash the server
    res.extra['loops_seen'] = nloops
    res.extra['entries'] = ENTRIES
    res.explanation = ('Static decision of the structural part of C07 on the current /repo sources: (1) PROGRESS — for each of the %d distinct source loops '
                       'with decidable exit tests in the %d functions reachable (class-hierarchy call graph) from the reflect-session command dispatchers, every CFG cycle '
                       'through the loop body contains a statement that may modify an input of an exit condition, with branch correlation on unmodified atoms, and '
                       'remove-or-advance loops remove at the validated cursor; (2) R-REC — every recursive call-graph component reachable from the dispatcher carries a depth/nesting '
                       'guard or is bounded by a guarded structure; (3) R-CRASH — no unconditional abort body is reachable. '
                       'This decides "no handler loops or recurses forever / aborts by construction", not running time or memory.' % (ndec, res.functions_analysed))
    res.assumptions = ['clang 14 AST/CFG is faithful to the build configuration (-std=gnu++11 -DMUSCLE_ENABLE_ZLIB_ENCODING -DMUSCLE_NO_EXCEPTIONS -DNDEBUG)',
                       'const methods with by-value/const-reference parameters do not change the state that loop tests read',
                       'library calls (libc, zlib, regex) return']
    res.not_decided = ['time complexity of handlers', 'memory exhaustion', 'loops whose exit test calls an opaque (non-const / free) function are counted but not judged']
