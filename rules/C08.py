"""C08  All Message implementations agree on one wire format — decided as table agreement across the four codecs shipped in the repository:
CONST (protocol version, default encoding, type codes), SHAPE (per type: fixed width k / count+length-prefix / length-prefix only — C++ array codecs by symbolic
evaluation, C mini codec from its size function and import table, Python from its size function, struct formats and array type codes — all equal to the documented table),
HEADER (the three header words and their sources), ENDIAN, FRAME (8-byte stream frame).  Equality of decoded content is not decided."""
import ast as pyast
import os, re
from msa import effect as E
from msa import ast as A
from msa import pair as P
from msa import cfg as C
from msa import guards as G
from msa import facts as F
from msa.facts import AnalysisBroken
from . import common
from . import C01

DOC = {'B_BOOL_TYPE': ('fixed', 1), 'B_INT8_TYPE': ('fixed', 1), 'B_INT16_TYPE': ('fixed', 2), 'B_INT32_TYPE': ('fixed', 4), 'B_FLOAT_TYPE': ('fixed', 4), 'B_INT64_TYPE': ('fixed', 8),
       'B_DOUBLE_TYPE': ('fixed', 8), 'B_POINT_TYPE': ('fixed', 8), 'B_RECT_TYPE': ('fixed', 16), 'B_STRING_TYPE': ('count+prefix',), 'B_MESSAGE_TYPE': ('prefix',), 'B_RAW_TYPE': ('count+prefix',)}
ARRAY_CODE_WIDTH = {'b': 1, 'B': 1, 'h': 2, 'H': 2, 'i': 4, 'I': 4, 'l': 4, 'L': 4, 'q': 8, 'Q': 8, 'f': 4, 'd': 8}


def struct_size(fmt):
    m = re.match(r'^([<>=!@]?)(\d*)([a-zA-Z])$', fmt)
    if not m:
        return None
    return (int(m.group(2)) if m.group(2) else 1) * ARRAY_CODE_WIDTH.get(m.group(3), 0)


# ------------------------------------------------------------------------------------------------------------------ Python side
class PyInfo(object):
    def __init__(self, repo):
        self.path = os.path.join(repo, 'lang/python3/message.py')
        self.tpath = os.path.join(repo, 'lang/python3/message_transceiver_thread.py')
        if not os.path.exists(self.path) or not os.path.exists(self.tpath):
            raise AnalysisBroken('lang/python3/message.py or message_transceiver_thread.py missing')
        self.tree = pyast.parse(open(self.path).read())
        self.ttree = pyast.parse(open(self.tpath).read())
        self.consts = {}
        for n in self.tree.body:
            if isinstance(n, pyast.Assign) and len(n.targets) == 1 and isinstance(n.targets[0], pyast.Name) and isinstance(n.value, pyast.Constant) and isinstance(n.value.value, int):
                self.consts[n.targets[0].id] = n.value.value
        self.tconsts = {}
        for n in self.ttree.body:
            if isinstance(n, pyast.Assign) and len(n.targets) == 1 and isinstance(n.targets[0], pyast.Name) and isinstance(n.value, pyast.Constant) and isinstance(n.value.value, int):
                self.tconsts[n.targets[0].id] = n.value.value

    def method(self, name):
        for n in pyast.walk(self.tree):
            if isinstance(n, pyast.FunctionDef) and n.name == name:
                return n
        raise AnalysisBroken('message.py: method %s not found' % name)

    def elif_chain(self, fn, var):
        """[(set(type names) or 'else', body stmts)] of the first if/elif chain comparing `var` with B_*_TYPE names"""
        for n in pyast.walk(fn):
            if isinstance(n, pyast.If) and self.cmp_names(n.test, var):
                out = []
                cur = n
                while True:
                    out.append((self.cmp_names(cur.test, var), cur.body))
                    if len(cur.orelse) == 1 and isinstance(cur.orelse[0], pyast.If) and self.cmp_names(cur.orelse[0].test, var):
                        cur = cur.orelse[0]
                        continue
                    if cur.orelse:
                        out.append(('else', cur.orelse))
                    break
                if len(out) >= 6:
                    return out
        raise AnalysisBroken('message.py: %s has no if/elif chain over %s' % (fn.name, var))

    def cmp_names(self, test, var):
        names = set()
        for t in ([test] if not isinstance(test, pyast.BoolOp) else test.values):
            if isinstance(t, pyast.Compare) and isinstance(t.left, pyast.Name) and t.left.id == var and len(t.comparators) == 1 and isinstance(t.comparators[0], pyast.Name) \
                    and isinstance(t.ops[0], pyast.Eq):
                names.add(t.comparators[0].id)
            elif isinstance(t, pyast.BoolOp):
                names |= self.cmp_names(t, var) or set()
            else:
                return None
        return names or None

    def linear(self, v):
        """(constant, coefficient of itemCount, has_item_size_term) of an expression, or None"""
        if isinstance(v, pyast.Constant) and isinstance(v.value, int):
            return (v.value, 0, False)
        if isinstance(v, pyast.Name) and v.id == 'itemCount':
            return (0, 1, False)
        if isinstance(v, pyast.BinOp) and isinstance(v.op, pyast.Add):
            a, b = self.linear(v.left), self.linear(v.right)
            if a is None or b is None:
                return None
            return (a[0] + b[0], a[1] + b[1], a[2] or b[2])
        if isinstance(v, pyast.BinOp) and isinstance(v.op, pyast.Mult):
            a, b = self.linear(v.left), self.linear(v.right)
            if a is None or b is None:
                return None
            if a[1] == 0 and not a[2]:
                return (a[0] * b[0], a[0] * b[1], b[2]) if a[0] is not None else None
            if b[1] == 0 and not b[2]:
                return (a[0] * b[0], a[1] * b[0], a[2])
            return None
        if isinstance(v, pyast.Call):
            # len(item…) / item.FlattenedSize(): the item's own size
            return (0, 0, True)
        return None

    def size_shapes(self):
        fn = self.method('GetFieldContentsLength')
        out = {}
        for (names, body) in self.elif_chain(fn, 'fieldType'):
            top = [0, 0]
            per_item = None
            okform = True
            for s in body:
                if isinstance(s, pyast.AugAssign) and isinstance(s.op, pyast.Add):
                    l = self.linear(s.value)
                    if l is None or l[2]:
                        okform = False
                    else:
                        top[0] += l[0]
                        top[1] += l[1]
                elif isinstance(s, pyast.For):
                    for t in s.body:
                        # `if isinstance(item, str): ret += A else: ret += B`: two representations of one item; each arm must have the prefix shape (PY-EFFECT compares them with the writer)
                        arms = [t.body, t.orelse] if isinstance(t, pyast.If) and isinstance(t.test, pyast.Call) and getattr(t.test.func, 'id', None) == 'isinstance' and t.orelse else [[t]]
                        consts = []
                        for arm in arms:
                            if len(arm) == 1 and isinstance(arm[0], pyast.AugAssign) and isinstance(arm[0].op, pyast.Add):
                                l = self.linear(arm[0].value)
                                if l is None or not l[2] or l[1]:
                                    okform = False
                                else:
                                    consts.append(l[0])
                            else:
                                okform = False
                        if okform and consts and all(c in (4, 5) for c in consts):
                            per_item = (per_item or 0) + consts[-1]
                        elif okform and len(consts) == 1:
                            per_item = (per_item or 0) + consts[0]
                        else:
                            okform = False
                else:
                    okform = False
            if not okform:
                shape = ('other',)
            elif per_item is None:
                shape = ('fixed', top[1]) if top[0] == 0 else ('other',)
            else:
                overhead = top[1] + per_item            # bytes per item besides the item itself (length word, NUL)
                if overhead in (4, 5) and top[0] == 4:
                    shape = ('count+prefix',)
                elif overhead in (4, 5) and top[0] == 0:
                    shape = ('prefix',)
                else:
                    shape = ('other', top, per_item)
            for nm in (names if names != 'else' else ['B_RAW_TYPE']):
                out[nm] = shape
        return out

    def codec_widths(self, method):
        """per type name: width implied by array type codes / struct formats in Flatten or Unflatten"""
        fn = self.method(method)
        out = {}
        for n in pyast.walk(fn):
            if isinstance(n, pyast.If):
                names = self.cmp_names(n.test, 'fieldType') or self.cmp_names(n.test, 'fieldTypeCode')
                if not names:
                    continue
                for s in n.body:
                    for c in pyast.walk(s):
                        if isinstance(c, pyast.Call) and isinstance(c.func, pyast.Attribute) and c.func.attr == 'array' and c.args and isinstance(c.args[0], pyast.Constant):
                            for nm in names:
                                out.setdefault(nm, set()).add(ARRAY_CODE_WIDTH.get(c.args[0].value))
                        if isinstance(c, pyast.Call) and isinstance(c.func, pyast.Attribute) and c.func.attr in ('pack', 'unpack') and c.args and isinstance(c.args[0], pyast.Constant) \
                                and isinstance(c.args[0].value, str):
                            sz = struct_size(c.args[0].value)
                            if sz and c.args[0].value not in ('<L',):
                                for nm in names:
                                    out.setdefault(nm, set()).add(sz)
        return out

    def struct_formats(self):
        out = []
        for tree, fn in ((self.tree, self.path), (self.ttree, self.tpath)):
            for c in pyast.walk(tree):
                if isinstance(c, pyast.Call) and isinstance(c.func, pyast.Attribute) and c.func.attr in ('pack', 'unpack', 'calcsize', 'pack_into', 'unpack_from') and \
                        isinstance(c.func.value, pyast.Name) and c.func.value.id == 'struct' and c.args and isinstance(c.args[0], pyast.Constant) and isinstance(c.args[0].value, str):
                    out.append((os.path.basename(fn), c.lineno, c.args[0].value))
        return out


def counts_fields(cf, d):
    """local d is incremented inside a loop that walks the field list (… = …->nextField): it counts fields, whatever it is called"""
    for lp in cf.walk():
        if lp['k'] in ('WhileStmt', 'ForStmt') and any(x['k'] == 'MemberExpr' and x.get('n') == 'nextField' for x in lp.walk()):
            if any(x['k'] == 'UnaryOperator' and x.get('op') in ('post++', 'pre++') and A.strip_casts(x['ch'][0]).get('d') == d for x in lp.walk()):
                return True
    return False


def cmini_consistency_rules(res, fx):
    """two pieces of cached state in the C mini codec that determine the bytes put on the wire:
    (a) MiniMessageGateway: every output buffer starts with an in-memory next-pointer that must never be sent — wherever the send cursor is set for a fresh buffer it is set to the same offset;
    (b) MiniMessage: a field's cached name length (nameBytes) is what MMFlattenMessage writes as the name-length word — wherever the name is rewritten the cached length is the new length."""
    res.rule('C-CACHED', 'MiniMessageGateway.c: all constant values assigned to _curOutputPos agree (the size of the leading next-pointer); MiniMessage.c: a memcpy into a field\'s name of L bytes is '
                         'reached only through an assignment nameBytes = L or on the edge where L - nameBytes is known to be 0', floor=2)
    vals = []
    for f in (g for g in fx.funcs.values() if g.full and g.file.endswith('minimessage/MiniMessageGateway.c')):
        for w in f.walk():
            if w['k'] == 'BinaryOperator' and w.get('op') == '=' and A.strip_casts(w['ch'][0])['k'] == 'MemberExpr' and A.strip_casts(w['ch'][0]).get('n') == '_curOutputPos' and 'v' in A.strip_casts(w['ch'][1]):
                vals.append((f, w, A.strip_casts(w['ch'][1])['v']))
    if len(vals) < 2:
        raise AnalysisBroken('C-CACHED: fewer than two constant assignments to _curOutputPos found')
    distinct = sorted(set(v for (_, _, v) in vals))
    odd = [x for x in vals if [v for (_, _, v) in vals].count(x[2]) == 1 and len(distinct) > 1]
    res.ob('C-CACHED', (odd[0][0].where(odd[0][1]) if odd else vals[0][0].where(vals[0][1])), 'every fresh output buffer is sent from the same offset (after its next-pointer)', len(distinct) == 1,
           how='_curOutputPos = %s at %d sites' % (distinct, len(vals)), function='MiniMessageGateway', key='C-CACHED|_curOutputPos',
           message='_curOutputPos is set to different constants %s for a fresh output buffer: where it is not the size of the leading next-pointer, %s raw pointer bytes precede the frame on the wire '
                   '(from the second Message on the stream is no longer [length][encoding][body])' % (distinct, distinct[-1] - distinct[0] if len(distinct) > 1 else 0))
    n = 0
    for f in sorted((g for g in fx.funcs.values() if g.full and g.file.endswith('minimessage/MiniMessage.c')), key=lambda g: g.line):
        for c in f.walk():
            if not (c.is_call() and (c.get('q') or '') in ('memcpy', 'strcpy', 'strncpy', 'memmove') and c.args()):
                continue
            dst = c.args()[0]
            if not any(x['k'] == 'MemberExpr' and x.get('n') == 'name' for x in dst.walk()):
                continue
            if len(c.args()) < 3:
                continue
            L = A.strip_casts(c.args()[2])
            if any(x['k'] == 'MemberExpr' and x.get('n') == 'nameBytes' for x in A.walk_through_locals(f, L)):
                continue          # the length written IS the cached length (clone / copy of a whole field)
            # only an EXISTING field's name: the function also reads nameBytes (a constructor that fills a fresh field sets it unconditionally and is covered by the same test)
            n += 1
            lk = A.render_key(L)
            as_blocks = set()
            for w in f.walk():
                if w['k'] == 'BinaryOperator' and w.get('op') == '=' and A.strip_casts(w['ch'][0])['k'] == 'MemberExpr' and A.strip_casts(w['ch'][0]).get('n') == 'nameBytes' and A.render_key(w['ch'][1]) == lk:
                    p_ = P.pos_of(f, w)
                    if p_:
                        as_blocks.add(p_[0])
            zedges = set()
            for blk in f.blocks.values():
                if blk.cond is None or blk.cond not in f.nodes or len(blk.succ) != 2:
                    continue
                for truth in (True, False):
                    z = A.zero_test(f.nodes[blk.cond], truth)
                    if z is not None and z[1]:
                        e0 = G.local_init(f, z[0])
                        if e0['k'] == 'BinaryOperator' and e0.get('op') == '-' and A.render_key(e0['ch'][0]) == lk and any(x['k'] == 'MemberExpr' and x.get('n') == 'nameBytes' for x in e0['ch'][1].walk()):
                            zedges.add((blk.b, 0 if truth else 1))
                    for (l_, op_, r_) in A.rel_forms(f.nodes[blk.cond], truth):
                        if op_ == '==' and A.render_key(l_) == lk and any(x['k'] == 'MemberExpr' and x.get('n') == 'nameBytes' for x in r_.walk()):
                            zedges.add((blk.b, 0 if truth else 1))
            pc = P.pos_of(f, c)
            reach = C.reachable_blocks(f, f.entry, avoid_edges=tuple(zedges), avoid_blocks=tuple(as_blocks))
            ok = pc is not None and pc[0] not in reach
            res.ob('C-CACHED', f.where(c), '%s: the cached name length equals the %s bytes written into the name' % (f.q, L.text(20)), ok, function=f.q, key='C-CACHED|%s|nameBytes' % f.q,
                   message='%s rewrites a field\'s name (%s bytes) on a path that neither sets nameBytes to that length nor has established that it is unchanged: MMFlattenMessage writes the stale '
                           'nameBytes as the name-length word, so the flattened field carries the old length and the tail of the old name (C++ and Python then see a different field name)' % (f.q, L.text(20)))
    if n < 1:
        raise AnalysisBroken('C-CACHED: no write of a field name found in MiniMessage.c')


def py_effect_rule(res, py):
    """the Python writer and its size functions agree (rules/py_effect.py): every length word Python puts on the wire comes from the size functions"""
    from . import py_effect as PE
    from msa.effect import Outside, pstr, padd
    res.rule('PY-EFFECT', 'message.py: for every type-code branch, for an array.array or a list as contents and for either byte order, the bytes Message.Flatten() writes for a field equal what '
                          'FlattenedSize()/GetFieldContentsLength() compute for it (they supply the field-length word, the sub-Message length words and the transceiver\'s frame length); strings are '
                          'counted in encoded bytes on both sides', floor=12)
    try:
        _, listed = PE.analyse(py.tree, py.consts, [])
        rows, _ = PE.analyse(py.tree, py.consts, sorted(listed))
    except Outside as e:
        raise AnalysisBroken('PY-EFFECT: message.py is outside the evaluated fragment: %s' % e)
    if len(listed) < 8:
        raise AnalysisBroken('PY-EFFECT: only %d type codes found in the if/elif chains of message.py' % len(listed))
    where = 'lang/python3/message.py'
    name_diffs = {}
    per_type = {}
    for r in rows:
        d = padd(r['writer'], {m: -c for m, c in r['size'].items()})
        if r['kind'] == 'header':
            res.ob('PY-EFFECT', '%s:%s' % (where, r['line']), 'header: Flatten writes %s bytes before the fields, FlattenedSize starts at %s' % (pstr(r['writer']), pstr(r['size'])), not d, function='Python:Flatten',
                   key='PY-EFFECT|header', message='message.py: Flatten writes %s header bytes, FlattenedSize counts %s' % (pstr(r['writer']), pstr(r['size'])))
            continue
        dn = {m: c for m, c in d.items() if any('(name)' in a for a in m)}
        dr = {m: c for m, c in d.items() if m not in dn}
        if dn:
            name_diffs[pstr(dn)] = r
        per_type.setdefault(r['type'], []).append((r, dr))
    any_row = [r for r in rows if r['kind'] == 'field'][0]
    res.ob('PY-EFFECT', '%s:%s' % (where, any_row['line']), 'field name: written as 4 + encoded bytes + NUL and counted the same way', not name_diffs, function='Python:FlattenedSize',
           key='PY-EFFECT|field-name', how='writer - size = %s' % (sorted(name_diffs) or 0),
           message='message.py: Flatten writes a field name as its UTF-8 encoding but FlattenedSize counts its characters (writer - size = %s): for a field name with a non-ASCII character the '
                   'frame length sent by the transceiver and the length word of an enclosing Message field are too small, and the C++ parser rejects or mis-frames the Message'
                   % ', '.join(sorted(name_diffs)))
    for t in sorted(per_type):
        bad = [(r, dr) for (r, dr) in per_type[t] if dr]
        tn = t if t != 'else' else 'any other type code (raw data)'
        res.ob('PY-EFFECT', '%s:%s' % (where, any_row['line']), '%s: contents written = contents counted, in %d representation/byte-order combinations' % (tn, len(per_type[t])), not bad, function='Python:' + t,
               key='PY-EFFECT|%s' % t, how=pstr(per_type[t][0][0]['size']),
               message='message.py: for %s fields Flatten writes %s bytes but GetFieldContentsLength computes %s: the field-length word Python sends does not match the field, the C++ parser reads the '
                       'next field header from the wrong offset' % (tn, pstr(bad[0][0]['writer']) if bad else '', pstr(bad[0][0]['size']) if bad else ''))


def c_unlink_rule(res, fx, rule='C-CACHED'):
    """a field taken out of one MMessage is put into another (MMMoveField): it must not bring its old neighbours along"""
    n = 0
    for f in sorted((f for f in fx.funcs.values() if f.full and f.file.endswith('minimessage/MiniMessage.c')), key=lambda f: f.line):
        links = {}
        for a in f.walk():
            if a['k'] != 'BinaryOperator' or a.get('op') != '=':
                continue
            l_ = A.strip_casts(a['ch'][0])
            if l_['k'] != 'MemberExpr' or l_.get('n') not in ('prevField', 'nextField') or not l_['ch']:
                continue
            base = A.strip_casts(l_['ch'][0])
            if base['k'] == 'DeclRefExpr' and not any(p_.get('d') == base.get('d') for p_ in f.params):
                from msa import guards as G_
                base = A.strip_casts(G_.local_init(f, base))          # `prev = X->prevField; prev->nextField = …` names the neighbour through a local
            # neighbour write:  X->prevField->nextField = …   /   X->nextField->prevField = …
            if base['k'] == 'MemberExpr' and base.get('n') in ('prevField', 'nextField') and base['ch'] and A.strip_casts(base['ch'][0])['k'] == 'DeclRefExpr':
                links.setdefault(A.strip_casts(base['ch'][0]).get('d'), {'nb': [], 'own': {}})['nb'].append(a)
            elif base['k'] == 'DeclRefExpr':
                links.setdefault(base.get('d'), {'nb': [], 'own': {}})['own'].setdefault(l_['n'], []).append(a)
        for d, info in sorted(links.items(), key=lambda kv: str(kv[0])):
            if len(info['nb']) < 1 or not any(p_.get('d') == d for p_ in f.params):
                continue
            n += 1
            freed = any(c.is_call() and (c.get('q') or '').split('::')[-1] in ('MFree', 'free', 'FreeMMessageField') and c.args() and A.strip_casts(c.args()[0]).get('d') == d for c in f.walk())
            # chained `a = b = NULL` stores: the inner assignment is found by the walk as well
            ok = freed or all(info['own'].get(fl) and P.must_follow(f, info['nb'][0], info['own'][fl])[0] for fl in ('prevField', 'nextField'))
            name = [p_.get('n') for p_ in f.params if p_.get('d') == d][0]
            res.ob(rule, f.where(info['nb'][0]), '%s: the unlinked field `%s` does not keep its old neighbours' % (f.q, name), ok, function=f.q, key='%s|%s|unlink:%s' % (rule, f.q, name),
                   message='%s takes `%s` out of its list (it rewrites the neighbours\' links) but leaves %s->prevField / ->nextField pointing into the old list: MMMoveField() appends the field to '
                           'another MMessage, which then flattens the moved field AND every field that followed it in the source — its bytes no longer agree with what the C++ Message produces for the '
                           'same commands — and the two Messages free the same field records' % (f.q, name, name))
    if n < 1:
        raise AnalysisBroken('%s: the unlink routine of the mini field list was not found' % rule)


def run(res, tier):
    fx = common.load_units(res, ['message/Message.cpp', 'iogateway/MessageIOGateway.cpp'] + F.C_UNITS, fn_regex='(' + C01.FN_RE + r')|(^(MM|UM|MG|UG|GetMMessage|FlattenMMessage|ImportMMessage|IsTypeCode|WriteData|ReadData|muscle::MessageIOGateway))', macros=True)
    res.functions_analysed = sum(1 for f in fx.funcs.values() if f.full)
    py = PyInfo(F.REPO)
    tcs = C01.type_codes(fx)
    # ------------------------------------------------------------------------------------------- CONST
    res.rule('CONST', 'protocol constants have the same value in every copy: CURRENT/OLDEST_PROTOCOL_VERSION (Message.h, MiniMessage.c, MicroMessage.c, message.py), MUSCLE_MESSAGE_ENCODING_DEFAULT '
                      '(MessageIOGateway.h, both C gateways, message_transceiver_thread.py), B_*_TYPE codes (MuscleSupport.h vs message.py)', floor=10)
    for name in ('CURRENT_PROTOCOL_VERSION', 'OLDEST_SUPPORTED_PROTOCOL_VERSION'):
        vals = {}
        for m in fx.macros.get(name, []):
            try:
                vals[m['file']] = int(m['body'].split()[0])
            except Exception:
                vals[m['file']] = m['body']
        if name in py.consts:
            vals['lang/python3/message.py'] = py.consts[name]
        need = ['message/Message.h', 'lang/c/minimessage/MiniMessage.c', 'lang/c/micromessage/MicroMessage.c'] + (['lang/python3/message.py'] if name.startswith('CURRENT') else [])
        missing = [n for n in need if n not in vals]
        if missing:
            raise AnalysisBroken('%s not found in %s' % (name, missing))
        ok = len(set(vals.values())) == 1
        res.ob('CONST', 'message/Message.h', '%s is the same in %d copies' % (name, len(vals)), ok, how=str(vals), function=name, key='CONST|%s' % name,
               message='%s differs between implementations: %s — each side rejects the other\'s Messages' % (name, vals))
    enc = {'iogateway/MessageIOGateway.h': fx.enum_const('MUSCLE_MESSAGE_ENCODING_DEFAULT')}
    for v in fx.var_list:
        if v['q'].endswith('_MUSCLE_MESSAGE_ENCODING_DEFAULT') and 'v' in v:
            enc[v['file']] = v['v']
    enc['lang/python3/message_transceiver_thread.py'] = py.tconsts.get('MUSCLE_MESSAGE_ENCODING_DEFAULT')
    if len(enc) < 4 or None in enc.values():
        raise AnalysisBroken('MUSCLE_MESSAGE_ENCODING_DEFAULT: copies found only in %s' % sorted(enc))
    res.ob('CONST', 'iogateway/MessageIOGateway.h', 'MUSCLE_MESSAGE_ENCODING_DEFAULT is the same in %d copies' % len(enc), len(set(enc.values())) == 1, how=str(enc), function='MUSCLE_MESSAGE_ENCODING_DEFAULT',
           key='CONST|MUSCLE_MESSAGE_ENCODING_DEFAULT', message='the default stream encoding id differs: %s — the gateways refuse each other\'s frames' % enc)
    for name, v in sorted(tcs.items()):
        if name in py.consts:
            res.ob('CONST', 'lang/python3/message.py', '%s has the same value in C++ and Python' % name, py.consts[name] == v, how=str(v), function=name, key='CONST|%s' % name, nontrivial=False,
                   message='%s is %s in MuscleSupport.h and %s in message.py' % (name, v, py.consts[name]))
    # ------------------------------------------------------------------------------------------- SHAPE
    res.rule('SHAPE', 'for every type code each implementation uses the documented payload shape: fixed width k per item (bool 1, int8 1, int16 2, int32/float 4, int64/double 8, point 8, rect 16), '
                      'count word + length-prefixed items (string, raw/other), or length-prefixed items without count word (Message)', floor=36)
    # C++
    cda, table = C01.created_classes(fx)
    cpp = {}
    for name, tc in tcs.items():
        if name not in DOC:
            continue
        cls = table.get(tc, table.get('default'))
        try:
            wf, ev = C01.find(fx, cls, 'TemplatedFlatten')
            cpp[name] = C01.shape_class(ev.io_bytes(wf, 0))
        except E.Outside as e:
            raise AnalysisBroken('C++ %s outside the fragment: %s' % (name, e))
    for name in sorted(DOC):
        res.ob('SHAPE', cda.where(), 'C++ array codec for %s has the documented shape %s' % (name, DOC[name]), cpp.get(name) == DOC[name], how=str(cpp.get(name)), function='C++:' + name, key='SHAPE|cpp|%s' % name,
               message='C++ writes %s as %s, the documented wire format is %s' % (name, cpp.get(name), DOC[name]))
    # C mini: size function under each type code, reader import widths
    gsz = fx.fn1('GetMMessageFieldFlattenedSize')
    # the type-code switch of the reader sits in MMUnflattenMessage or in a helper of the same file it forwards to
    mun = fx.fn1('MMUnflattenMessage')
    imp = {}
    sw, todo, seen = [], [mun], set()
    while todo and not sw:
        g = todo.pop(0)
        if g.id in seen:
            continue
        seen.add(g.id)
        sw = [n for n in g.walk() if n['k'] == 'SwitchStmt' and any(y.is_call() and (y.get('q') or '') == 'ImportMMessageField' for y in n.walk())]
        if not sw:
            for y in g.walk():
                h = fx.funcs.get(y.get('fn')) if y.is_call() else None
                if h is not None and h.full and h.file == mun.file:
                    todo.append(h)
    if not sw:
        raise AnalysisBroken('MMUnflattenMessage: no switch over the type code that imports field data (looked in %d function(s) of %s)' % (len(seen), mun.file))
    pending = []
    for c in sw[0].role('body')['ch']:
        x = c
        while x is not None and x['k'] in ('CaseStmt', 'DefaultStmt'):
            pending.append(x.get('cv') if x['k'] == 'CaseStmt' else 'default')
            x = x['ch'][-1] if x['ch'] else None
        if x is None:
            continue
        calls = [y for y in x.walk() if y.is_call() and (y.get('q') or '') == 'ImportMMessageField']
        if calls and len(calls[0].args()) >= 6:
            for cv in pending:
                imp[cv] = calls[0].args()[5].get('v')
        pending = []
    tcname = {v: k for k, v in tcs.items()}
    for name in sorted(DOC):
        tc = tcs[name]
        # size side
        try:
            ev = E.Evaluator(fx, consts={'typeCode': tc, 'includeHeaders': 0})
            env = {gsz.params[1]['d']: E.P(0)}
            sz = ev.fn_value(gsz, env)
        except E.Outside as e:
            raise AnalysisBroken('GetMMessageFieldFlattenedSize(%s) outside the fragment: %s' % (name, e))
        t = E.pstr(sz)
        if DOC[name][0] == 'fixed':
            # fixed types: numItems*itemSize with itemSize given by the importer
            ok = ('itemSize' in t and 'numItems' in t and '4' not in t.split(' + ')) and imp.get(tc) == DOC[name][1]
            how = 'size %s; reader imports items of %s bytes' % (t, imp.get(tc))
        elif DOC[name][0] == 'prefix':
            ok = bool(re.search(r'4\*[^+]*numItems', t)) and not re.search(r'(^|\+ )4( \+|$)', t)
            how = 'size %s' % t
        else:
            ok = bool(re.search(r'4\*[^+]*numItems', t)) and bool(re.search(r'(^|\+ )4( \+|$)', t))
            how = 'size %s' % t
        res.ob('SHAPE', gsz.where(), 'C mini codec for %s has the documented shape %s' % (name, DOC[name]), ok, how=how, function='C-mini:' + name, key='SHAPE|cmini|%s' % name,
               message='MiniMessage.c sizes/imports %s as [%s], the documented wire format is %s' % (name, how, DOC[name]))
    # Python
    pshape = py.size_shapes()
    pw, pr = py.codec_widths('Flatten'), py.codec_widths('Unflatten')
    for name in sorted(DOC):
        ok = pshape.get(name) == DOC[name]
        how = 'GetFieldContentsLength %s' % (pshape.get(name),)
        if DOC[name][0] == 'fixed':
            k = DOC[name][1]
            okw = pw.get(name) == set([k])
            okr = pr.get(name) == set([k])
            ok = ok and okw and okr
            how += '; writer widths %s; reader widths %s' % (sorted(pw.get(name, [])), sorted(pr.get(name, [])))
        res.ob('SHAPE', 'lang/python3/message.py', 'Python codec for %s has the documented shape %s' % (name, DOC[name]), ok, how=how, function='Python:' + name, key='SHAPE|python|%s' % name,
               message='message.py handles %s as [%s], the documented wire format is %s' % (name, how, DOC[name]))
    # the table MessageField::Unflatten uses to choose between the single-item and the array reader gives the documented item width for every fixed-size type (and 0 for the others)
    # the item size the C++ reader divides the payload length by, evaluated per type code at its use site (whatever helper provides it)
    C01.item_size_at_use_rule(res, fx, tcs)
    # ------------------------------------------------------------------------------------------- reader accepts what the writers produce
    C01.exact_fit_rule(res, fx)
    C01.min_entry_rule(res, fx)
    from . import C03
    C03.recv_capacity_rule(res, fx)
    from . import micro as MI
    MI.minsize_rule(res, sorted((f_ for f_ in fx.funcs.values() if f_.full and f_.file == MI.MICRO), key=lambda f_: f_.line), 'SHAPE')
    # C micro writer: the item-count word of a variable-size field grows by the number of items the call appends
    res.rule('MICRO-COUNT', 'MicroMessage.c: an adder that maintains a count header (UMWriteInt32(hdr, UMReadInt32(hdr) + k)) adds k = the bound of its item loop, or 1 when it appends a single item', floor=2)
    n_mc = 0
    for f in sorted((f for f in fx.funcs.values() if f.full and f.file.endswith('micromessage/MicroMessage.c')), key=lambda f: f.line):
        for c in f.walk():
            if not (c.is_call() and (c.get('q') or '') == 'UMWriteInt32' and len(c.args()) == 2):
                continue
            v = A.strip_casts(c.args()[1])
            if v['k'] != 'BinaryOperator' or v.get('op') != '+':
                continue
            inc = None
            for (a_, b_) in ((v['ch'][0], v['ch'][1]), (v['ch'][1], v['ch'][0])):      # old count + k, in either order
                rd = [x for x in a_.walk() if x.is_call() and (x.get('q') or '') == 'UMReadInt32' and x.args() and A.strip_casts(x.args()[0]).get('d') == A.strip_casts(c.args()[0]).get('d')]
                if rd and 'd' in A.strip_casts(c.args()[0]):
                    inc = A.strip_casts(b_)
                    break
            if inc is None:
                continue
            loops = [l for l in f.walk() if l['k'] == 'ForStmt']
            bound = None
            for l in loops:
                cond = l.role('cond') if hasattr(l, 'role') else None
                for (_l, op_, b) in (A.rel_forms(cond, True) if cond is not None else ()):
                    if op_ == '<' and b['k'] == 'DeclRefExpr' and 'd' in b and any(p_['d'] == b['d'] for p_ in f.params):
                        bound = b
            n_mc += 1
            ok = (bound is not None and inc.get('d') == bound['d']) or (bound is None and inc.get('v') == 1)
            res.ob('MICRO-COUNT', f.where(c), '%s: count header grows by %s' % (f.q, bound.text() if bound is not None else '1'), ok, how='increment `%s`' % inc.text(20), function=f.q, key='MICRO-COUNT|%s' % f.q,
                   message='%s appends %s item(s) but increases the field\'s item-count word by `%s`: the bytes differ from what the other implementations write for the same content, and the C++ parser '
                           'rejects the field' % (f.q, bound.text() if bound is not None else 'one', inc.text(20)))
    if n_mc < 2:
        raise AnalysisBroken('MICRO-COUNT: %d count-header updates found in MicroMessage.c' % n_mc)
    # ------------------------------------------------------------------------------------------- PY-EFFECT
    py_effect_rule(res, py)
    # ------------------------------------------------------------------------------------------- HEADER
    res.rule('HEADER', 'every writer starts a Message with three 32-bit words: protocol version constant, what code, field count', floor=3)
    ver = int(fx.macros['CURRENT_PROTOCOL_VERSION'][0]['body'].split()[0])
    mf = [f for f in fx.funcs.values() if f.full and f.q == 'muscle::Message::Flatten'][0]
    wr = sorted((c for c in mf.walk() if c['k'] == 'CXXMemberCallExpr' and (c.get('q') or '').endswith('DataFlattenerHelper::WriteInt32')), key=lambda c: c['i'])
    ok = len(wr) >= 3 and wr[0].args()[0].get('v') == ver and A.strip_casts(wr[1].args()[0]).get('n') == 'what' and \
        any(c.is_call() and (c.get('q') or '').endswith('EndianConverter::Export') for c in mf.walk())
    first_loop = min((n['i'] for n in mf.walk() if n['k'] == 'ForStmt'), default=1 << 30)
    ok = ok and all(w['i'] < first_loop for w in wr[:3])
    res.ob('HEADER', mf.where(), 'C++ Message::Flatten: version constant, what, count placeholder (filled in at the end) before the first field', ok, function=mf.q, key='HEADER|cpp',
           message='Message::Flatten no longer starts with [CURRENT_PROTOCOL_VERSION, what, field count]')
    cf = fx.fn1('MMFlattenMessage')
    wds = sorted((c for c in cf.walk() if c.is_call() and (c.get('q') or '') == 'WriteData'), key=lambda c: c['i'])
    srcs = []
    for c in wds[:3]:
        a = A.strip_casts(c.args()[2])
        src = None
        for x in a.walk():
            if x['k'] == 'DeclRefExpr' and 'd' in x:
                for v in cf.walk():
                    if v['k'] == 'VarDecl' and v['d'] == x['d'] and v['ch']:
                        init = v['ch'][0]
                        if init.get('v') == ver or any(y.get('v') == ver for y in init.walk()):
                            src = 'version'
                        elif any(y.get('n') == 'what' for y in init.walk()):
                            src = 'what'
                        elif any(y['k'] == 'MemberExpr' and y.get('n') == 'numFields' for y in init.walk()) or \
                                any(y['k'] == 'DeclRefExpr' and y.get('d') is not None and counts_fields(cf, y['d']) for y in init.walk()):
                            src = 'count'
        srcs.append(src)
    res.ob('HEADER', cf.where(), 'C mini MMFlattenMessage writes version, what, count', srcs == ['version', 'what', 'count'], how=str(srcs), function=cf.q, key='HEADER|cmini',
           message='MMFlattenMessage writes its header words as %s' % srcs)
    pf = py.method('Flatten')
    okp = False
    for c in pyast.walk(pf):
        if isinstance(c, pyast.Call) and isinstance(c.func, pyast.Attribute) and c.func.attr == 'pack' and c.args and isinstance(c.args[0], pyast.Constant) and c.args[0].value == '<3L' and len(c.args) == 4:
            a = c.args[1:]
            okp = isinstance(a[0], pyast.Name) and a[0].id == 'CURRENT_PROTOCOL_VERSION' and isinstance(a[1], pyast.Attribute) and a[1].attr == 'what' and isinstance(a[2], pyast.Call) and \
                isinstance(a[2].func, pyast.Name) and a[2].func.id == 'len'
    res.ob('HEADER', 'lang/python3/message.py', 'Python Flatten packs "<3L" (CURRENT_PROTOCOL_VERSION, self.what, len(fields))', okp, function='Python:Flatten', key='HEADER|python',
           message='message.py no longer writes the header as "<3L" of version, what, field count')
    um = fx.fn1('UMInitializeToEmptyMessage')
    offs = {}
    def collect(fn, role=None):
        for c in fn.walk():
            if c.is_call() and (c.get('q') or '') == 'UMWriteInt32AtOffset' and len(c.args()) >= 3:
                offs[c.args()[1].get('v')] = 'version' if c.args()[2].get('v') == ver else (role or A.strip_casts(c.args()[2]).get('n'))
    collect(um)
    for c in um.walk():
        if c.is_call() and (c.get('q') or '') in ('UMSetWhatCode', 'UMSetNumFields'):
            h = fx.fn1(c['q'])
            collect(h, 'what' if c['q'] == 'UMSetWhatCode' else 'count')
    res.ob('HEADER', um.where(), 'C micro UMInitializeToEmptyMessage writes version at offset 0, what at 4, count at 8', offs == {0: 'version', 4: 'what', 8: 'count'}, how=str(offs), function=um.q,
           key='HEADER|cmicro', message='MicroMessage initialises its header as %s' % offs)
    # ------------------------------------------------------------------------------------------- ENDIAN
    res.rule('ENDIAN', 'little-endian everywhere: the C++ Message/gateway code resolves to LittleEndianConverter only; the C codecs never use a big-endian conversion macro; every Python struct format starts with "<"', floor=3)
    bad = set()
    n_conv = 0
    for f in fx.funcs.values():
        if f.full and (f.file.startswith('message/') or f.file.startswith('iogateway/MessageIOGateway')):
            for c in f.walk():
                q = c.get('q') or ''
                if c.is_call() and re.search(r'EndianConverter::(Import|Export)$', q):
                    n_conv += 1
                    if not q.startswith('muscle::LittleEndianConverter'):
                        bad.add((f.q, q))
                if c.is_call() and 'DataFlattenerHelper' in (c.get('fn') or '') and 'LittleEndian' not in (c.get('fn') or ''):
                    bad.add((f.q, c.get('fn')))
    res.ob('ENDIAN', 'support/EndianConverter.h', 'C++ Message and stream-gateway code converts through LittleEndianConverter only (%d conversion calls)' % n_conv, not bad and n_conv > 0, function='DefaultEndianConverter',
           key='ENDIAN|cpp', message='non-little-endian conversions in the Message/gateway code: %s' % sorted(bad)[:3])
    cbad = []
    for u in F.C_UNITS:
        src = open(os.path.join(F.REPO, u)).read()
        src = re.sub(r'/\*.*?\*/', '', src, flags=re.S)
        for m in re.finditer(r'\bB_(HOST_TO_BENDIAN|BENDIAN_TO_HOST)_[A-Z0-9]+\b|\b(htonl|htons|ntohl|ntohs)\b', src):
            cbad.append((u, m.group(0)))
    res.ob('ENDIAN', 'lang/c', 'the C codecs and gateways use no big-endian / network-order conversion', not cbad, function='C', key='ENDIAN|c', message='big-endian conversion in the C code: %s' % cbad[:3])
    fmts = py.struct_formats()
    nb = [x for x in fmts if not x[2].startswith('<')]
    res.ob('ENDIAN', 'lang/python3', 'all %d Python struct formats are explicitly little-endian' % len(fmts), not nb and len(fmts) >= 10, function='Python', key='ENDIAN|python',
           message='struct format(s) without "<": %s' % nb[:3])
    # ------------------------------------------------------------------------------------------- FRAME
    res.rule('FRAME', 'the 8-byte stream frame is [body length][encoding id] in the C++ gateway, both C gateways and the Python transceiver', floor=3)
    g = fx.fn1('MGAddOutgoingMessage')
    lay = {}
    for n in g.walk():
        if n['k'] == 'BinaryOperator' and n.get('op') == '=':
            l = A.strip_casts(n['ch'][0])
            # the frame header: a local uint32 pointer into the freshly allocated buffer, indexed with constants (whatever it is called); the length word is a value
            # that comes from MMGetFlattenedSize()
            base = A.strip_casts(l['ch'][0]) if l['k'] == 'ArraySubscriptExpr' else None
            if l['k'] == 'ArraySubscriptExpr' and 'v' in l['ch'][1] and base is not None and base['k'] == 'DeclRefExpr' and 'unsigned int *' in base.type().replace('uint32', 'unsigned int'):
                r = n['ch'][1]
                is_len = any(x.is_call() and (x.get('q') or '') == 'MMGetFlattenedSize' for x in A.walk_through_locals(g, r))
                lay[l['ch'][1]['v']] = 'encoding' if any('ENCODING' in (x.get('n') or '') for x in r.walk()) else ('length' if is_len else r.text(30))
    res.ob('FRAME', g.where(), 'C mini gateway: h[0] = length, h[1] = encoding', lay == {0: 'length', 1: 'encoding'}, how=str(lay), function=g.q, key='FRAME|cmini', message='MGAddOutgoingMessage lays out the frame as %s' % lay)
    ug = [f for f in fx.funcs.values() if f.full and f.file.endswith('MicroMessageGateway.c') and any(c.is_call() and (c.get('q') or '') == 'UMWriteInt32' for c in f.walk())]
    oku = False
    for f in ug:
        ws = sorted((c for c in f.walk() if c.is_call() and (c.get('q') or '') == 'UMWriteInt32'), key=lambda c: c['i'])
        if len(ws) >= 2:
            a0, a1 = A.strip_casts(ws[0].args()[1]), A.strip_casts(ws[1].args()[1])
            oku = any(x.is_call() and (x.get('q') or '') == 'UMGetFlattenedSize' for x in A.walk_through_locals(f, a0)) and ('ENCODING' in (a1.get('n') or ''))
    res.ob('FRAME', 'lang/c/micromessage/MicroMessageGateway.c', 'C micro gateway writes length then encoding', oku, function='C-micro', key='FRAME|cmicro', message='the micro gateway no longer writes [length][encoding]')
    okp = False
    for c in pyast.walk(py.ttree):
        if isinstance(c, pyast.Call) and isinstance(c.func, pyast.Attribute) and c.func.attr == 'pack' and c.args and isinstance(c.args[0], pyast.Constant) and c.args[0].value == '<2L' and len(c.args) == 3:
            okp = isinstance(c.args[2], pyast.Name) and c.args[2].id == 'MUSCLE_MESSAGE_ENCODING_DEFAULT' and isinstance(c.args[1], pyast.Call)
    res.ob('FRAME', 'lang/python3/message_transceiver_thread.py', 'Python transceiver packs "<2L" (FlattenedSize(), MUSCLE_MESSAGE_ENCODING_DEFAULT)', okp, function='Python:transceiver', key='FRAME|python',
           message='message_transceiver_thread.py no longer frames Messages as "<2L" of length and default encoding')
    py_recv_rule(res, py)
    cmini_consistency_rules(res, fx)
    c_unlink_rule(res, fx)
    cmini_null_slot_rule(res, fx)
    # the header's encoding word has to describe the body it precedes (the rule lives with the zlib stream discipline in C03; here it is the header/body agreement of the frame)
    from .C03 import codec_step_rule
    codec_step_rule(res, fx, min_sites=1)
    res.explanation = ('Static cross-check of the four Message codecs shipped in the repository against each other and against the documented layout, as tables: constants from macro/enum/variable/Python-ast records; '
                       'per-type payload shapes from symbolic evaluation of the C++ array serialisers and of the C size function under each type-code constraint, from the C import table, and from the Python '
                       'size function, struct formats and array type codes; header word sources; byte-order discipline; the 8-byte stream frame. A change made consistently on both C++ sides still disagrees '
                       'with the other three tables. Equality of decoded content is not decided.')
    res.assumptions = ['the documented table (DOC in rules/C08.py) transcribes the layout comment in Message.cpp and the property text']
    res.not_decided = ['value-level decode equality between implementations', 'the csharp/java/delphi/python2 ports (not named by the property)']


def py_recv_rule(res, py):
    """RECV-EXACT (Python transceiver): recv(n) may return any number of bytes up to n, and the frame boundary is found by `len(acc) == want`; so a recv() whose result is
    appended to such an accumulator must ask for exactly the bytes still missing (`want - len(acc)`), or the accumulator swallows the start of what follows and the
    equality test never fires again."""
    res.rule('RECV-EXACT', 'message_transceiver_thread.py: a recv() whose result is appended to an accumulator that is compared with a wanted length by `len(acc) == want` requests '
                           '`want - len(acc)` bytes (never more than what is missing from the current frame part)', floor=2)
    n_sites = 0
    for fn in (x for x in pyast.walk(py.ttree) if isinstance(x, pyast.FunctionDef)):
        # single simple assignments name = expr (used to look through `remaining = want - len(acc)`)
        assigns = {}
        for a in pyast.walk(fn):
            if isinstance(a, pyast.Assign) and len(a.targets) == 1 and isinstance(a.targets[0], pyast.Name):
                assigns.setdefault(a.targets[0].id, []).append(a.value)
        wants = {}   # accumulator name -> [dump of the wanted-length expression]
        for c in pyast.walk(fn):
            if isinstance(c, pyast.Compare) and len(c.ops) == 1 and isinstance(c.ops[0], (pyast.Eq, pyast.GtE)) and len(c.comparators) == 1:
                for (l, r) in ((c.left, c.comparators[0]), (c.comparators[0], c.left)):
                    if isinstance(l, pyast.Call) and isinstance(l.func, pyast.Name) and l.func.id == 'len' and len(l.args) == 1 and isinstance(l.args[0], pyast.Name):
                        wants.setdefault(l.args[0].id, []).append(pyast.dump(r))
        for blk in pyast.walk(fn):
            for body in (getattr(blk, 'body', None), getattr(blk, 'orelse', None)):
                if not isinstance(body, list):
                    continue
                for (i, st) in enumerate(body):
                    if not (isinstance(st, pyast.Assign) and len(st.targets) == 1 and isinstance(st.targets[0], pyast.Name) and isinstance(st.value, pyast.Call)
                            and isinstance(st.value.func, pyast.Attribute) and st.value.func.attr == 'recv' and len(st.value.args) >= 1):
                        continue
                    got = st.targets[0].id
                    acc = None
                    for later in body[i + 1:]:
                        for a in pyast.walk(later):
                            if isinstance(a, pyast.Assign) and len(a.targets) == 1 and isinstance(a.targets[0], pyast.Name) and isinstance(a.value, pyast.BinOp) and isinstance(a.value.op, pyast.Add) \
                                    and isinstance(a.value.left, pyast.Name) and a.value.left.id == a.targets[0].id and isinstance(a.value.right, pyast.Name) and a.value.right.id == got:
                                acc = a.targets[0].id
                            if isinstance(a, pyast.AugAssign) and isinstance(a.op, pyast.Add) and isinstance(a.target, pyast.Name) and isinstance(a.value, pyast.Name) and a.value.id == got:
                                acc = a.target.id
                    if acc is None or acc not in wants:
                        continue
                    n_sites += 1
                    def exact(e, depth=0):
                        if isinstance(e, pyast.BinOp) and isinstance(e.op, pyast.Sub) and pyast.dump(e.left) in wants[acc] and isinstance(e.right, pyast.Call) and isinstance(e.right.func, pyast.Name) \
                                and e.right.func.id == 'len' and len(e.right.args) == 1 and isinstance(e.right.args[0], pyast.Name) and e.right.args[0].id == acc:
                            return True
                        if isinstance(e, pyast.Call) and isinstance(e.func, pyast.Name) and e.func.id == 'min':
                            return any(exact(x, depth) for x in e.args)
                        if isinstance(e, pyast.Name) and depth < 2 and len(assigns.get(e.id, [])) == 1:
                            return exact(assigns[e.id][0], depth + 1)
                        return False
                    ok = exact(st.value.args[0])
                    res.ob('RECV-EXACT', 'lang/python3/message_transceiver_thread.py:%d' % st.lineno, 'recv() feeding `%s` asks for what `len(%s) == …` still misses' % (acc, acc), ok, function='Python:transceiver',
                           key='RECV-EXACT|%s|%s' % (fn.name, acc), how=pyast.unparse(st.value.args[0]) if hasattr(pyast, 'unparse') else '',
                           message='message_transceiver_thread.py:%d requests %s bytes for the accumulator `%s` whose completion test is len(%s) == <wanted>: recv() may then return bytes of the next '
                                   'frame part, the accumulator grows past the wanted length, the equality never holds again and every following Message is swallowed'
                                   % (st.lineno, pyast.unparse(st.value.args[0]) if hasattr(pyast, 'unparse') else '?', acc, acc))
    if n_sites < 2:
        raise AnalysisBroken('RECV-EXACT: fewer than 2 accumulating recv() sites found in message_transceiver_thread.py (%d)' % n_sites)


def cmini_null_slot_rule(res, fx):
    """the mini codec writes a 12-byte empty Message for a NULL slot of a Message field (the protocol has no NULL); the size function, the length word and the writer are three
    sites that each decide what a NULL slot contributes, and they have to decide the same"""
    res.rule('NULL-SLOT-AGREE', 'MiniMessage.c: every site that asks MMGetFlattenedSize() about a sub-Message slot under a NULL test of that slot gives the NULL alternative the same treatment '
                                '(a non-zero placeholder size at all sites, or nothing at all sites)', floor=2)
    sites = []
    for f in sorted((g for g in fx.funcs.values() if g.full and g.file.endswith('minimessage/MiniMessage.c')), key=lambda g: g.line):
        for c in f.walk():
            if not (c.is_call() and (c.get('q') or '') == 'MMGetFlattenedSize' and c.args()):
                continue
            key = A.render_key(c.args()[0])
            verdict = None
            prev = c
            for a in c.ancestors():
                if a['k'] == 'ConditionalOperator' and len(a['ch']) == 3 and any(x is prev for x in (a['ch'][1], a['ch'][2])):
                    core, pol = P.strip_not(a['ch'][0])
                    if A.render_key(core) == key:
                        other = a['ch'][2] if prev is a['ch'][1] else a['ch'][1]
                        nz = any(isinstance(x.get('v'), int) and x.get('v') != 0 for x in other.walk()) or any(x['k'] == 'UnaryExprOrTypeTraitExpr' for x in other.walk())
                        verdict = 'placeholder' if nz else 'nothing'
                        break
                if a['k'] == 'IfStmt' and a.role('cond') is not None and a.role('then') is not None and any(x is prev for x in a.role('then').walk()):
                    core, pol = P.strip_not(a.role('cond'))
                    if A.render_key(core) == key:
                        el = a.role('else')
                        if el is None:
                            verdict = 'nothing'
                        else:
                            nz = any(isinstance(x.get('v'), int) and x.get('v') != 0 for x in el.walk()) or any(x['k'] == 'UnaryExprOrTypeTraitExpr' for x in el.walk())
                            verdict = 'placeholder' if nz else 'nothing'
                        break
                prev = a
            if verdict is not None:
                sites.append((f, c, verdict))
    if len(sites) < 2:
        raise AnalysisBroken('NULL-SLOT-AGREE: fewer than two NULL-tested MMGetFlattenedSize() sites found in MiniMessage.c (%d)' % len(sites))
    kinds = {}
    for (f, c, v) in sites:
        kinds.setdefault(v, []).append((f, c))
    major = max(kinds.items(), key=lambda kv: len(kv[1]))[0]
    for (f, c, v) in sites:
        res.ob('NULL-SLOT-AGREE', f.where(c), '%s: a NULL sub-Message slot is sized like at the other sites (%s)' % (f.q, major), len(kinds) == 1, function=f.q, key='NULL-SLOT-AGREE|%s|%s' % (f.q, v),
               how=v, message='MiniMessage.c disagrees with itself about NULL sub-Message slots: %s — the size function, the field\'s length word and the writer no longer describe the same bytes, so '
                              'MMFlattenMessage() overruns the buffer MMGetFlattenedSize() sized and the C++ parser rejects or mis-frames the Message'
                              % '; '.join('%s at %s' % (k, ', '.join('%s:%s' % (f_.q, c_.get('l')) for (f_, c_) in v_)) for k, v_ in sorted(kinds.items())))
