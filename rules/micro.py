"""C02, the C *micro* codec (lang/c/micromessage/MicroMessage.c): an in-place reader over a caller-supplied buffer.  Its safety argument is a typestate one:

MICRO-VALIDATOR   IsFieldPointerValid(msg, p) is true only if the three header words of the field at p, its name, its type/length words AND its declared data
                  length lie inside the valid bytes of the buffer.
MICRO-FIELDPTR    every field pointer handed to a header accessor (GetFieldNameLength / GetFieldName / GetFieldTypePointer) is *valid*: it comes from
                  GetFieldByName[Aux] (which return only validated pointers), is dominated by the true edge of IsFieldPointerValid on the same variable,
                  is the writer-side _currentAddField (bytes this process wrote), or is loaded from a struct field all of whose stores are valid-or-NULL
                  (_readFieldCache, the iterator's _currentField); type pointers handed to GetFieldType / GetFieldDataLength / GetFieldData derive from
                  GetFieldTypePointer(valid field).  Helper parameters are valid iff every call site passes a valid value (fixpoint).
MICRO-WALK        inside a validated field the item walkers (UMGetString, UMFindData, UMFindMessage) bound every wire-declared item length by the bytes
                  left in the field (afterEndOfField - cursor) before they advance by it or hand it out as the size of a sub-Message, and the first length
                  word they read through the cursor lies inside the field (cursor <= afterEndOfField tested before the first read).
MICRO-ARRAY       array item getters index only under idx < UMGetNumItemsInArray(handle).
Nothing here executes the codec."""
import re
from msa import ast as A
from msa import guards as G
from msa import cfg as C
from msa import pair as P
from msa.taint import P_canon
from msa.facts import AnalysisBroken

MICRO = 'lang/c/micromessage/MicroMessage.c'
FIELD_ACC = ('GetFieldNameLength', 'GetFieldName', 'GetFieldTypePointer')
FT_ACC = ('GetFieldType', 'GetFieldDataLength', 'GetFieldData')
VALID_RET = ('GetFieldByName', 'GetFieldByNameAux')
TRUSTED_FIELDS = ('_currentAddField',)          # writer side: points into bytes this process produced; NULL for read-only Messages
INVARIANT_FIELDS = ('_readFieldCache', '_currentField')


def q(n):
    return n.get('q') or ''


def is_null(e):
    e = A.strip_casts(e)
    return e.get('v') == 0 or e['k'] in ('GNUNullExpr',)


class Micro(object):
    def __init__(self, fx):
        self.fx = fx
        self.funcs = sorted((f for f in fx.funcs.values() if f.full and f.file == MICRO), key=lambda f: f.line)
        self.byname = {f.q: f for f in self.funcs}
        if len(self.funcs) < 60 or 'IsFieldPointerValid' not in self.byname:
            raise AnalysisBroken('MicroMessage.c: %d functions found, validator %s' % (len(self.funcs), 'present' if 'IsFieldPointerValid' in self.byname else 'missing'))
        self.param_valid = {}       # (function name, param index, kind) -> bool (optimistic fixpoint), kind 'f' field pointer / 't' type pointer
        self.reasons = []

    # ---------------------------------------------------------------- definitions of a local
    def defs_of(self, f, d):
        out = []
        for n in f.walk():
            if n['k'] == 'VarDecl' and n.get('d') == d and n['ch']:
                out.append((n, n['ch'][0]))
            elif n['k'] == 'BinaryOperator' and n.get('op') == '=' and A.strip_casts(n['ch'][0]).get('d') == d and A.strip_casts(n['ch'][0])['k'] == 'DeclRefExpr':
                out.append((n, n['ch'][1]))
            elif n['k'] == 'CompoundAssignOperator' and A.strip_casts(n['ch'][0]).get('d') == d and A.strip_casts(n['ch'][0])['k'] == 'DeclRefExpr':
                out.append((n, None))
        return out

    def guarded_valid(self, f, var_d, use):
        """use is dominated by the true edge of IsFieldPointerValid(msg, var) and var is not redefined between that test and the use"""
        p = P.pos_of(f, use)
        if p is None:
            return False
        for (c, truth) in C.guards_of_block(f, p[0]):
            n, pol = P.strip_not(f.nodes[c])
            if n.is_call() and q(n) == 'IsFieldPointerValid' and len(n.args()) >= 2 and A.strip_casts(n.args()[1]).get('d') == var_d and truth == pol:
                gp = P.pos_of(f, n)
                redefined = False
                for (dn, _) in self.defs_of(f, var_d):
                    dp = P.pos_of(f, dn)
                    if dp and gp and C.can_reach(f, gp, set([dp])) and (C.can_reach(f, dp, set([p])) or (dp[0] == p[0] and dp[1] < p[1])) and not C.can_reach(f, dp, set([gp])):
                        redefined = True
                if not redefined:
                    return True
        return False

    # ---------------------------------------------------------------- classification of expressions
    def field_valid(self, f, e, use, depth=0):
        """is the field-pointer expression e valid at `use`?  returns (bool, why)"""
        e = A.strip_casts(e)
        if depth > 4:
            return False, 'too deep'
        if is_null(e):
            return True, 'NULL'
        if e.is_call() and q(e) in VALID_RET:
            return True, 'result of %s' % q(e)
        if e['k'] == 'MemberExpr' and e.get('n') in TRUSTED_FIELDS:
            return True, 'writer-side %s' % e.get('n')
        if e['k'] == 'MemberExpr' and e.get('n') in INVARIANT_FIELDS:
            return self.field_invariant(e.get('n')), 'loaded from %s (all stores valid-or-NULL)' % e.get('n')
        if e['k'] == 'ConditionalOperator':
            # each arm is judged where it is evaluated (the arms of ?: are separate CFG blocks, dominated by the edges of the condition)
            a, wa = self.field_valid(f, e['ch'][1], A.strip_casts(e['ch'][1]), depth + 1)
            b, wb = self.field_valid(f, e['ch'][2], A.strip_casts(e['ch'][2]), depth + 1)
            return a and b, '%s / %s' % (wa, wb)
        if e['k'] == 'DeclRefExpr' and 'd' in e:
            d = e['d']
            if self.guarded_valid(f, d, use):
                return True, 'IsFieldPointerValid(msg, %s) holds here' % e.get('n')
            for i, p_ in enumerate(f.params):
                if p_['d'] == d:
                    ok = self.param_valid.get((f.q, i, 'f'), True)
                    self.param_uses.add((f.q, i, 'f'))
                    return ok, 'parameter %s (every caller passes a valid field pointer)' % e.get('n')
            ds = self.defs_of(f, d)
            if not ds:
                return False, 'no definition of %s' % e.get('n')
            why = []
            for (dn, rhs) in ds:
                if rhs is None:
                    return False, '%s is advanced arithmetically (line %s) and not re-validated' % (e.get('n'), dn.get('l'))
                ok, w = self.field_valid(f, rhs, dn, depth + 1)
                if not ok:
                    return False, '%s = %s (line %s): %s' % (e.get('n'), rhs.text(50), dn.get('l'), w)
                why.append(w)
            return True, '; '.join(sorted(set(why)))
        return False, '`%s` is computed, not validated' % e.text(50)

    def type_valid(self, f, e, use, depth=0):
        e = A.strip_casts(e)
        if depth > 4:
            return False, 'too deep'
        if e.is_call() and q(e) == 'GetFieldTypePointer' and e.args():
            return self.field_valid(f, e.args()[0], use, depth + 1)
        if e['k'] == 'DeclRefExpr' and 'd' in e:
            d = e['d']
            for i, p_ in enumerate(f.params):
                if p_['d'] == d:
                    ok = self.param_valid.get((f.q, i, 't'), True)
                    self.param_uses.add((f.q, i, 't'))
                    return ok, 'parameter %s (every caller passes the type pointer of a valid field)' % e.get('n')
            ds = self.defs_of(f, d)
            if not ds:
                return False, 'no definition of %s' % e.get('n')
            for (dn, rhs) in ds:
                if rhs is None:
                    return False, '%s is advanced arithmetically' % e.get('n')
                ok, w = self.type_valid(f, rhs, dn, depth + 1)
                if not ok:
                    return False, w
            return True, 'GetFieldTypePointer(valid field)'
        return False, '`%s` is not the type pointer of a validated field' % e.text(50)

    def field_invariant(self, name):
        """every store into struct field `name` is NULL or a valid field pointer"""
        key = ('inv', name)
        if key in self.param_valid:
            return self.param_valid[key]
        self.param_valid[key] = True          # optimistic while computing (stores may load the same field)
        ok = True
        for f in self.funcs:
            for n in f.walk():
                if n['k'] == 'BinaryOperator' and n.get('op') == '=':
                    l = A.strip_casts(n['ch'][0])
                    if l['k'] == 'MemberExpr' and l.get('n') == name:
                        v, w = self.field_valid(f, n['ch'][1], n)
                        if not v:
                            ok = False
                            self.bad_stores.append((f, n, name, w))
        self.param_valid[key] = ok
        return ok

    # ---------------------------------------------------------------- the provenance rule
    def run_fieldptr(self, res, rule='MICRO-FIELDPTR'):
        res.rule(rule, 'MicroMessage.c: every field pointer handed to GetFieldNameLength/GetFieldName/GetFieldTypePointer, and every type pointer handed to GetFieldType/GetFieldDataLength/GetFieldData, '
                       'is valid: result of GetFieldByName[Aux], dominated by IsFieldPointerValid() on the same variable, the writer-side _currentAddField, or loaded from a struct field whose stores are all '
                       'valid-or-NULL; helper parameters by fixpoint over all call sites', floor=30)
        # fixpoint over helper parameters
        for it in range(6):
            self.param_uses = set()
            self.bad_stores = []
            for k in [k for k in self.param_valid if k[0] == 'inv']:
                del self.param_valid[k]
            sites = self.collect()
            new = dict((k, v) for k, v in self.param_valid.items() if k[0] != 'inv')
            # a parameter is valid iff every call site passes a valid value
            for (fn, i, kind) in sorted(self.param_uses):
                g = self.byname.get(fn)
                ok = True
                ncall = 0
                for h in self.funcs:
                    for c in h.walk():
                        if c.is_call() and q(c) == fn and len(c.args()) > i:
                            ncall += 1
                            v, w = (self.field_valid if kind == 'f' else self.type_valid)(h, c.args()[i], c)
                            if not v:
                                ok = False
                if ncall == 0 and g is not None and not g.q.startswith('UM') and False:
                    ok = False
                new[(fn, i, kind)] = ok
            changed = any(new.get(k) != self.param_valid.get(k, True) for k in new)
            for k, v in new.items():
                self.param_valid[k] = v
            if not changed:
                break
        sites = self.collect()
        seen = set()
        bad_fields = set(name for (_, _, name, _) in self.bad_stores)
        derived_bad = set(k for k, v in self.param_valid.items() if k[0] != 'inv' and not v)
        for (f, c, kind, ok, why) in sites:
            if not ok and (any(('loaded from %s' % b) in why for b in bad_fields) or ('parameter' in why and any(k[0] == f.q for k in derived_bad))):
                # a consequence of an unvalidated store (reported below, once, at the store) — not a separate finding
                res.info(rule, f.where(c), '%s: %s(%s): validity depends on %s' % (f.q, q(c), c.args()[0].text(30), why))
                continue
            key = '%s|%s|%s:%s' % (rule, f.q, q(c), A.strip_casts(c.args()[0]).text(30))
            if key in seen and ok:
                continue
            seen.add(key)
            res.ob(rule, f.where(c), '%s: %s(%s) receives a valid %s pointer' % (f.q, q(c), c.args()[0].text(30), 'field' if kind == 'f' else 'type'), ok, how=why, function=f.q, key=key,
                   message='%s: %s(%s) reads through a pointer that was not validated against the buffer (%s): a wire-declared name or data length moves it outside the supplied bytes and the header words '
                           'are read from there' % (f.q, q(c), c.args()[0].text(40), why))
        for (f, n, name, w) in self.bad_stores:
            key = '%s|%s|store:%s' % (rule, f.q, name)
            if key in seen:
                continue
            seen.add(key)
            res.ob(rule, f.where(n), '%s stores only validated field pointers (or NULL) into %s' % (f.q, name), False, function=f.q, key=key,
                   message='%s stores `%s` into %s without IsFieldPointerValid(): every later accessor call on that field (name length, type pointer, data length) reads at an unvalidated address — '
                           '%s' % (f.q, n['ch'][1].text(50), name, w))
        return len(sites)

    def collect(self):
        sites = []
        for f in self.funcs:
            if f.q in FIELD_ACC or f.q in FT_ACC or f.q == 'IsFieldPointerValid':
                continue       # the accessors themselves; the validator computes-then-checks by construction and is judged by MICRO-VALIDATOR
            for c in f.walk():
                if not c.is_call() or not c.args():
                    continue
                if q(c) in FIELD_ACC:
                    ok, why = self.field_valid(f, c.args()[0], c)
                    sites.append((f, c, 'f', ok, why))
                elif q(c) in FT_ACC:
                    ok, why = self.type_valid(f, c.args()[0], c)
                    sites.append((f, c, 't', ok, why))
        return sites

    # ---------------------------------------------------------------- the validator
    def run_validator(self, res, rule='MICRO-VALIDATOR'):
        res.rule(rule, 'IsFieldPointerValid(msg, p) returns true only under: >= 12 valid bytes at p; >= 8 valid bytes at the type pointer; and the valid bytes at the field data compared against the '
                       'declared data length (GetFieldDataLength)', floor=3)
        f = self.byname['IsFieldPointerValid']
        rets = [r for r in f.walk() if r['k'] == 'ReturnStmt' and r['ch'] and A.strip_casts(r['ch'][0]).get('v') != 0]
        if not rets:
            raise AnalysisBroken('IsFieldPointerValid: no return that can be true')
        # atoms anywhere in the function, each must lie on/dominate every true return
        def nvb_calls(e):
            return [x for x in e.walk() if x.is_call() and q(x) == 'GetNumValidBytesAt']
        atoms = {'header': False, 'typewords': False, 'datalen': False}
        how = {}
        pd = f.params[1]['d']
        for n in f.walk():
            if n['k'] != 'BinaryOperator' or n.get('op') not in ('>=', '>', '<', '<='):
                continue
            calls = nvb_calls(n)
            if not calls:
                continue
            other = [x for x in n['ch'] if not nvb_calls(x)]
            arg = A.strip_casts(calls[0].args()[1]) if len(calls[0].args()) > 1 else None
            k = A.strip_casts(other[0]).get('v') if other else None
            ge = n['op'] in ('>=', '>') if nvb_calls(n['ch'][0]) else n['op'] in ('<=', '<')
            if arg is not None and arg.get('d') == pd and k is not None and k >= 12 and ge:
                atoms['header'] = True
                how['header'] = n.text(60)
            elif k is not None and k >= 8 and ge and arg is not None and arg.get('d') != pd:
                atoms['typewords'] = True
                how['typewords'] = n.text(60)
            if other and any(x.is_call() and q(x) == 'GetFieldDataLength' for x in other[0].walk()) and ge:
                atoms['datalen'] = True
                how['datalen'] = n.text(80)
            # through a local:  avail = GetNumValidBytesAt(msg, fData);  avail >= GetFieldDataLength(ftptr)
        for n in f.walk():
            if n['k'] == 'BinaryOperator' and n.get('op') in ('>=', '>', '<', '<=') and not nvb_calls(n):
                sides = [A.strip_casts(x) for x in n['ch']]
                for (a, b, ge) in ((sides[0], sides[1], n['op'] in ('>=', '>')), (sides[1], sides[0], n['op'] in ('<=', '<'))):
                    if a['k'] == 'DeclRefExpr' and 'd' in a and ge and any(x.is_call() and q(x) == 'GetFieldDataLength' for x in b.walk()):
                        for v in f.walk():
                            if v['k'] == 'VarDecl' and v.get('d') == a['d'] and v['ch'] and nvb_calls(v['ch'][0]):
                                atoms['datalen'] = True
                                how['datalen'] = n.text(80)
        msg = {'header': 'fewer than 12 valid bytes at the field pointer are accepted',
               'typewords': 'the type and data-length words are read without 8 valid bytes at the type pointer',
               'datalen': 'the declared data length of the field is never compared with the valid bytes at its data: a field that claims 1000 data bytes in a 27-byte buffer is "valid", and every '
                          'accessor (item count, array handles, sub-Messages) then reads past the buffer'}
        for a in ('header', 'typewords', 'datalen'):
            res.ob(rule, f.where(), 'IsFieldPointerValid checks %s' % a, atoms[a], how=how.get(a), function=f.q, key='%s|IsFieldPointerValid|%s' % (rule, a),
                   message='IsFieldPointerValid: %s' % msg[a])

    # ---------------------------------------------------------------- the item walkers
    def run_walk(self, res, rule='MICRO-WALK'):
        res.rule(rule, 'item walkers inside a validated field: every wire-declared item length is compared with (afterEndOfField - cursor) before the cursor advances by it or it is handed out as a sub-Message '
                       'size, and the cursor is compared with afterEndOfField before the first length word is read through it', floor=6)
        n_ob = 0
        for f in self.funcs:
            ends = [v for v in f.walk() if v['k'] == 'VarDecl' and v['ch'] and any(x.is_call() and q(x) == 'GetFieldData' for x in v['ch'][0].walk())
                    and any(x.is_call() and q(x) == 'GetFieldDataLength' for x in v['ch'][0].walk())]
            if not ends:
                continue
            end_d = ends[0]['d']
            # cursors: pointer locals initialised from the type pointer plus a constant
            curs = [v for v in f.walk() if v['k'] == 'VarDecl' and v['ch'] and v.type().rstrip().endswith('*') and v['d'] != end_d
                    and A.strip_casts(v['ch'][0])['k'] == 'BinaryOperator' and A.strip_casts(v['ch'][0]).get('op') == '+' and 'v' in A.strip_casts(A.strip_casts(v['ch'][0])['ch'][1])]
            if not curs:
                continue
            for cur in curs:
                cd = cur['d']

                def expand1(e):
                    """the nodes of e, with every single-definition local replaced (once) by its initialiser: `left = end - cursor; if (size > left)` reads as `size > end - cursor`"""
                    out = []
                    for x in e.walk():
                        out.append(x)
                        if x['k'] == 'DeclRefExpr' and x.get('d') not in (cd, end_d):
                            ini = G.local_init(f, x)
                            if ini is not x and ini is not A.strip_casts(x):
                                out += list(ini.walk())
                    return out

                def cmp_end(n):
                    """relational comparison that involves both the cursor and afterEndOfField (directly, or through a named local holding their difference)"""
                    return n['k'] == 'BinaryOperator' and n.get('op') in ('<', '<=', '>', '>=') and any(x['k'] == 'DeclRefExpr' and x.get('d') == cd for x in expand1(n)) \
                        and any(x['k'] == 'DeclRefExpr' and x.get('d') == end_d for x in expand1(n))
                # (1) advances and hand-outs
                for n in f.walk():
                    size = None
                    what = None
                    if n['k'] == 'CompoundAssignOperator' and n.get('op') == '+=' and A.strip_casts(n['ch'][0]).get('d') == cd:
                        size, what = n['ch'][1], 'advance of %s' % cur.get('n')
                    elif n.is_call() and q(n) == 'UMInitializeWithExistingData' and len(n.args()) >= 3 and any(x['k'] == 'DeclRefExpr' and x.get('d') == cd for x in n.args()[1].walk()):
                        size, what = n.args()[2], 'sub-Message size at %s' % cur.get('n')
                    elif n['k'] == 'BinaryOperator' and n.get('op') == '=' and A.strip_casts(n['ch'][0])['k'] == 'UnaryOperator' and A.strip_casts(n['ch'][0]).get('op') == '*' \
                            and A.strip_casts(A.strip_casts(n['ch'][0])['ch'][0]).get('d') in set(p_.get('d') for p_ in f.params) and not A.strip_casts(n['ch'][1]).type().rstrip().endswith('*'):
                        # a length handed to the caller through an out-parameter, next to the pointer to the item: it must describe bytes that lie inside the field
                        rhs = n['ch'][1]
                        reads_cur = any(x.is_call() and q(x) == 'UMReadInt32' and x.args() and any(y['k'] == 'DeclRefExpr' and y.get('d') == cd for y in x.args()[0].walk()) for x in rhs.walk())
                        for x in rhs.walk():
                            if x['k'] == 'DeclRefExpr' and 'd' in x:
                                for (dn, r0) in self.defs_of(f, x['d']):
                                    if r0 is not None and any(y.is_call() and q(y) == 'UMReadInt32' and y.args() and any(z['k'] == 'DeclRefExpr' and z.get('d') == cd for z in y.args()[0].walk()) for y in r0.walk()):
                                        reads_cur = True
                        if reads_cur:
                            size, what = rhs, 'item length handed out through *%s' % A.strip_casts(A.strip_casts(n['ch'][0])['ch'][0]).get('n')
                    if size is None or 'v' in A.strip_casts(size):
                        continue
                    n_ob += 1
                    # the wire value(s) in the size: locals defined from UMReadInt32, or the call itself
                    wire = set()
                    direct = [x for x in size.walk() if x.is_call() and q(x) == 'UMReadInt32']
                    for x in size.walk():
                        if x['k'] == 'DeclRefExpr' and 'd' in x:
                            for (dn, rhs) in self.defs_of(f, x['d']):
                                if rhs is not None and any(y.is_call() and q(y) == 'UMReadInt32' for y in rhs.walk()):
                                    wire.add(x['d'])
                    ok, how = False, None
                    p = P.pos_of(f, n)
                    for (c, truth) in (C.guards_of_block(f, p[0]) if p else []):
                        g = f.nodes[c]
                        if not cmp_end(g):
                            continue
                        # which side holds the size?  error edge must be the one on which size > remaining
                        l, r = g['ch']
                        l_has_rem = any(x['k'] == 'DeclRefExpr' and x.get('d') == end_d for x in expand1(l))
                        szside, op = (r, {'<': '>', '<=': '>=', '>': '<', '>=': '<='}[g['op']]) if l_has_rem else (l, g['op'])
                        szvars = set(x.get('d') for x in szside.walk() if x['k'] == 'DeclRefExpr')
                        covers = (wire and wire <= szvars) or \
                                 (direct and any(y.is_call() and q(y) == 'UMReadInt32' and P_canon(y) == P_canon(direct[0]) for y in szside.walk()))
                        if not covers and direct:
                            # the test used a local that holds the very same word (same read expression, cursor not changed in between)
                            for vd in szvars:
                                for (dn, rhs) in self.defs_of(f, vd):
                                    if rhs is not None and P_canon(A.strip_casts(rhs)) == P_canon(direct[0]) and C.dominates(f, dn['i'], n['i']):
                                        covers = True
                        # accepted: (size OP remaining) with OP in > / >= on the FALSE edge, or < / <= on the TRUE edge
                        if covers and ((op in ('>', '>=') and not truth) or (op in ('<', '<=') and truth)):
                            ok, how = True, '%s is %s' % (g.text(70), truth)
                    res.ob(rule, f.where(n), '%s: %s by `%s` is bounded by the bytes left in the field' % (f.q, what, size.text(40)), ok, how=how, function=f.q,
                           key='%s|%s|%s:%s' % (rule, f.q, 'advance' if 'advance' in what else 'outlen' if 'handed out through' in what else 'handout', cur.get('n')),
                           message='%s: %s uses the wire-declared `%s` without a dominating comparison against (%s - %s): the %s extends past the end of the field (and of the supplied buffer)'
                                   % (f.q, what, size.text(40), ends[0].get('n'), cur.get('n'), 'cursor' if 'advance' in what else 'item (pointer, length) handed to the caller' if 'handed out through' in what
                                      else 'sub-Message handed to the caller'))
                # (2) the first read through the cursor
                reads = [x for x in f.walk() if x.is_call() and q(x) == 'UMReadInt32' and x.args() and any(y['k'] == 'DeclRefExpr' and y.get('d') == cd for y in x.args()[0].walk())]
                if reads:
                    n_ob += 1
                    cp = P.pos_of(f, cur)
                    bad = None
                    for rd in reads:
                        rp = P.pos_of(f, rd)
                        okr = False
                        for (c, truth) in (C.guards_of_block(f, rp[0]) if rp else []):
                            g = f.nodes[c]
                            if cmp_end(g) and not any(x.is_call() and q(x) == 'UMReadInt32' for x in g.walk()):
                                okr = True       # a pure position test  cursor vs end  (either polarity form; its error edge leaves the function)
                        if not okr:
                            bad = rd
                    res.ob(rule, f.where(reads[0]), '%s: `%s` is compared with %s before a length word is read through it' % (f.q, cur.get('n'), ends[0].get('n')), bad is None, function=f.q,
                           key='%s|%s|first-read:%s' % (rule, f.q, cur.get('n')),
                           message='%s reads a length word through `%s` (line %s) without first comparing that cursor with %s: for a field whose data is shorter than the fixed offsets assumed '
                                   '(e.g. only the count word) the word lies outside the field, and outside the buffer when the field is the last one' % (f.q, cur.get('n'), bad.get('l') if bad else '', ends[0].get('n')))
        return n_ob

    def run_minsize(self, res, rule='MICRO-WALK'):
        return minsize_rule(res, self.funcs, rule)

    def run_array(self, res, rule='MICRO-ARRAY'):
        res.rule(rule, 'every UMGet*FromArray getter forms the item pointer only under idx < UMGetNumItemsInArray(handle)', floor=8)
        n = 0
        for f in self.funcs:
            if not re.match(r'^UMGet\w+FromArray$', f.q):
                continue
            n += 1
            # every use of the handle's item storage is dominated by  idx < item count  (the ?: arms are separate CFG blocks, so the spelling and the arm order do not matter)
            uses = [x for x in f.walk() if x['k'] == 'MemberExpr' and x.get('n') == '_itemData']
            ok = bool(uses)
            for u in uses:
                dom = False
                for (cn, t) in G.atoms_at(f, u):
                    for (l, op, r) in A.rel_forms(cn, t):
                        if op == '<' and any((x.is_call() and q(x) == 'UMGetNumItemsInArray') or (x['k'] == 'MemberExpr' and x.get('n') == '_numItems') for x in r.walk()):
                            dom = True
                ok = ok and dom
            res.ob(rule, f.where(), '%s indexes under idx < UMGetNumItemsInArray(handle)' % f.q, ok, function=f.q, key='%s|%s' % (rule, f.q),
                   message='%s forms an item pointer without the idx < UMGetNumItemsInArray(handle) test: an index past the field reads outside the buffer' % f.q)
        return n


def minsize_rule(res, funcs, rule='MICRO-WALK'):
    """an empty Message flattens to exactly MESSAGE_HEADER_SIZE bytes: size checks against it must be strict"""
    n = 0
    for f in funcs:
        for c in f.walk():
            if c['k'] == 'BinaryOperator' and c.get('op') in ('<', '<=', '>', '>=') and any(x['k'] == 'DeclRefExpr' and x.get('n') == 'MESSAGE_HEADER_SIZE' for x in c.walk()):
                l_is_const = any(x['k'] == 'DeclRefExpr' and x.get('n') == 'MESSAGE_HEADER_SIZE' for x in c['ch'][0].walk())
                op = c['op'] if not l_is_const else {'<': '>', '<=': '>=', '>': '<', '>=': '<='}[c['op']]
                if any(x['k'] == 'MemberExpr' and x.get('n') in ('_numValidBytes', '_bufferSize') for x in c.walk()) and op in ('>', '>='):
                    # `valid bytes > header size` / `>=`: "has at least one field" / "is a Message at all" tests, both legitimate
                    continue
                n += 1
                res.ob(rule, f.where(c), '%s: `%s` accepts a size equal to MESSAGE_HEADER_SIZE (an empty Message)' % (f.q, c.text(50)), op in ('<', '>='), function=f.q,
                       key='%s|%s|min-size:%s' % (rule, f.q, c.get('l')),
                       message='%s rejects a sub-Message of exactly MESSAGE_HEADER_SIZE bytes (`%s`): that is what an empty Message flattens to in every implementation, so a field containing an empty '
                               'Message cannot be read although the other codecs produce and accept it' % (f.q, c.text(50)))
    return n



def run(res, fx):
    m = Micro(fx)
    m.run_validator(res)
    ns = m.run_fieldptr(res)
    nw = m.run_walk(res)
    nw += m.run_minsize(res)
    na = m.run_array(res)
    res.extra['micro'] = {'functions': len(m.funcs), 'accessor_sites': ns, 'walker_obligations': nw, 'array_getters': na,
                          'helper_parameters': sorted('%s#%d:%s=%s' % (k[0], k[1], k[2], v) for k, v in m.param_valid.items() if k[0] != 'inv')}
