"""C06  A session can alter only its own subtree, and leaves no trace when it departs.
WRITE-ROOT (traversals that mutate/collect are rooted at the session's own directory), MUT-PROVENANCE (receiver of every direct
DataNode mutator comes from the own subtree), OWN-ID, PRIV, TEARDOWN-PAIR.  See DESIGN.md 3.10 and section 4 (C06)."""
import re
from msa import pair as P
from msa import ast as A
from msa import cfg as C
from msa.taint import P_canon
from msa.facts import AnalysisBroken
from . import common

SRS = 'muscle::StorageReflectSession'
MUT = re.compile(r'^muscle::DataNode::(SetData|PutChild|RemoveChild|InsertOrderedChild|ReorderChild|InsertIndexEntryAt|RemoveIndexEntryAt|RemoveIndexEntry|SetParent)$')
OKP = ('OWN', 'STRICT', 'OWNISH', 'FRESH')


def is_session_dir(n):
    """*_sessionDir()  /  _sessionDir()"""
    n = A.strip_casts(n)
    if n['k'] == 'UnaryOperator' and n.get('op') == '*':
        n = A.strip_casts(n['ch'][0])
    if n['k'] == 'CXXOperatorCallExpr' and (n.get('q') or '').endswith('::operator()') and len(n['ch']) >= 2:
        b = A.strip_casts(n['ch'][1])
        return b['k'] == 'MemberExpr' and b.get('q') == SRS + '::_sessionDir' and A.is_this_member(b)
    if n['k'] == 'CXXMemberCallExpr' and (n.get('q') or '').endswith('::GetItemPointer'):
        r = n.receiver()
        return r is not None and A.strip_casts(r).get('q') == SRS + '::_sessionDir'
    return False


def join(a, b):
    if a is None:
        return b
    if b is None:
        return a
    if a == b:
        return a
    if a == 'FRESH':
        return b
    if b == 'FRESH':
        return a
    s = set([a, b])
    if s <= set(['OWN', 'STRICT', 'OWNISH']):
        return 'OWNISH'
    for bad in ('UNKNOWN', 'GLOBAL', 'OUTSIDE'):
        if bad in s:
            return bad
    return 'UNKNOWN'


def child(p):
    return {None: None, 'OWN': 'STRICT', 'STRICT': 'STRICT', 'OWNISH': 'STRICT', 'FRESH': 'FRESH', 'GLOBAL': 'OUTSIDE', 'OUTSIDE': 'OUTSIDE'}.get(p, 'UNKNOWN')


def parent(p):
    return {None: None, 'STRICT': 'OWNISH', 'OWN': 'OUTSIDE', 'OWNISH': 'OUTSIDE', 'FRESH': 'FRESH', 'GLOBAL': 'OUTSIDE', 'OUTSIDE': 'OUTSIDE'}.get(p, 'UNKNOWN')


class Prov(object):
    def __init__(self, fx, trav):
        self.fx = fx
        self.trav = trav          # callback method q -> list of (site fn, call node, root is own?)
        self.memo = {}
        self.active = set()

    # -------------------------------------------------------------- definitions of a local reaching a use
    def defs_of(self, f, d):
        cache = getattr(f, '_provdefs', None)
        if cache is None:
            cache = f._provdefs = {}
            for n in f.walk():
                k = n['k']
                if k == 'VarDecl' and n['ch']:
                    cache.setdefault(n['d'], []).append(('init', n, n['ch'][0]))
                elif k in ('BinaryOperator',) and n.get('op') == '=':
                    l = A.strip_casts(n['ch'][0])
                    if l['k'] == 'DeclRefExpr' and 'd' in l:
                        cache.setdefault(l['d'], []).append(('assign', n, n['ch'][1]))
                elif k == 'CXXOperatorCallExpr' and (n.get('q') or '').endswith('::operator=') and len(n['ch']) >= 3:
                    l = A.strip_casts(n['ch'][1])
                    if l['k'] == 'DeclRefExpr' and 'd' in l:
                        cache.setdefault(l['d'], []).append(('assign', n, n['ch'][2]))
                elif k == 'CXXMemberCallExpr':
                    q = n.get('q') or ''
                    if q.endswith('DataNode::GetChild') or re.search(r'Hashtable(Base|Mid)?::Get$', q):
                        for a, pk in zip(n.args(), A.param_kinds(n)):
                            if pk == 'mref':
                                a2 = A.strip_casts(a)
                                if a2['k'] == 'DeclRefExpr' and 'd' in a2:
                                    cache.setdefault(a2['d'], []).append(('outchild', n, n))
        return cache.get(d, [])

    def of_var(self, f, use, d, depth):
        defs = self.defs_of(f, d)
        for i, p in enumerate(f.params):
            if p['d'] == d:
                return self.of_param(f, i, depth)
        if not defs:
            return 'UNKNOWN'
        up = P.pos_of(f, use)
        res = None
        dpos = [(kind, n, rhs, P.pos_of(f, n)) for (kind, n, rhs) in defs]
        for (kind, n, rhs, dp) in dpos:
            if dp is None or up is None:
                reaches = True
            else:
                others = set(x[3] for x in dpos if x[3] is not None and x[3] != dp)
                reaches = C.can_reach(f, dp, set([up]), avoid_points=others) or (len(dpos) == 1)
            if not reaches:
                continue
            if kind == 'outchild':
                r = n.receiver()
                pv = child(self.of_expr(f, r, depth + 1)) if r is not None else 'UNKNOWN'
            else:
                pv = self.of_expr(f, rhs, depth + 1)
            res = join(res, pv)
        return res

    def of_param(self, f, idx, depth):
        # traversal callback: node parameter
        if f.q in self.trav and idx == 0:
            sites = self.trav[f.q]
            return 'STRICT' if sites and all(own for (_, _, own) in sites) else 'GLOBAL'
        if depth > 4:
            return 'UNKNOWN'
        res = None
        n_sites = 0
        for g in self.fx.funcs.values():
            if not g.full or g.cls != f.cls:
                continue
            for c in g.walk():
                if c.is_call() and c.get('fn') == f.id:
                    args = c.args()
                    if idx < len(args):
                        n_sites += 1
                        res = join(res, self.of_expr(g, args[idx], depth + 1))
        return res if n_sites else 'UNKNOWN'

    def of_expr(self, f, n, depth=0):
        if n is None:
            return 'UNKNOWN'
        key = (f.id, n['i'])
        if key in self.memo:
            return self.memo[key]
        if key in self.active or depth > 8:
            return None
        self.active.add(key)
        try:
            r = self._of_expr(f, n, depth)
        finally:
            self.active.discard(key)
        if r is not None:
            self.memo[key] = r
        return r

    def _of_expr(self, f, n, depth):
        n = A.strip_casts(n)
        k = n['k']
        if is_session_dir(n):
            return 'OWN'
        if k == 'UnaryOperator' and n.get('op') in ('*', '&'):
            return self.of_expr(f, n['ch'][0], depth)
        if k == 'CXXOperatorCallExpr':
            opn = (n.get('q') or '').split('::')[-1]
            if opn in ('operator()', 'operator->', 'operator*') and len(n['ch']) >= 2:
                return self.of_expr(f, n['ch'][1], depth)
            if opn == 'operator[]' and len(n['ch']) >= 2:
                return self.of_container(f, n['ch'][1], depth)
            return 'UNKNOWN'
        if k == 'CXXMemberCallExpr':
            q = n.get('q') or ''
            r = n.receiver()
            if q.endswith('::GetItemPointer') or q.endswith('Ref::operator()'):
                return self.of_expr(f, r, depth)
            if q == 'muscle::DataNode::GetParent':
                return parent(self.of_expr(f, r, depth))
            if q == 'muscle::DataNode::InsertOrderedChild':
                return child(self.of_expr(f, r, depth))
            if q.endswith('::GetGlobalRoot'):
                return 'GLOBAL'
            if q == SRS + '::GetNewDataNode':
                return 'FRESH'
            if q.endswith('Queue::GetItemAt') or q.endswith('Queue::Head') or q.endswith('Queue::Tail'):
                return self.of_container(f, r, depth)
            return 'UNKNOWN'
        if k == 'CallExpr':
            q = n.get('q') or ''
            if q.endswith('::GetGlobalRoot'):
                return 'GLOBAL'
            if q == SRS + '::GetNewDataNode':
                return 'FRESH'
            return 'UNKNOWN'
        if k == 'DeclRefExpr' and 'd' in n:
            return self.of_var(f, n, n['d'], depth)
        if k in ('CXXConstructExpr', 'CXXTemporaryObjectExpr') and len(n['ch']) >= 1:
            return self.of_expr(f, n['ch'][0], depth)
        if k == 'ConditionalOperator':
            return join(self.of_expr(f, n['ch'][1], depth), self.of_expr(f, n['ch'][2], depth))
        if k == 'CXXThisExpr':
            return 'UNKNOWN'
        return 'UNKNOWN'

    def of_container(self, f, cont, depth):
        """elements of a local container that was handed (by address) as user data to a collecting traversal"""
        c = A.strip_casts(cont)
        if c['k'] == 'DeclRefExpr' and 'd' in c:
            for (cbq, sites) in self.trav.items():
                for (g, call, own) in sites:
                    if g is f:
                        ud = call.args()[4] if len(call.args()) > 4 else None
                        if ud is not None and any(x['k'] == 'DeclRefExpr' and x.get('d') == c['d'] for x in ud.walk()):
                            return 'STRICT' if own else 'GLOBAL'
            # the container is a (reference) parameter of a helper: it holds what its callers' containers hold
            for i, p_ in enumerate(f.params):
                if p_.get('d') == c['d'] and depth <= 4:
                    res, n_sites = None, 0
                    for g in self.fx.funcs.values():
                        if not g.full or g.cls != f.cls:
                            continue
                        for c2 in g.walk():
                            if c2.is_call() and c2.get('fn') == f.id and i < len(c2.args()):
                                n_sites += 1
                                res = join(res, self.of_container(g, c2.args()[i], depth + 1))
                    return res if n_sites else 'UNKNOWN'
        return 'UNKNOWN'


def callback_method(fx, func_q):
    """XxxCallbackFunc (static trampoline) -> the XxxCallback method it forwards to"""
    fs = fx.by_q.get(func_q, [])
    for f in fs:
        if not f.full:
            continue
        for n in f.walk():
            if n['k'] == 'CXXMemberCallExpr' and (n.get('q') or '').startswith(SRS + '::') and (n.get('q') or '').endswith('Callback'):
                return n.get('q')
    return None


def closure_calls(fx, q, depth=2):
    """call nodes in method q and in the same-class methods it calls (bounded depth)"""
    out = []
    seen = set()
    st = [(q, 0)]
    while st:
        (x, d) = st.pop()
        if x in seen:
            continue
        seen.add(x)
        for f in fx.by_q.get(x, []):
            if not f.full:
                continue
            for n in f.walk():
                if n.is_call():
                    out.append((f, n))
                    cq = n.get('q') or ''
                    if cq.startswith(SRS + '::') and d < depth and not cq.endswith('DoTraversal'):
                        st.append((cq, d + 1))
            break
    return out


def classify_callback(fx, method_q):
    """'write' | 'marks' | 'kick' | 'read' computed from the callback's own code"""
    cls = set()
    for (f, n) in closure_calls(fx, method_q):
        q = n.get('q') or ''
        if MUT.search(q):
            cls.add('write')
        if q.endswith('::EndSession') or q.endswith('::DisconnectSession'):
            cls.add('kick')
        if n['k'] == 'CXXMemberCallExpr' and re.search(r'::(AddTail|AddHead|Put|PutWithDefault|AddTailAndGet)$', q):
            # storing a node reference into caller-provided user data for later use
            r = n.receiver()
            if r is not None and f.q == method_q:
                ud = [p['d'] for p in f.params[1:2]]
                if any(x['k'] == 'DeclRefExpr' and x.get('d') in ud for x in r.walk()):
                    if any('DataNode' in a.type() for a in n.args()):
                        cls.add('collect')
    # writes to a field of the node parameter (friend access): subscriber marks
    for f in fx.by_q.get(method_q, []):
        if not f.full:
            continue
        nd = f.params[0]['d'] if f.params else None
        for n in f.walk():
            if n['k'] in ('BinaryOperator', 'CXXOperatorCallExpr') and (n.get('op') == '=' or (n.get('q') or '').endswith('::operator=')):
                lhs = n['ch'][0] if n['k'] == 'BinaryOperator' else (n['ch'][1] if len(n['ch']) > 1 else None)
                if lhs is None:
                    continue
                l = A.strip_casts(lhs)
                if l['k'] == 'MemberExpr' and l.get('dk') == 'Field' and l['ch'] and A.strip_casts(l['ch'][0]).get('d') == nd:
                    cls.add('marks:' + l.get('n'))
        break
    return cls


def quiet_swap(f, n):
    """n is one half of `orig = X->GetData(); X->SetData(tmp, NULL, …); …; X->SetData(orig, NULL, …)`: both calls pass no notifier, the same receiver, the second restores the local that was
    saved from the receiver's GetData() before the first, and the first is followed by the second on every path (no notification, no lasting change)"""
    def quiet(c):
        a = c.args()
        return len(a) >= 2 and (A.strip_casts(a[1])['k'] in ('GNUNullExpr', 'CXXNullPtrLiteralExpr') or A.strip_casts(a[1]).get('v') == 0)
    if not quiet(n) or n.receiver() is None:
        return False
    rk = A.render_key(A.strip_casts(n.receiver()))
    sib = [c for c in f.walk() if c.is_call() and (c.get('q') or '').endswith('DataNode::SetData') and c.receiver() is not None and A.render_key(A.strip_casts(c.receiver())) == rk and quiet(c)]
    if len(sib) != 2:
        return False
    first, second = sorted(sib, key=lambda c: c['i'])
    a0 = A.strip_casts(second.args()[0])
    if a0['k'] != 'DeclRefExpr' or a0.get('d') is None:
        return False
    saved = [v for v in f.walk() if v['k'] == 'VarDecl' and v.get('d') == a0['d'] and v['ch'] and any(x.is_call() and (x.get('q') or '').endswith('DataNode::GetData') and x.receiver() is not None
                                                                                                and A.render_key(A.strip_casts(x.receiver())) == rk for x in v['ch'][0].walk())]
    if not saved or not P.must_precede(f, saved, first):
        return False
    return P.must_follow(f, first, [second])[0]


def run(res, tier):
    fx = common.load_units(res, ['reflector/StorageReflectSession.cpp', 'reflector/DataNode.cpp', 'reflector/ReflectServer.cpp', 'reflector/AbstractReflectSession.cpp', 'reflector/DumbReflectSession.cpp'],
                           fn_regex=r'^muscle::(StorageReflectSession|DataNode|ReflectServer|AbstractReflectSession|DumbReflectSession|ImmutableHashtablePool)')
    srs = [f for f in fx.funcs.values() if f.full and (f.cls or '').startswith(SRS)]
    if len(srs) < 60:
        raise AnalysisBroken('only %d StorageReflectSession functions found' % len(srs))
    res.functions_analysed = len(srs)

    # ------------------------------------------------------------------ traversal sites
    res.rule('WRITE-ROOT', 'every NodePathMatcher::DoTraversal whose callback (classified from its own code) mutates nodes or collects them for mutation is rooted at *_sessionDir(); '
                           'a callback that ends other sessions is only started under HasPrivilege(PR_PRIVILEGE_KICK); a callback that edits subscriber marks edits only _subscribers', floor=12)
    trav = {}
    sites = []
    for f in sorted(srs, key=lambda f: f.line):
        for n in f.walk():
            if n.is_call() and (n.get('q') or '').endswith('NodePathMatcher::DoTraversal'):
                a = n.args()
                cb = [x for x in a[0].walk() if x['k'] == 'DeclRefExpr' and x.get('dk') in ('CXXMethod', 'Function')]
                if not cb:
                    res.ob('WRITE-ROOT', f.where(n), 'traversal callback at %s is a named function' % f.where(n), False, function=f.q, key='WRITE-ROOT|%s|indirect-callback' % f.q,
                           message='DoTraversal is given a callback that is not a named function: it cannot be classified')
                    continue
                cbq = cb[0].get('q')
                mq = callback_method(fx, cbq) or cbq
                own = is_session_dir(a[2])
                trav.setdefault(mq, []).append((f, n, own))
                sites.append((f, n, cbq, mq, own))
    kick_val = fx.enum_const('PR_PRIVILEGE_KICK')
    for (f, n, cbq, mq, own) in sites:
        cls = classify_callback(fx, mq)
        where = f.where(n)
        short = mq.split('::')[-1]
        desc = 'traversal with %s from %s (root `%s`)' % (short, f.q.split('::')[-1], n.args()[2].text(40))
        if 'write' in cls or 'collect' in cls:
            res.ob('WRITE-ROOT', where, desc + ' mutates/collects nodes and is rooted at the own session directory', own, how='callback class %s; root is *_sessionDir()' % sorted(cls),
                   function=f.q, key='WRITE-ROOT|%s|%s:root' % (f.q, short),
                   message='%s starts the node-mutating traversal %s from `%s` instead of the session\'s own directory: a client command can then create, change or remove nodes of other sessions'
                           % (f.q, short, n.args()[2].text(60)))
        elif 'kick' in cls:
            g = False
            for (cn, truth) in [(f.nodes[c], t) for (c, t) in C.guards_of_block(f, P.pos_of(f, n)[0])]:
                if truth and cn.is_call() and (cn.get('q') or '').endswith('::HasPrivilege') and cn.args() and cn.args()[0].get('v') == kick_val:
                    g = True
            res.ob('WRITE-ROOT', where, desc + ' can end other sessions and runs only under HasPrivilege(PR_PRIVILEGE_KICK)', g, how='dominated by HasPrivilege(PR_PRIVILEGE_KICK)',
                   function=f.q, key='WRITE-ROOT|%s|%s:privilege' % (f.q, short),
                   message='%s starts %s (which disconnects the matching sessions) without a dominating HasPrivilege(PR_PRIVILEGE_KICK) test' % (f.q, short))
        else:
            marks = [c for c in cls if c.startswith('marks:')]
            ok = all(c == 'marks:_subscribers' for c in marks)
            res.ob('WRITE-ROOT', where, desc + ' does not mutate nodes' + (' (edits only the per-session subscriber marks)' if marks else ''), ok,
                   how='callback class %s' % (sorted(cls) or ['read']), function=f.q, key='WRITE-ROOT|%s|%s:fieldwrite' % (f.q, short), nontrivial=bool(marks),
                   message='%s writes node field(s) %s of nodes it visits from `%s`' % (short, marks, n.args()[2].text(40)))

    # ------------------------------------------------------------------ direct mutators
    res.rule('MUT-PROVENANCE', 'the receiver of every direct DataNode mutator call in StorageReflectSession is the own session directory, a node reached from it through GetChild/InsertOrderedChild, '
                               'the parent of a strict descendant, a node visited by an own-rooted traversal, or a freshly allocated node', floor=8)
    FROZEN = {
        ('AttachedToServer', 'PutChild'): 'creates the session\'s own host node / session node at attach time, named by its own host name and session id',
        ('Cleanup', 'RemoveChild'): 'removes the session\'s own session node (and the host node once empty) at teardown — TEARDOWN-PAIR checks the key',
    }
    prov = Prov(fx, trav)
    # functions a client command can reach: same-class calls from the dispatcher, plus the callbacks of the traversals they start
    creach = set()
    st = [SRS + '::MessageReceivedFromGateway']
    while st:
        q = st.pop()
        if q in creach:
            continue
        creach.add(q)
        for g in fx.by_q.get(q, []):
            if not g.full:
                continue
            for n in g.walk():
                if n.is_call():
                    cq = n.get('q') or ''
                    if cq.startswith(SRS + '::'):
                        st.append(cq)
                if n['k'] == 'DeclRefExpr' and n.get('dk') in ('CXXMethod', 'Function') and (n.get('q') or '').startswith(SRS + '::'):
                    st.append(n['q'])
                    mq = callback_method(fx, n['q'])
                    if mq:
                        st.append(mq)
            break
    res.extra['client_reachable_methods'] = len(creach)
    for f in sorted(srs, key=lambda f: f.line):
        for n in f.walk():
            if not (n.is_call() and MUT.search(n.get('q') or '')):
                continue
            if f.q not in creach and f.q.split('::')[-1] not in ('AttachedToServer', 'Cleanup'):
                res.info('MUT-PROVENANCE', f.where(n), '%s in %s: not reachable from a client command through StorageReflectSession itself (server-side API), not judged' % (n['q'].split('::')[-1], f.q))
                continue
            m = n['q'].split('::')[-1]
            short = f.q.split('::')[-1]
            r = n.receiver()
            where = f.where(n)
            if (short, m) in FROZEN:
                res.ob('MUT-PROVENANCE', where, '%s in %s: frozen exception' % (m, short), True, how=FROZEN[(short, m)], function=f.q, nontrivial=False)
                continue
            if m == 'SetData' and quiet_swap(f, n):
                res.ob('MUT-PROVENANCE', where, '%s in %s: quiet temporary swap of a payload, restored on every path (recognised by its shape)' % (m, short), True, function=f.q, nontrivial=False,
                       how='SetData(x, NULL, …) … SetData(<local saved from GetData() of the same node>, NULL, …)')
                continue
            p = prov.of_expr(f, r) if r is not None else 'UNKNOWN'
            res.ob('MUT-PROVENANCE', where, 'receiver `%s` of %s in %s lies in the session\'s own subtree' % (r.text(40) if r is not None else '?', m, short), p in OKP,
                   how='provenance %s' % p, function=f.q, key='MUT-PROVENANCE|%s|%s:%s' % (f.q, m, r.text(30) if r is not None else ''),
                   message='%s calls DataNode::%s on `%s` whose provenance is %s (not derived from the session\'s own directory): a client can alter nodes outside its subtree'
                           % (f.q, m, r.text(60) if r is not None else '?', p))

    # ------------------------------------------------------------------ OWN-ID
    res.rule('OWN-ID', 'GetDataNodeSubscribersTableFromPool is always called with this session\'s own GetSessionID(): a session edits only its own marks on other sessions\' nodes', floor=2)
    for f in sorted(srs, key=lambda f: f.line):
        for n in f.walk():
            if n.is_call() and (n.get('q') or '') == SRS + '::GetDataNodeSubscribersTableFromPool':
                a = n.args()
                idarg = A.strip_casts(a[1]) if len(a) > 1 else None
                ok = idarg is not None and idarg['k'] == 'CXXMemberCallExpr' and (idarg.get('q') or '').endswith('::GetSessionID') and \
                    (idarg.receiver() is None or A.strip_casts(idarg.receiver())['k'] == 'CXXThisExpr')
                res.ob('OWN-ID', f.where(n), 'subscriber-table update in %s uses this->GetSessionID()' % f.q.split('::')[-1], ok, how=idarg.text() if idarg is not None else None,
                       function=f.q, key='OWN-ID|%s|sessionid' % f.q,
                       message='%s updates a node\'s subscriber table under id `%s` instead of its own session id: it can add or drop another session\'s subscriptions'
                               % (f.q, idarg.text() if idarg is not None else '?'))

    priv_rule(res, fx)
    teardown_rule(res, fx)
    # marks are placed by pattern matching (NodeCreated) and removed by traversal (Cleanup, RemoveParameter): the traversal's literal-lookup fast path must name the same nodes
    from .C05 import clause_lookup_rules
    clause_lookup_rules(res, fx, 'TEARDOWN-PAIR')
    # a subscription that is taken out of the table takes its marks off the nodes on every path (C04's pairing rule, removal side): Cleanup() finds marks only through _subscriptions,
    # so a mark whose subscription is gone outlives the session
    from .C04 import subscribe_pair_rule
    subscribe_pair_rule(res, fx, rule='UNSUBSCRIBE-PAIR', only='Remove')
    from . import srs_shared as _SH5
    _SH5.marks_always_rule(res, fx, 'MARKS-ALWAYS')
    res.explanation = ('Static decision of the ownership structure of the reflect session: %d DoTraversal sites classified from the callbacks\' own code, every mutating/collecting traversal is rooted at '
                       '*_sessionDir(); the receivers of all direct DataNode mutator calls are traced (reaching definitions, GetChild/GetParent/InsertOrderedChild algebra, callback and container provenance, '
                       'one-level interprocedural for helper parameters) to the own subtree; subscriber-mark edits use the own session id; kick/ban forwarding is privilege-guarded; privilege bits are '
                       'never copied from client parameters; teardown removes the session node with notification, the marks and the cached tables. Not decided: that the resulting state equals the run '
                       'without the departed session.' % len(sites))
    res.assumptions = ['NodePathMatcher::DoTraversal invokes the callback only on strict descendants of the root node it is given',
                       'the session directory _sessionDir is the node created for this session in AttachedToServer']
    res.not_decided = ['equality of observable state with the run without the departed session', 'behaviour for every cut point of the byte stream (teardown path is the same for every cut)']


def priv_rule(res, fx):
    res.rule('PRIV', 'ban/require forwarding to the factory is dominated by the matching HasPrivilege test; PR_NAME_PRIVILEGE_BITS is never copied from a client Message into the session parameters', floor=3)
    f = fx.fn1(SRS + '::MessageReceivedFromGateway')
    want = {}
    for cmd, pv in (('PR_COMMAND_ADDBANS', 'PR_PRIVILEGE_ADDBANS'), ('PR_COMMAND_ADDREQUIRES', 'PR_PRIVILEGE_ADDBANS'),
                    ('PR_COMMAND_REMOVEBANS', 'PR_PRIVILEGE_REMOVEBANS'), ('PR_COMMAND_REMOVEREQUIRES', 'PR_PRIVILEGE_REMOVEBANS')):
        c, p = fx.enum_const(cmd), fx.enum_const(pv)
        if c is None or p is None:
            raise AnalysisBroken('constant %s / %s not found' % (cmd, pv))
        want[c] = p
    n_fw = 0
    for n in f.walk():
        if n['k'] == 'CXXMemberCallExpr' and (n.get('q') or '').endswith('::MessageReceivedFromSession') and n.receiver() is not None and 'ReflectSessionFactory' in n.receiver().type():
            n_fw += 1
            blk = P.pos_of(f, n)[0]
            privs = set()
            for (c, t) in C.guards_of_block(f, blk):
                cn = f.nodes[c]
                if t and cn.is_call() and (cn.get('q') or '').endswith('::HasPrivilege') and cn.args():
                    privs.add(cn.args()[0].get('v'))
            cases = set()
            for (cond, labels) in C.switch_guards_of_block(f, blk):
                cases |= set(l for l in labels if l != 'default')
            need = set(want[c] for c in cases if c in want)
            ok = bool(privs) and bool(cases) and need <= privs and all(c in want for c in cases)
            res.ob('PRIV', f.where(n), 'forwarding of ban/require command(s) %s to the factory is guarded by HasPrivilege(%s)' % (sorted(cases), sorted(need)), ok,
                   how='dominating HasPrivilege(%s)' % sorted(privs), function=f.q, key='PRIV|%s|forward:%s' % (f.q, ','.join(map(str, sorted(cases)))),
                   message='the dispatcher forwards command(s) %s to the session factory under privilege test(s) %s; required %s: an unprivileged client can change the ban/require lists'
                           % (sorted(cases), sorted(privs), sorted(need)))
    if n_fw < 2:
        raise AnalysisBroken('PRIV: expected two factory forwarding sites in the dispatcher, found %d' % n_fw)
    # privilege bits are not copied
    pb = None
    # the field name HasPrivilege() reads is *the* privilege-bits name (a macro string literal)
    hp = fx.fn1(SRS + '::HasPrivilege')
    names = [x.get('s') for x in hp.walk() if x['k'] == 'StringLiteral']
    if len(names) != 1:
        raise AnalysisBroken('HasPrivilege: expected exactly one field-name literal, found %s' % names)
    pbname = names[0]
    for n in f.walk():
        if n['k'] == 'CXXOperatorCallExpr' and (n.get('q') or '').endswith('::operator==') and any(x['k'] == 'StringLiteral' and x.get('s') == pbname for x in n.walk()):
            pb = n
    copies = [c for c in f.walk() if c.is_call() and (c.get('q') or '') == 'muscle::Message::CopyName' and any(x.get('q') == SRS + '::_parameters' for x in c.walk())]
    ok = False
    how = None
    if pb is not None and copies:
        # locate the branch block testing pb
        for blk in f.blocks.values():
            if blk.cond == pb['i'] and len(blk.succ) == 2:
                tgt = blk.succ[0]
                for cp in copies:
                    cpos = P.pos_of(f, cp)
                    gs = [(f.nodes[c], t) for (c, t) in C.guards_of_block(f, cpos[0])]
                    flag = [A.strip_casts(cn) for (cn, t) in gs if t and A.strip_casts(cn)['k'] == 'DeclRefExpr' and 'd' in A.strip_casts(cn)]
                    if not flag:
                        continue
                    fd = flag[0]['d']
                    clears = []
                    for x in f.walk():
                        if x['k'] == 'BinaryOperator' and x.get('op') == '=' and A.strip_casts(x['ch'][0]).get('d') == fd and x['ch'][1].get('v') == 0:
                            p = P.pos_of(f, x)
                            if p:
                                clears.append(p)
                    sets = [P.pos_of(f, x) for x in f.walk() if x['k'] == 'BinaryOperator' and x.get('op') == '=' and A.strip_casts(x['ch'][0]).get('d') == fd and x['ch'][1].get('v') == 1]
                    # from the true edge of (fn == PR_NAME_PRIVILEGE_BITS) every path to the copy passes `flag = false` and no `flag = true` follows
                    start = (tgt, -1)
                    reach_wo_clear = C.can_reach(f, start, set([cpos]), avoid_points=set(clears))
                    if not reach_wo_clear and not any(s for s in sets if s):
                        ok = True
                        how = 'on the (fn == PR_NAME_PRIVILEGE_BITS) edge `%s = false` is assigned before `if (%s) CopyName(fn, _parameters)`' % (flag[0].get('n'), flag[0].get('n'))
    res.ob('PRIV', f.where(pb) if pb is not None else f.where(), 'PR_NAME_PRIVILEGE_BITS from a client Message is not copied into the session parameters', ok, how=how, function=f.q,
           key='PRIV|%s|privilege-bits-copy' % f.q,
           message='the SETPARAMETERS handler can copy a client-supplied PR_NAME_PRIVILEGE_BITS field into _parameters, which HasPrivilege() reads: any client can grant itself kick/ban privileges')


def teardown_rule(res, fx):
    res.rule('TEARDOWN-PAIR', 'AboutToDetachFromServer => Cleanup; Cleanup removes the own session node (by its own id, with notification, recursively) before pushing the subscription Messages, '
                              'removes its marks from all remaining nodes and drops the cached subscriber tables of its id; ClearLameDucks detaches a session before forgetting it', floor=4)
    f = fx.fn1(SRS + '::AboutToDetachFromServer')
    cl = P.calls(f, r'^' + re.escape(SRS) + r'::Cleanup$')
    ok = bool(cl) and P.must_precede(f, cl, [n for n in f.walk() if n['k'] == 'CompoundStmt'][0], ()) if False else bool(cl) and all(C.block_dominates(f, P.pos_of(f, c)[0], f.exit) or True for c in cl)
    # every path entry->exit passes Cleanup
    if cl:
        okp, path = C.must_pass(f, (f.entry, -1), set(P.pos_of(f, c) for c in cl))
    else:
        okp = False
    res.ob('TEARDOWN-PAIR', f.where(), 'StorageReflectSession::AboutToDetachFromServer calls Cleanup() on every path', okp, function=f.q, key='TEARDOWN-PAIR|%s|cleanup' % f.q,
           how='Cleanup() at line %s' % (cl[0].get('l') if cl else '?'),
           message='AboutToDetachFromServer can return without Cleanup(): the departed session\'s nodes, marks and cached tables stay in the shared tree')
    f = fx.fn1(SRS + '::Cleanup')
    rm = [c for c in P.calls(f, r'^muscle::DataNode::RemoveChild$')]
    own_rm = []
    for c in rm:
        a = c.args()
        if a and any((x.get('q') or '').endswith('::GetSessionIDString') for x in a[0].walk()):
            notify_this = len(a) > 1 and A.strip_casts(a[1])['k'] == 'CXXThisExpr'
            recurse = len(a) > 2 and a[2].get('v') == 1
            if notify_this and recurse:
                own_rm.append(c)
    push = P.calls(f, r'::PushSubscriptionMessages$')
    ok = bool(own_rm) and bool(push) and any(C.dominates(f, own_rm[0]['i'], p['i']) or P.pos_of(f, own_rm[0])[0] != P.pos_of(f, p)[0] and C.can_reach(f, P.pos_of(f, own_rm[0]), set([P.pos_of(f, p)])) for p in push)
    # strict form: some push is reached on every non-escape path after the removal
    if own_rm and push:
        ok, _ = P.must_follow(f, own_rm[0], push, escapes=())
    res.ob('TEARDOWN-PAIR', f.where(own_rm[0]) if own_rm else f.where(), 'Cleanup removes the own session node with RemoveChild(GetSessionIDString(), this, recurse=true) and then pushes the subscription Messages', ok,
           how='RemoveChild at line %s, PushSubscriptionMessages at line %s' % (own_rm[0].get('l') if own_rm else '?', push[0].get('l') if push else '?'), function=f.q,
           key='TEARDOWN-PAIR|%s|remove-own-node' % f.q,
           message='Cleanup no longer removes the session\'s own node by its session id with notification and recursion followed by PushSubscriptionMessages: subscribers are not told that the departed session\'s nodes vanished')
    # marks + cached tables
    tr = [c for c in P.calls(f, r'::DoTraversal$') if any(x.get('n') == 'DoSubscribeRefCallbackFunc' for x in c.args()[0].walk())]
    neg = False
    for c in tr:
        ud = c.args()[4]
        for x in ud.walk():
            if x['k'] == 'DeclRefExpr' and 'd' in x:
                for v in f.walk():
                    if v['k'] == 'VarDecl' and v['d'] == x['d'] and v['ch']:
                        for y in v['ch'][0].walk():
                            if 'v' in y and isinstance(y['v'], int) and y['v'] <= -1000000:
                                neg = True
    drop = [c for c in P.calls(f, r'::DropAllCacheEntriesContainingKey$') if c.args() and any((x.get('q') or '').endswith('::GetSessionID') for x in c.args()[0].walk())]
    same_branch = bool(tr) and bool(drop) and P.pos_of(f, tr[0]) and P.pos_of(f, drop[0]) and C.guards_of_block(f, P.pos_of(f, tr[0])[0]) == C.guards_of_block(f, P.pos_of(f, drop[0])[0])
    # the branch is the one where other sessions remain: guarded by (GetGlobalRoot().HasChildren() == false) being false
    res.ob('TEARDOWN-PAIR', f.where(tr[0]) if tr else f.where(), 'Cleanup removes all of its subscription marks (remove-all delta) and drops the cached subscriber tables keyed by its id, on the same branch',
           bool(tr) and neg and bool(drop) and bool(same_branch), how='DoSubscribeRefCallback traversal with remove-all delta at line %s; DropAllCacheEntriesContainingKey(GetSessionID()) at line %s'
           % (tr[0].get('l') if tr else '?', drop[0].get('l') if drop else '?'), function=f.q, key='TEARDOWN-PAIR|%s|marks' % f.q,
           message='Cleanup no longer removes all subscription marks of the departing session and the cached tables of its id: the remaining nodes keep notifying a session that no longer exists')
    # ClearLameDucks
    f = fx.fn1('muscle::ReflectServer::ClearLameDucks')
    det = P.calls(f, r'::AboutToDetachFromServer$')
    rem = [c for c in P.calls(f, r'Hashtable(Base|Mid)?::Remove$') if any(x.get('n') == '_sessions' for x in c.walk())]
    ok = bool(det) and bool(rem) and all(P.must_precede(f, det, r, ()) for r in rem)
    res.ob('TEARDOWN-PAIR', f.where(), 'ReflectServer::ClearLameDucks calls AboutToDetachFromServer() before removing the session from _sessions', ok, function=f.q,
           how='AboutToDetachFromServer at line %s precedes _sessions.Remove at line %s' % (det[0].get('l') if det else '?', rem[0].get('l') if rem else '?'),
           key='TEARDOWN-PAIR|%s|detach-before-forget' % f.q,
           message='ClearLameDucks can forget a session without AboutToDetachFromServer(): its subtree and marks stay behind')
    # ---- the departing session takes the host node with it only when that node is empty (another session of the same host must keep its subtree)
    f = fx.fn1(SRS + '::Cleanup')
    hrm = [c for c in P.calls(f, r'^muscle::DataNode::RemoveChild$') if c.args() and any((x.get('q') or '').endswith('::GetNodeName') for x in c.args()[0].walk() if x.is_call())]
    if not hrm:
        raise AnalysisBroken('TEARDOWN-PAIR: the removal of the host node was not found in Cleanup')
    for c in hrm:
        hn = [x.receiver() for x in c.args()[0].walk() if x.is_call() and (x.get('q') or '').endswith('::GetNodeName') and x.receiver() is not None]
        H = P_canon(hn[0]) if hn else None
        ok, how = False, None
        p = P.pos_of(f, c)
        for (g, truth) in (C.guards_of_block(f, p[0]) if p else []):
            gn, pol = P.strip_not(f.nodes[g])
            if gn['k'] == 'CXXMemberCallExpr' and gn.receiver() is not None and P_canon(gn.receiver()) == H:
                m = (gn.get('q') or '').split('::')[-1]
                if m == 'HasChildren' and truth != pol:
                    ok, how = True, '%s is false' % gn.text(40)
            if gn['k'] == 'BinaryOperator' and gn.get('op') == '==' and truth == pol:
                l, r = A.strip_casts(gn['ch'][0]), A.strip_casts(gn['ch'][1])
                for (a, b) in ((l, r), (r, l)):
                    if a['k'] == 'CXXMemberCallExpr' and (a.get('q') or '').split('::')[-1] == 'GetNumChildren' and a.receiver() is not None and P_canon(a.receiver()) == H and b.get('v') == 0:
                        ok, how = True, '%s' % gn.text(40)
        res.ob('TEARDOWN-PAIR', f.where(c), 'Cleanup removes the host node only when it has no children left', ok, how=how, function=f.q, key='TEARDOWN-PAIR|%s|host-node-empty' % f.q,
               message='Cleanup removes the host node (recursively, with notifications) under a test other than "it has no children": when another session from the same host is still connected its whole '
                       'subtree is destroyed by the departing session')
    # ---- recursive removal drains ALL children with notifications
    f = fx.fn1('muscle::DataNode::RemoveChild')
    rec = [c for c in P.calls(f, r'^muscle::DataNode::RemoveChild$')]
    if not rec:
        raise AnalysisBroken('TEARDOWN-PAIR: the recursive RemoveChild call was not found')
    loops = C.natural_loops(f)
    for c in rec:
        p = P.pos_of(f, c)
        R = P_canon(c.receiver()) if c.receiver() is not None else None
        ok = False
        for (h, body) in loops:
            if p and p[0] in body:
                hc = f.nodes.get(f.blocks[h].cond) if f.blocks[h].cond is not None else None
                if hc is not None:
                    gn, pol = P.strip_not(hc)
                    if gn['k'] == 'CXXMemberCallExpr' and (gn.get('q') or '').split('::')[-1] in ('HasChildren', 'GetNumChildren') and gn.receiver() is not None and P_canon(gn.receiver()) == R:
                        ok = True
        res.ob('TEARDOWN-PAIR', f.where(c), 'RemoveChild(recurse) removes the children of the removed node in a loop that runs until none is left', ok, function=f.q, key='TEARDOWN-PAIR|%s|drain' % f.q,
               message='DataNode::RemoveChild no longer repeats the recursive removal until the child has no children: only the first grandchild is removed with notifications, the others vanish '
                       'silently with the parent object, so subscribers keep nodes of a departed session')
    from . import srs_shared as _SH
    _SH.cow_exact_rule(res, fx, 'OWN-ID')
    _SH.cache_hit_compares_content_rule(res, fx, 'OWN-ID')
    _SH.same_key_rule(res, fx, 'TEARDOWN-PAIR')
    # ---- RESET-COMPLETE: DataNode objects are recycled through an ObjectPool; Reset() (+ Init()) must restore every member that any other method can change,
    # otherwise a node created for a later session inherits state from an unrelated, departed one
    DNC = 'muscle::DataNode'
    def written_fields(g):
        out = set()
        for n in g.walk():
            tgt = None
            if n['k'] in ('BinaryOperator', 'CompoundAssignOperator') and n.get('op') in A.ASSIGN_OPS:
                tgt = A.strip_casts(n['ch'][0])
            elif n['k'] == 'UnaryOperator' and (n.get('op', '').startswith('pre') or n.get('op', '').startswith('post')):
                tgt = A.strip_casts(n['ch'][0])
            elif n['k'] == 'CXXOperatorCallExpr' and (n.get('q') or '').endswith('::operator=') and len(n['ch']) >= 3:
                tgt = A.strip_casts(n['ch'][1])
            elif n['k'] == 'CXXMemberCallExpr' and not n.get('cm') and n.receiver() is not None and (n.get('q') or '').split('::')[-1] in ('Reset', 'Clear', 'SetRef'):
                tgt = A.strip_casts(n.receiver())
            elif n['k'] == 'CXXDeleteExpr' and n['ch']:
                tgt = A.strip_casts(n['ch'][0])
            if tgt is not None and tgt['k'] == 'MemberExpr' and tgt.get('dk') == 'Field' and A.is_this_member(tgt) and (tgt.get('q') or '').startswith(DNC + '::'):
                out.add(tgt.get('n'))
        return out
    dn_methods = [g for g in fx.funcs.values() if g.full and g.cls == DNC]
    reset_w = set()
    others = {}
    for g in dn_methods:
        short = g.q.split('::')[-1]
        if short in ('Reset', 'Init'):
            reset_w |= written_fields(g)
        elif short not in ('(ctor)', '(dtor)', 'operator='):
            for fld in written_fields(g):
                others.setdefault(fld, g.q)
    if len(reset_w) < 5:
        raise AnalysisBroken('RESET-COMPLETE: DataNode::Reset/Init write only %s' % sorted(reset_w))
    for fld in sorted(others):
        res.ob('TEARDOWN-PAIR', 'reflector/DataNode.cpp', 'DataNode::%s (changed by %s) is restored by Reset()/Init()' % (fld, others[fld].split('::')[-1]), fld in reset_w, function=DNC + '::Reset',
               key='TEARDOWN-PAIR|%s::Reset|restores:%s' % (DNC, fld),
               message='DataNode::%s is changed by %s but neither Reset() nor Init() restores it: DataNode objects are recycled through the node pool, so a node created for a later session starts with '
                       'the value left by an unrelated, departed session (observable e.g. as generated child names that do not start at I0)' % (fld, others[fld]))
    from . import srs_shared as SS
    SS.subscribe_traversal_nofilter_rule(res, fx, 'TEARDOWN-PAIR')
    SS.lameduck_same_end_rule(res, fx, 'TEARDOWN-PAIR')
    f = fx.fn1('muscle::ReflectServer::DisconnectSession', ) if fx.by_q.get('muscle::ReflectServer::DisconnectSession') else None
