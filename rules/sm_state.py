"""Shared rules on StringMatcher's internal state (regex/StringMatcher.cpp is anchored by C05, C07 and C15):
REGEX-VALID   the compiled regex is used / freed only under the REGEXVALID flag, and the flag is raised only when regcomp() returned 0
RANGES-RESET  SetPattern() forgets the numeric ranges of the previous pattern on every path (a recycled / re-set matcher must not keep matching the old <n-m> clause)"""
from msa import ast as A
from msa import cfg as C
from msa import ip as IP
from msa import pair as P
from msa.facts import AnalysisBroken

SM = 'muscle::StringMatcher'


def _mentions_flag(n, flag='STRINGMATCHER_FLAG_REGEXVALID'):
    return any(x.get('n') == flag for x in n.walk())


def regex_valid_rule(res, fx, rule='REGEX-VALID'):
    res.rule(rule, 'StringMatcher: regexec()/regfree() on _regExp only on the true edge of _flags.IsBitSet(REGEXVALID); the flag is raised only in dependence on regcomp() having returned 0', floor=3)
    n_use = 0
    for f in sorted((f for f in fx.funcs.values() if f.full and (f.cls or '') == SM), key=lambda f: f.line):
        for c in f.walk():
            if c.is_call() and (c.get('q') or '') in ('regexec', 'regfree'):
                n_use += 1
                ok = False
                p = P.pos_of(f, c)
                for (g, truth) in (C.guards_of_block(f, p[0]) if p else []):
                    gn, pol = P.strip_not(f.nodes[g])
                    if gn.is_call() and (gn.get('q') or '').endswith('::IsBitSet') and _mentions_flag(gn) and truth == pol:
                        ok = True
                res.ob(rule, f.where(c), '%s: %s(&_regExp) only when the REGEXVALID flag is set' % (f.q.split('::')[-1], c.get('q')), ok, function=f.q, key='%s|%s|%s' % (rule, f.q, c.get('q')),
                       message='%s calls %s on _regExp without testing STRINGMATCHER_FLAG_REGEXVALID: a matcher whose pattern never compiled hands an uninitialised regex_t to libc (crash)' % (f.q, c.get('q')))
    # the compile step: in SetPattern itself or in a private helper it was split into (msa/ip.py)
    f, rcs, sets = None, [], []
    for g_ in IP.scope(fx, fx.fn1(SM + '::SetPattern'), r'^muscle::StringMatcher::'):
        rcs = [v for v in g_.walk() if v['k'] == 'VarDecl' and v['ch'] and any(x.is_call() and (x.get('q') or '') == 'regcomp' for x in v['ch'][0].walk())]
        sets = [c for c in g_.walk() if c['k'] == 'CXXMemberCallExpr' and (c.get('q') or '').endswith('::SetBit') and _mentions_flag(c)]
        if rcs and sets:
            f = g_
            break
    if f is None:
        raise AnalysisBroken('REGEX-VALID: regcomp result / SetBit(REGEXVALID) not found in SetPattern')
    rc = rcs[0]['d']

    def cond_on_rc(n):
        return any(x['k'] == 'DeclRefExpr' and x.get('d') == rc for x in n.walk())
    for c in sets:
        args = c.args()
        ok = False
        how = None
        p = P.pos_of(f, c)
        guards = [(f.nodes[g], t) for (g, t) in (C.guards_of_block(f, p[0]) if p else [])]
        if len(args) >= 2 and 'v' not in A.strip_casts(args[1]):
            # SetBit(flag, value): the value must be computed from locals that are assigned under tests of the regcomp result (or from the result itself)
            vs = set(x['d'] for x in args[1].walk() if x['k'] == 'DeclRefExpr' and 'd' in x)
            if rc in vs:
                ok, how = True, 'value computed from the regcomp result'
            for x in f.walk():
                lhs = None
                if x['k'] == 'BinaryOperator' and x.get('op') == '=':
                    lhs = A.strip_casts(x['ch'][0])
                elif x['k'] == 'CXXOperatorCallExpr' and (x.get('q') or '').endswith('::operator=') and len(x['ch']) >= 3:
                    lhs = A.strip_casts(x['ch'][1])
                if lhs is not None and lhs.get('d') in vs:
                    xp = P.pos_of(f, x)
                    if xp and any(cond_on_rc(f.nodes[g]) for (g, t) in C.guards_of_block(f, xp[0])):
                        ok, how = True, 'value `%s` is assigned under tests of the regcomp result (line %s)' % (args[1].text(30), x.get('l'))
        else:
            # SetBit(flag) / SetBit(flag, true): must sit on an edge that establishes rc == 0
            for (gn, t) in guards:
                n, pol = P.strip_not(gn)
                if n['k'] == 'BinaryOperator' and n.get('op') in ('==', '!=') and cond_on_rc(n) and any(A.strip_casts(y).get('v') == 0 for y in n['ch']):
                    if (n['op'] == '==') == (t == pol):
                        ok, how = True, '%s is %s' % (n.text(30), t)
                elif n['k'] == 'DeclRefExpr' and n.get('d') == rc and t != pol:
                    ok, how = True, 'rc is zero'
        res.ob(rule, f.where(c), 'SetPattern raises REGEXVALID only when regcomp() succeeded', ok, how=how, function=f.q, key='%s|%s|set' % (rule, f.q),
               message='StringMatcher::SetPattern sets STRINGMATCHER_FLAG_REGEXVALID without depending on regcomp() having returned 0: after a pattern that fails to compile, Match() runs regexec() '
                       'on a regex_t that was never compiled (callers that use the constructor ignore the error status)')
    if n_use < 2:
        raise AnalysisBroken('REGEX-VALID: %d uses of regexec/regfree found in StringMatcher' % n_use)


def ranges_reset_rule(res, fx, rule='RANGES-RESET'):
    res.rule(rule, 'StringMatcher::SetPattern clears _ranges on every path before it parses the new pattern (no path from the entry to an exit, or to an insertion into _ranges, avoids _ranges.Clear())', floor=1)
    f = fx.fn1(SM + '::SetPattern')
    clears = [c for c in f.walk() if c['k'] == 'CXXMemberCallExpr' and (c.get('q') or '').endswith('::Clear') and c.receiver() is not None and A.strip_casts(c.receiver()).get('n') == '_ranges']
    adds = [c for c in f.walk() if c['k'] == 'CXXMemberCallExpr' and c.receiver() is not None and A.strip_casts(c.receiver()).get('n') == '_ranges' and not c.get('cm')
            and not (c.get('q') or '').endswith('::Clear')]
    ok = bool(clears)
    how = None
    if ok:
        tp = set(p for p in (P.pos_of(f, c) for c in clears) if p)
        okp, path = C.must_pass(f, (f.entry, -1), tp)
        ok = okp and all(P.must_precede(f, clears, a) for a in adds)
        how = '_ranges.Clear() at line %s is on every path; %d insertion site(s) follow it' % (clears[0].get('l'), len(adds))
    res.ob(rule, f.where(), 'SetPattern clears _ranges unconditionally', ok, how=how, function=f.q, key='%s|%s' % (rule, f.q),
           message='StringMatcher::SetPattern can return without having cleared _ranges: a matcher that once held a <n-m> range pattern (including one recycled through the object pool) keeps matching '
                   'the old numeric range when it is given an ordinary pattern, because Match() consults _ranges first')
