"""C11  Thread-to-owner Messages arrive exactly once, in order, and always wake the peer.
LOCKSET (queue under its lock), ORDER in SendMessageAux (enqueue, decide 'first' under the lock, signal after it) and in WaitForNextMessageAux
(drain wake-up byte, then locked dequeue, then block, then re-enter), WaitCondition (counter under its mutex, predicate waits, notify under the mutex),
shutdown and start signalling."""
import re
from msa import guards as G
from msa import pair as P
from msa import ast as A
from msa import cfg as C
from msa import lockset as L
from msa.facts import AnalysisBroken
from . import common

TH = 'muscle::Thread'
WC = 'muscle::WaitCondition'
MSGS = 'muscle::Thread::ThreadSpecificData::_messages'


def run(res, tier):
    fx = common.load_units(res, ['system/Thread.cpp', 'system/ThreadPool.cpp', 'util/SocketMultiplexer.cpp'], fn_regex=r'^muscle::(Thread|WaitCondition|SocketMultiplexer|ICallbackMechanism)(::|$)')
    funcs = [f for f in fx.funcs.values() if f.full and (f.cls == TH or (f.cls or '').startswith(TH + '::'))]
    if len(funcs) < 30:
        raise AnalysisBroken('only %d Thread functions' % len(funcs))
    res.functions_analysed = len(funcs)
    cl = L.ClassLocks(fx, funcs)
    # ---------------------------------------------------------------------------------- LOCKSET
    res.rule('LOCKSET', 'every access to ThreadSpecificData::_messages happens with the same ThreadSpecificData object\'s _queueLock held', floor=4)
    n_acc = 0
    for f in sorted(funcs, key=lambda f: f.line):
        short = f.q.split('::')[-1]
        if short in ('(ctor)', '(dtor)'):
            continue
        for m in f.walk():
            if m['k'] == 'MemberExpr' and m.get('q') == MSGS:
                n_acc += 1
                key = L.access_key(m, '_queueLock')
                held = cl.held_at(f, m)
                if short == 'StartInternalThread':
                    # frozen exception confirmed by reading: read of HasItems() before the internal thread exists (guarded by IsInternalThreadRunning() == false)
                    early = any(P.strip_not(f.nodes[c], t)[0].is_call() and (P.strip_not(f.nodes[c], t)[0].get('q') or '').endswith('::IsInternalThreadRunning') and not P.strip_not(f.nodes[c], t)[1]
                                for (c, t) in C.guards_of_block(f, P.pos_of(f, m)[0]))
                    res.ob('LOCKSET', f.where(m), 'StartInternalThread peeks at the queue only while the internal thread is not running', early, nontrivial=False, function=f.q,
                           how='dominated by IsInternalThreadRunning() == false', key='LOCKSET|%s|early-peek' % f.q,
                           message='StartInternalThread reads the Message queue without its lock while the internal thread may already be running')
                    continue
                res.ob('LOCKSET', f.where(m), '_messages access in %s holds %s._queueLock' % (short, key[0]), key in held, function=f.q, how='lock set %s' % sorted(held),
                       key='LOCKSET|%s|_messages:%s' % (f.q, m.parent.get('q', '').split('::')[-1] if m.parent is not None else ''),
                       message='%s touches the inter-thread Message queue at line %s without holding its _queueLock: enqueue and dequeue race (lost or duplicated Messages)' % (f.q, m.get('l')))
    # ---------------------------------------------------------------------------------- SendMessageAux
    res.rule('SEND-ORDER', 'SendMessageAux: AddTail and the computation of `first Message?` happen under the queue lock, the signal is sent after the lock is released, only when it was the first, '
                           'and to the side that owns the queue', floor=3)
    f = fx.fn1(TH + '::SendMessageAux')
    add = [c for c in f.walk() if c['k'] == 'CXXMemberCallExpr' and (c.get('q') or '').endswith('Queue::AddTail') and any(x.get('q') == MSGS for x in c.walk())]
    sigs = [c for c in f.walk() if c.is_call() and (c.get('q') or '') in (TH + '::SignalInternalThread', TH + '::SignalOwner')]
    if not add or len(sigs) < 2:
        raise AnalysisBroken('SendMessageAux: enqueue / signal calls not found')
    # the flag that decides whether to signal = the local tested on an edge dominating the signal calls; its definition(s) are the "was this the first Message?" test
    flagd = None
    for (c_, t_) in C.guards_of_block(f, P.pos_of(f, sigs[0])[0]):
        cn_ = A.strip_casts(f.nodes[c_])
        if cn_['k'] == 'DeclRefExpr' and 'd' in cn_ and t_:
            flagd = cn_['d']
    firsts = []
    for n in f.walk():
        if n['k'] == 'BinaryOperator' and n.get('op') == '=' and A.strip_casts(n['ch'][0]).get('d') == flagd and flagd is not None:
            firsts.append(n)
        elif n['k'] == 'VarDecl' and n.get('d') == flagd and n['ch'] and flagd is not None:
            firsts.append(n)
    if flagd is None or not firsts:
        raise AnalysisBroken('SendMessageAux: the flag guarding the signal calls / its definition was not found')
    flow = cl.flow(f)
    def gids(n):
        p = P.pos_of(f, n)
        return set(flow._transfer(p[0], flow.IN[p[0]], upto=p[1]))
    def reads_queue_under_lock(fd, depth=0):
        # the definition reads the queue itself, or a local (defined once, under the same guard, after the enqueue) that does
        if any(x.get('q') == MSGS for x in fd.walk()):
            return bool(gids(add[0]) & gids(fd)) and C.dominates(f, add[0]['i'], fd['i'])
        if depth < 1:
            for x in fd.walk():
                if x['k'] == 'DeclRefExpr' and 'd' in x and x.get('d') != flagd:
                    dfs = [v for v in f.walk() if v['k'] == 'VarDecl' and v.get('d') == x['d'] and v['ch']]
                    if len(dfs) == 1 and reads_queue_under_lock(dfs[0], depth + 1):
                        return True
        return False
    same = all(bool(gids(add[0]) & gids(fd)) and C.dominates(f, add[0]['i'], fd['i']) and reads_queue_under_lock(fd) for fd in firsts)
    res.ob('SEND-ORDER', f.where(add[0]), 'AddTail precedes the first-Message test and both run under one guard on the queue lock', same, function=f.q,
           how='AddTail line %s, test line %s, guard %s' % (add[0].get('l'), firsts[0].get('l'), sorted(gids(add[0]))), key='SEND-ORDER|%s|under-lock' % f.q,
           message='SendMessageAux decides whether to signal outside the critical section of the enqueue (or before it): two senders can both see a non-empty queue and nobody signals (lost wake-up)')
    oks = True
    for s in sigs:
        held = cl.may_held_at(f, s)
        gs = [(f.nodes[c], t) for (c, t) in C.guards_of_block(f, P.pos_of(f, s)[0])]
        guarded = any(A.strip_casts(cn).get('d') == flagd and t for (cn, t) in gs)
        after = C.can_reach(f, P.pos_of(f, add[0]), set([P.pos_of(f, s)]))
        oks = oks and not held and guarded and after
    res.ob('SEND-ORDER', f.where(sigs[0]), 'signals are sent after the lock is released and only if the queue went from empty to one', oks, function=f.q, key='SEND-ORDER|%s|signal' % f.q,
           message='SendMessageAux signals under the queue lock, unconditionally skips the signal, or signals on a path not guarded by the first-Message flag')
    # the right side is signalled
    sw = {}
    for s in sigs:
        for (cond, labels) in C.switch_guards_of_block(f, P.pos_of(f, s)[0]):
            sw[(s.get('q') or '').split('::')[-1]] = labels
        # the same dispatch written as an if/else-if chain: a dominating `whichQueue == K`
        for (cn, t) in G.atoms_at(f, s):
            for (l_, op_, r_) in A.rel_forms(cn, t):
                if op_ == '==' and r_.get('v') is not None and l_.get('d') == f.params[0]['d']:
                    sw.setdefault((s.get('q') or '').split('::')[-1], set([r_['v']]))
    mi, mo = fx.enum_const('MESSAGE_THREAD_INTERNAL'), fx.enum_const('MESSAGE_THREAD_OWNER')
    ok = sw.get('SignalInternalThread') == set([mi]) and sw.get('SignalOwner') == set([mo])
    res.ob('SEND-ORDER', f.where(), 'queue INTERNAL => SignalInternalThread, queue OWNER => SignalOwner', ok, how=str(sw), function=f.q, key='SEND-ORDER|%s|side' % f.q,
           message='SendMessageAux wakes the wrong side for a queue: the receiver of the Message is never woken')
    # ---------------------------------------------------------------------------------- WaitForNextMessageAux
    res.rule('WAIT-ORDER', 'WaitForNextMessageAux: wake-up bytes are drained before the locked dequeue (never between the dequeue and the blocking wait); the dequeue precedes every blocking wait; '
                           'no lock is held while blocking; after a wake-up the function re-enters itself to dequeue again', floor=4)
    f = fx.fn1(TH + '::WaitForNextMessageAux')
    drain = [c for c in f.walk() if c.is_call() and re.search(r'recv(_ignore_eintr)?$', c.get('q') or '')]
    deq = [c for c in f.walk() if c['k'] == 'CXXMemberCallExpr' and (c.get('q') or '').endswith('Queue::RemoveHead') and any(x.get('q') == MSGS for x in c.walk())]
    is_block = lambda c: c.is_call() and re.search(r'(SocketMultiplexer::WaitForEvents|WaitCondition::Wait)$', c.get('q') or '') is not None
    blocks = [c for c in f.walk() if is_block(c)]
    # the blocking half may have been split off into a private helper called at the end (msa/ip.py): its obligations are judged there, the dequeue-first obligation at its call site
    fb, fb_calls = f, []
    if not blocks:
        from msa import ip as IP
        for g_ in IP.scope(fx, f, '^' + TH + '::'):
            if g_ is not f and any(is_block(c) for c in g_.walk()):
                fb = g_
                blocks = [c for c in g_.walk() if is_block(c)]
                fb_calls = [c for c in f.walk() if c.is_call() and (c.get('fn') == g_.id or ((c.get('q') or '') == g_.q))]
                break
    rec = [c for c in fb.walk() if c.is_call() and (c.get('q') or '') in (TH + '::WaitForNextMessageAux', fb.q)]
    if not drain or len(deq) != 1 or len(blocks) < 2 or len(rec) < 2:
        raise AnalysisBroken('WaitForNextMessageAux: drain/dequeue/blocking/re-entry calls not found (%d/%d/%d/%d)' % (len(drain), len(deq), len(blocks), len(rec)))
    d0 = deq[0]
    ok = all(C.can_reach(f, P.pos_of(f, dr), set([P.pos_of(f, d0)])) for dr in drain) and not any(C.can_reach(f, P.pos_of(f, d0), set([P.pos_of(f, dr)])) for dr in drain)
    res.ob('WAIT-ORDER', f.where(drain[0]), 'the wake-up byte drain happens before the dequeue and is not reachable after it', ok, function=f.q, how='recv line %s, RemoveHead line %s' % (drain[0].get('l'), d0.get('l')),
           key='WAIT-ORDER|%s|drain-first' % f.q,
           message='WaitForNextMessageAux can drain the wake-up byte after its dequeue attempt: a Message enqueued in between has its signal swallowed and the receiver blocks with a non-empty queue (lost wake-up)')
    # the drain is on the socket-signalling path: guarded only by (_useMessagingSockets, fd >= 0)
    for b in blocks:
        if fb is f:
            pre = P.must_precede(f, deq, b)
            held = cl.may_held_at(f, b)
        else:
            pre = bool(fb_calls) and all(P.must_precede(f, deq, c_) for c_ in fb_calls)
            held = set(cl.may_held_at(fb, b)) | set(k_ for c_ in fb_calls for k_ in cl.may_held_at(f, c_))
        res.ob('WAIT-ORDER', fb.where(b), 'blocking %s is preceded by the dequeue attempt and runs without a lock' % (b.get('q') or '').split('::')[-1], pre and not held, function=f.q,
               how='lock set %s' % sorted(held), key='WAIT-ORDER|%s|block:%s' % (f.q, (b.get('q') or '').split('::')[-1]),
               message='WaitForNextMessageAux %s' % ('blocks while holding a lock' if held else 'can block without having tried to dequeue first: an already queued Message is not delivered until the next signal'))
        esc = P.escape_edges(fb, extra=lambda n, pol: ('false' if pol else 'true') if (n.is_call() and (n.get('q') or '').endswith('::IsSocketReadyForRead')) else None)
        okf, path = P.must_follow(fb, b, rec, escapes=esc)
        res.ob('WAIT-ORDER', fb.where(b), 'after %s returns OK the function re-enters itself to dequeue' % (b.get('q') or '').split('::')[-1], okf, function=f.q,
               key='WAIT-ORDER|%s|recheck:%s' % (f.q, (b.get('q') or '').split('::')[-1]),
               message='after waking up WaitForNextMessageAux can return without trying to dequeue again: the Message that caused the wake-up is not delivered')
    # ---------------------------------------------------------------------------------- WaitCondition
    res.rule('WAITCOND', 'WaitCondition: the pending-notification counter is touched only under _conditionMutex (lambdas passed to the native wait run under it); every native wait carries a predicate '
                         'on the counter; NotifyAux increments under the mutex', floor=4)
    wfuncs = [g for g in fx.funcs.values() if g.full and (g.cls == WC or (g.cls or '').startswith(WC + '::'))]
    wcl = L.ClassLocks(fx, [g for g in wfuncs if '(lambda)' not in g.q])
    lambdas = [g for g in wfuncs if '(lambda)' in g.q]
    n_w = 0
    for g in sorted(wfuncs, key=lambda g: g.line):
        if g.q.split('::')[-1] in ('(ctor)', '(dtor)'):
            continue
        for m in g.walk():
            if m['k'] == 'MemberExpr' and m.get('n') == '_pendingNotificationsCount':
                n_w += 1
                if '(lambda)' in g.q:
                    continue
                held = wcl.held_at(g, m)
                res.ob('WAITCOND', g.where(m), '_pendingNotificationsCount in %s under _conditionMutex' % g.q.split('::')[-1], ('this', '_conditionMutex') in held, function=g.q,
                       how='lock set %s' % sorted(held), key='WAITCOND|%s|counter' % g.q, message='%s touches the notification counter without _conditionMutex' % g.q)
    # native waits with predicate lambdas
    nn = 0
    for g in wfuncs:
        if '(lambda)' in g.q:
            continue
        for c in g.walk():
            if c.is_call() and re.search(r'condition_variable(_any)?::(wait|wait_until|wait_for)$', c.get('q') or ''):
                nn += 1
                lam = [x for x in c.walk() if x['k'] == 'LambdaExpr']
                pred_ok = False
                for l in lam:
                    body = fx.funcs.get(l.get('fn'))
                    if body is not None and body.full:
                        for r in (x for x in body.walk() if x['k'] == 'ReturnStmt' and x['ch']):
                            z = [A.zero_test(a, t) for (a, t) in A.implied_atoms(r['ch'][0], True)]
                            if any(y is not None and not y[1] and A.strip_casts(y[0]).get('n') == '_pendingNotificationsCount' for y in z):
                                pred_ok = True
                if not lam:
                    # the hand-written form of the same thing: while (count == 0) cv.wait(lock);
                    pb = P.pos_of(g, c)
                    for (h, lbody) in C.natural_loops(g):
                        if pb and pb[0] in lbody:
                            for (cn, t) in G.atoms_at(g, c):
                                z = A.zero_test(cn, t)
                                if z is not None and z[1] and A.strip_casts(z[0]).get('n') == '_pendingNotificationsCount' and P.pos_of(g, cn) and P.pos_of(g, cn)[0] in lbody | {h}:
                                    pred_ok = True
                held = wcl.held_at(g, c)
                res.ob('WAITCOND', g.where(c), 'native %s in %s has the predicate (_pendingNotificationsCount > 0) and holds the mutex' % ((c.get('q') or '').split('::')[-1], g.q.split('::')[-1]),
                       pred_ok and ('this', '_conditionMutex') in held, function=g.q, key='WAITCOND|%s|predicate' % g.q,
                       message='%s waits on the condition variable without the counter predicate: a notification sent before the wait began is lost, and spurious wake-ups return early' % g.q)
    if nn < 2:
        raise AnalysisBroken('WAITCOND: expected two native waits, found %d' % nn)
    g = fx.fn1(WC + '::NotifyAux')
    inc = P.calls(g, r'::IncreaseNotificationsCount$')
    ok = bool(inc) and all(('this', '_conditionMutex') in wcl.held_at(g, c) for c in inc)
    esc = P.escape_edges(g)
    okm = bool(inc) and C.must_pass(g, (g.entry, -1), set(P.pos_of(g, c) for c in inc), avoid_edges=set(e for e in esc) | early_return_edges(g))[0]
    res.ob('WAITCOND', g.where(), 'NotifyAux increases the counter under _conditionMutex on every path with a non-zero increment', ok and okm, function=g.q, key='WAITCOND|%s|increment' % g.q,
           message='NotifyAux can return without recording the notification under the mutex: a waiter that checks the predicate afterwards blocks forever')
    # ---------------------------------------------------------------------------------- shutdown / start
    res.rule('LIFECYCLE', 'ShutdownInternalThread sends the NULL Message before it joins; StartInternalThread signals the new thread if Messages were queued before the start', floor=2)
    f = fx.fn1(TH + '::ShutdownInternalThread')
    snd = [c for c in P.calls(f, r'::SendMessageToInternalThread$') if c.args() and not any(x['k'] in ('DeclRefExpr', 'MemberExpr') for x in c.args()[0].walk())]
    jn = P.calls(f, r'::WaitForInternalThreadToExit$')
    ok = bool(snd) and bool(jn) and all(P.must_precede(f, snd, j) for j in jn)
    res.ob('LIFECYCLE', f.where(), 'the quit request (NULL MessageRef) is sent before waiting for the internal thread to exit', ok, function=f.q, key='LIFECYCLE|%s|quit-before-join' % f.q,
           message='ShutdownInternalThread can wait for the internal thread without having told it to quit: the join never returns')
    # the wake-up sockets and the flag that says they exist change together: a restart after a shutdown re-creates them only if the flag was cleared with them
    n_sock = 0
    for g in sorted((g for g in fx.funcs.values() if g.full and g.cls == TH), key=lambda g: g.line):
        if g.q.split('::')[-1] in ('(ctor)', '(dtor)'):
            continue
        rs = [c for c in g.walk() if c['k'] == 'CXXMemberCallExpr' and (c.get('q') or '').endswith('::Reset') and c.receiver() is not None and A.strip_casts(c.receiver()).get('n') == '_messageSocket']
        # only the function that closes BOTH ends (index not a constant); the internal thread resetting just its own end on exit (to wake the owner with EOF) is a different event
        rs = [c for c in rs if not any(x['k'] == 'ArraySubscriptExpr' and 'v' in A.strip_casts(x['ch'][1]) for x in c.receiver().walk())]
        if not rs:
            continue
        n_sock += 1
        clr = [n for n in g.walk() if n['k'] == 'BinaryOperator' and n.get('op') == '=' and A.strip_casts(n['ch'][0]).get('n') == '_messageSocketsAllocated' and A.strip_casts(n['ch'][1]).get('v') in (0, False)]
        okc = bool(clr) and all(P.must_follow(g, r, clr)[0] for r in rs)
        res.ob('LIFECYCLE', g.where(rs[0]), '%s: resetting the wake-up sockets is followed by _messageSocketsAllocated = false' % g.q.split('::')[-1], okc, function=g.q, key='LIFECYCLE|%s|sockets-flag' % g.q,
               message='%s closes the wake-up sockets but leaves _messageSocketsAllocated set: after a shutdown the next StartInternalThread() skips creating the socket pair, the restarted thread has no '
                       'wake-up socket and never receives the Messages sent to it' % g.q)
    if n_sock < 1:
        raise AnalysisBroken('LIFECYCLE: no function resets the wake-up sockets')
    f = fx.fn1(TH + '::StartInternalThread')
    mi_ = fx.enum_const('MESSAGE_THREAD_INTERNAL')
    pk = [v for v in f.walk() if v['k'] == 'VarDecl' and v['ch'] and any(x.get('q') == MSGS for x in v['ch'][0].walk())]
    okq = bool(pk)
    for v in pk:
        subs = [x for x in v['ch'][0].walk() if x['k'] == 'ArraySubscriptExpr']
        okq = okq and bool(subs) and all(A.strip_casts(x['ch'][1]).get('v') == mi_ for x in subs)
    res.ob('LIFECYCLE', f.where(pk[0]) if pk else f.where(), 'StartInternalThread looks at the INTERNAL thread\'s queue when it decides on the initial signal', okq, function=f.q, key='LIFECYCLE|%s|which-queue' % f.q,
           message='StartInternalThread decides on the initial wake-up signal from a queue other than _threadData[MESSAGE_THREAD_INTERNAL]: Messages queued for the internal thread before the start produce no '
                   'signal; a thread that blocks on its wake-up socket first never sees them, and since signals are sent only on the empty-to-non-empty transition, nothing ever wakes it')
    sig = P.calls(f, r'::SignalInternalThread$')
    start = P.calls(f, r'::StartInternalThreadAux$')

    def internal_queue_state(cn, t):
        """True / False if the atom says that the INTERNAL thread's Message queue is empty / non-empty (any spelling, through named locals), else None"""
        for (c2, t2) in G.atoms_of_cond(f, cn, t):
            em = A.emptiness(c2, t2)
            if em is not None and em[0] is not None and any(x.get('q') == MSGS for x in em[0].walk()) \
                    and all(A.strip_casts(x['ch'][1]).get('v') == mi_ for x in em[0].walk() if x['k'] == 'ArraySubscriptExpr'):
                return em[1]
        return None
    ok = bool(sig) and bool(start)
    if ok:
        ok = any(internal_queue_state(cn, t) is False for (cn, t) in G.atoms_at(f, sig[0])) and P.must_precede(f, start, sig[0])
        # on every path where the start succeeded and the queue was found non-empty the signal is reached
        esc = set(P.escape_edges(f, null=False))
        for blk in f.blocks.values():
            if blk.cond is None or blk.cond not in f.nodes or len(blk.succ) != 2:
                continue
            for idx, truth in ((0, True), (1, False)):
                if internal_queue_state(f.nodes[blk.cond], truth) is True:
                    esc.add((blk.b, idx))
        ok = ok and P.must_follow(f, start[0], sig, escapes=esc)[0]
    res.ob('LIFECYCLE', f.where(), 'StartInternalThread signals the internal thread after starting it when Messages were already queued', ok, function=f.q, key='LIFECYCLE|%s|initial-signal' % f.q,
           message='Messages queued before StartInternalThread are not announced to the new thread: it sleeps with a non-empty queue')
    round3_rules(res, fx)
    round5_rules(res, fx)
    # ---- FD-VALID: descriptor 0 is a valid descriptor
    res.rule('FD-VALID', 'in system/Thread.cpp a file descriptor (a value read with GetFileDescriptor()) is tested for validity against 0 only with `>= 0` / `< 0`: descriptor 0 is what a socket gets '
                         'in a process that has closed stdin', floor=2)
    n_fd = 0
    for g in sorted((g for g in fx.funcs.values() if g.full and g.file.endswith('system/Thread.cpp')), key=lambda g: g.line):
        fdl = set(v['d'] for v in g.walk() if v['k'] == 'VarDecl' and v['ch'] and any(x.is_call() and (x.get('q') or '').endswith('::GetFileDescriptor') for x in v['ch'][0].walk()))
        for c in g.walk():
            if c['k'] != 'BinaryOperator' or c.get('op') not in ('<', '<=', '>', '>=', '==', '!='):
                continue
            forms = A.rel_forms(c, True)
            hit = [(l_, op_, r_) for (l_, op_, r_) in forms if r_.get('v') == 0 and ((l_['k'] == 'DeclRefExpr' and l_.get('d') in fdl) or (l_.is_call() and (l_.get('q') or '').endswith('::GetFileDescriptor')))]
            if not hit:
                continue
            n_fd += 1
            (l_, op_, r_) = hit[0]
            ok = op_ in ('>=', '<')
            res.ob('FD-VALID', g.where(c), '%s line %s: `%s` treats descriptor 0 as valid' % (g.q.split('::')[-1], c.get('l'), c.text(30)), ok, function=g.q, key='FD-VALID|%s|%s' % (g.q, c.text(30)),
                   message='%s tests a file descriptor with `%s`: descriptor 0 counts as invalid, so when one end of the Thread\'s socket pair is fd 0 (stdin closed, as in a daemon) every signal byte '
                           'for that end is silently skipped — the peer is never woken although its Message is queued' % (g.q, c.text(30)))
    if n_fd < 2:
        raise AnalysisBroken('FD-VALID: only %d descriptor validity tests found in system/Thread.cpp' % n_fd)
    # ---- SIGNAL-HAS-SOCKETS: a wake-up can only be sent once the sockets exist
    fst = fx.fn1(TH + '::StartInternalThread') if 'TH' in globals() else fx.fn1('muscle::Thread::StartInternalThread')
    aux = [c for c in fst.walk() if c.is_call() and (c.get('q') or '').endswith('::StartInternalThreadAux')]
    sigs = [c for c in fst.walk() if c.is_call() and re.search(r'Thread::(SignalOwner|SignalInternalThread|SignalAux)$', c.get('q') or '')]
    if not aux:
        raise AnalysisBroken('SEND-ORDER: StartInternalThread: the call of StartInternalThreadAux was not found')
    early = [c for c in sigs if not P.must_precede(fst, aux, c)]
    res.ob('SEND-ORDER', fst.where(early[0]) if early else fst.where(aux[0]), 'StartInternalThread signals only after StartInternalThreadAux() (which creates the signalling sockets)', not early,
           function=fst.q, key='SEND-ORDER|%s|signal-after-sockets' % fst.q,
           message='StartInternalThread calls %s before StartInternalThreadAux(): on a first start and on every restart the socket pair does not exist yet (CloseSockets() cleared it), so the signal is '
                   'dropped — replies already queued are never announced, and since a signal is sent only when the queue goes from empty to non-empty, no later reply is announced either'
                   % ((early[0].get('q') or '').split('::')[-1] if early else ''))
    fie = [g for g in fx.funcs.values() if g.full and g.q.endswith('Thread::InternalThreadEntryAux')]
    if fie:
        from msa import ip as IP
        so, under = [], False
        for g_ in IP.scope(fx, fie[0], r'^muscle::Thread::(?!InternalThreadEntry$|SignalOwner$|SignalAux$)'):       # the start-up block may have been extracted into a private helper
            so_g = [c for c in g_.walk() if c.is_call() and (c.get('q') or '').endswith('Thread::SignalOwner')]
            so += so_g
            under = under or any(any(A.emptiness(cn, t) is not None and A.emptiness(cn, t)[1] is False for (cn, t) in G.atoms_at(g_, c)) for c in so_g)
        res.ob('SEND-ORDER', fie[0].where(so[0]) if so else fie[0].where(), 'the new thread announces replies that were queued before it started', bool(so) and under, function=fie[0].q,
               key='SEND-ORDER|%s|announce-queued-replies' % fie[0].q,
               message='InternalThreadEntryAux no longer signals the owner when the reply queue already holds Messages at start-up (queued in advance, or left over from before a restart): the owner, '
                       'waiting on its wake-up socket, is never told about them')
    res.explanation = ('Static decision of the hand-off structure between a Thread and its owner: %d accesses to the Message queues all under the queue\'s own lock; enqueue and the first-Message decision in one '
                       'critical section, signalling after it and to the right side; in the receiver the wake-up drain precedes the dequeue and cannot occur between dequeue and block, every blocking call is '
                       'preceded by a dequeue attempt, holds no lock, and is followed by a re-entry that dequeues again; the wait condition counts notifications under its mutex and waits with a predicate. '
                       'Interleavings and FIFO across senders are not explored.' % n_acc)
    res.assumptions = ['socket pair delivers the signal byte; std::condition_variable semantics']
    res.not_decided = ['exactly-once / in-order delivery over interleavings', 'join liveness']


def round3_rules(res, fx):
    # DRAIN: the owner is signalled only when the reply queue goes from empty to non-empty (SEND-ORDER), so whoever answers that signal must take replies until none is left
    res.rule('DRAIN', 'Thread::DispatchCallbacks dequeues replies in a loop whose continuation is the success of the dequeue (it empties the queue: the next signal comes only after the queue was empty)', floor=1)
    f = fx.fn1(TH + '::DispatchCallbacks')
    deq = P.calls(f, r'::GetNextReplyFromInternalThread$')
    ok = False
    for c in deq:
        for (h, body) in C.natural_loops(f):
            cnd = f.blocks[h].cond
            exits = [f.nodes[f.blocks[b].cond] for b in body if f.blocks[b].cond is not None and f.blocks[b].cond in f.nodes and any(s_ is not None and s_ >= 0 and s_ not in body for s_ in f.blocks[b].succ)]
            if any(c in list(A.walk_through_locals(f, e)) or any(x is c for x in e.walk()) for e in exits):
                ok = True
    res.ob('DRAIN', f.where(deq[0]) if deq else f.where(), 'DispatchCallbacks takes replies until GetNextReplyFromInternalThread() fails', ok, function=f.q, key='DRAIN|%s' % f.q,
           message='DispatchCallbacks takes at most one reply per callback: SendMessageAux() signals the owner only when the reply queue goes from empty to non-empty, so replies queued behind the '
                   'first are never announced again and, because the queue never becomes empty, neither is any later reply — they are never delivered')
    # EAGER-INIT: objects that both threads reach through a lazily constructing holder are constructed before the internal thread can exist
    res.rule('EAGER-INIT', 'Thread::Thread calls EnsureObjectConstructed() on the per-direction wait conditions (DemandConstructedObject constructs on first use with an unsynchronised test; the '
                           'owner\'s first Notify() and the internal thread\'s first Wait() would race to construct it)', floor=1)
    ctors = [g for g in fx.funcs.values() if g.full and g.q == TH + '::(ctor)']
    if not ctors:
        raise AnalysisBroken('EAGER-INIT: Thread constructor not found')
    lazy_used = any(x['k'] == 'MemberExpr' and x.get('n') == '_waitCondition' and 'DemandConstructedObject' in x.type() for g in fx.funcs.values() if g.full and g.q.startswith(TH + '::') for x in g.walk())
    eager = any(c.is_call() and (c.get('q') or '').endswith('::EnsureObjectConstructed') and any(x['k'] == 'MemberExpr' and x.get('n') == '_waitCondition' for x in c.walk()) for g in ctors for c in g.walk())
    res.ob('EAGER-INIT', ctors[0].where(), 'the wait conditions are constructed in the Thread constructor', eager or not lazy_used, function=ctors[0].q, key='EAGER-INIT|%s' % TH,
           how='_waitCondition is a DemandConstructedObject: %s' % lazy_used,
           message='Thread::Thread no longer constructs the DemandConstructedObject<WaitCondition> members eagerly: the first Notify() by the owner and the first Wait() by the internal thread can '
                   'both construct the same object, the second construction wipes the pending notification, and the wake-up is lost for good')
    # EINTR: a blocking wait that was interrupted by a signal is not an error
    res.rule('EINTR', 'SocketMultiplexer::FDState::WaitForEvents: every error return after a failed select()/poll() is taken only when PreviousOperationWasInterrupted() is false', floor=1)
    n = 0
    for g in sorted((g for g in fx.funcs.values() if g.full and g.q.endswith('FDState::WaitForEvents')), key=lambda g: (g.file, g.line)):
        sys = [c for c in g.walk() if c.is_call() and (c.get('q') or '') in ('select', 'poll', 'epoll_wait', 'kevent')]
        holders = set(v['d'] for v in g.walk() if v['k'] == 'VarDecl' and v['ch'] and any(x in sys for x in v['ch'][0].walk()))
        for r in (x for x in g.walk() if x['k'] == 'ReturnStmt' and x['ch']):
            failed = False
            for (a, t) in G.atoms_at(g, r):
                for (l_, op_, r_) in A.rel_forms(a, t):
                    if op_ in ('<',) and r_.get('v') == 0 and (l_.get('d') in holders or any(x in sys for x in l_.walk())):
                        failed = True
            if not failed:
                continue
            n += 1
            # the returned value either is the result of the ?: on PreviousOperationWasInterrupted(), or the return is dominated by its false edge
            okr = any(x.is_call() and (x.get('q') or '').endswith('PreviousOperationWasInterrupted') for x in A.walk_through_locals(g, r['ch'][0])) or \
                any(a.is_call() and (a.get('q') or '').endswith('PreviousOperationWasInterrupted') and not t for (a, t) in G.atoms_at(g, r))
            res.ob('EINTR', g.where(r), 'WaitForEvents: a failed %s returns an error only if it was not interrupted' % '/'.join(sorted(set((c.get('q') or '') for c in sys))), okr, function=g.q,
                   key='EINTR|%s|%s' % (g.q, r.get('l')),
                   message='SocketMultiplexer::FDState::WaitForEvents returns the errno of an interrupted %s as an error: Thread::WaitForNextMessageAux() passes it on, the stock InternalThreadEntry() '
                           'tolerates only B_TIMED_OUT, so a handled signal delivered to an idle internal thread makes it exit silently and every later Message is queued but never received'
                           % '/'.join(sorted(set((c.get('q') or '') for c in sys))))
    if n < 1:
        raise AnalysisBroken('EINTR: no error return after a failed select()/poll() found in SocketMultiplexer::FDState::WaitForEvents')

    # NFDS-COVERS: select() looks only at descriptors below its first argument, so that argument has to cover every set that is handed over
    res.rule('NFDS-COVERS', 'SocketMultiplexer::FDState::WaitForEvents: the local that bounds select()\'s descriptor range is, wherever it is assigned inside a loop, the maximum of its own '
                            'previous value and the new candidate (a running maximum over all descriptor sets, not the last set\'s value)', floor=1)
    n = 0
    for g in sorted((g for g in fx.funcs.values() if g.full and g.q.endswith('FDState::WaitForEvents')), key=lambda g: (g.file, g.line)):
        sel = [c for c in g.walk() if c.is_call() and (c.get('q') or '') == 'select' and c.args()]
        if not sel:
            continue
        in_loop = set()
        for (h, body) in C.natural_loops(g):
            in_loop |= set(body)
        vdecl = dict((v['d'], v) for v in g.walk() if v['k'] == 'VarDecl' and v.get('d') is not None)
        for c in sel:
            bound = set(x['d'] for x in A.walk_through_locals(g, c.args()[0]) if x['k'] == 'DeclRefExpr' and x.get('d') in vdecl and A.is_integral_type(vdecl[x['d']].type()))
            for a in g.walk():
                if not (a['k'] in ('BinaryOperator', 'CompoundAssignOperator') and a.get('op') == '=' and A.strip_casts(a['ch'][0]).get('d') in bound):
                    continue
                if P.pos_of(g, a)[0] not in in_loop:
                    continue
                v = A.strip_casts(a['ch'][0])['d']
                n += 1
                mm = A.min_max(a['ch'][1], g)
                keeps = mm is not None and mm[0] == 'max' and any(x.get('d') == v for x in mm[1])
                if not keeps:
                    # the guarded form: if (candidate > bound) bound = candidate
                    rk = A.render_key(a['ch'][1])
                    for (at, t) in G.atoms_at(g, a):
                        for (l_, op_, r_) in A.rel_forms(at, t):
                            if (op_ in ('>', '>=') and A.render_key(l_) == rk and A.strip_casts(r_).get('d') == v) or (op_ in ('<', '<=') and A.render_key(r_) == rk and A.strip_casts(l_).get('d') == v):
                                keeps = True
                res.ob('NFDS-COVERS', g.where(a), 'the select() bound `%s` is a running maximum' % (vdecl[v].get('n') or '?'), keeps, function=g.q, key='NFDS-COVERS|%s|%s' % (g.q, vdecl[v].get('n')),
                       how='max(previous, candidate)' if keeps else 'plain overwrite inside a loop',
                       message='SocketMultiplexer::FDState::WaitForEvents overwrites the descriptor bound it passes to select() on every pass of the loop over the descriptor sets instead of '
                               'maximising it: select() ignores every descriptor at or above its first argument, so a wake-up socket registered for reading whose number is higher than the '
                               'highest descriptor of the last non-empty set is never watched and the wake-up is lost')
    if n < 1:
        raise AnalysisBroken('NFDS-COVERS: no in-loop assignment to the bound of select() found in SocketMultiplexer::FDState::WaitForEvents')


def round5_rules(res, fx):
    # TIMEOUT-TOLERATED: with socket-pair signalling the wake-up byte can arrive after the Message it announces was already taken; the wait then wakes, finds nothing and reports B_TIMED_OUT
    res.rule('TIMEOUT-TOLERATED', 'Thread::InternalThreadEntry leaves its loop because WaitForNextMessageFromOwner() failed only where the status was compared with B_TIMED_OUT and found different '
                                  '(a late wake-up byte makes the wait report B_TIMED_OUT although no timeout was asked for)', floor=1)
    f = fx.fn1(TH + '::InternalThreadEntry')
    waits = P.calls(f, r'::WaitForNextMessageFromOwner$')
    if not waits:
        raise AnalysisBroken('TIMEOUT-TOLERATED: InternalThreadEntry does not call WaitForNextMessageFromOwner')
    holders = set(v['d'] for v in f.walk() if v['k'] == 'VarDecl' and v['ch'] and any(x in waits for x in v['ch'][0].walk()))
    def about_wait(a):
        return any((x['k'] == 'DeclRefExpr' and x.get('d') in holders) or x in waits for x in a.walk())
    n = 0
    exits = []
    for (h, body) in C.natural_loops(f):
        if not any(P.pos_of(f, w)[0] in body for w in waits):
            continue
        for b in sorted(body):
            blk = f.blocks[b]
            for idx, s_ in enumerate(blk.succ):
                if s_ is None or s_ < 0 or s_ in body:
                    continue
                atoms = list(G.atoms_at(f, b))
                if blk.cond is not None and blk.cond in f.nodes and len(blk.succ) == 2:
                    atoms += list(G.atoms_of_cond(f, f.nodes[blk.cond], idx == 0))
                exits.append((b, atoms))
    # exits through `return` inside the loop
    for r in (x for x in f.walk() if x['k'] == 'ReturnStmt'):
        exits.append((P.pos_of(f, r)[0], list(G.atoms_at(f, r))))
    for (b, atoms) in exits:
        failed = False
        tolerated = False
        for (a, t) in atoms:
            core, pol = P.strip_not(a, t)
            st = P.is_status_test(core) if core.is_call() else None
            if st and ((st == 'err') == pol) and about_wait(core):
                failed = True
            if core.is_call() and (core.get('q') or '').split('::')[-1] in ('operator==', 'operator!=') and about_wait(core) \
                    and any(x['k'] == 'DeclRefExpr' and (x.get('q') or '').endswith('::B_TIMED_OUT') for x in core.walk()):
                is_eq = (core.get('q') or '').endswith('operator==')
                if (is_eq and not pol) or (not is_eq and pol):
                    tolerated = True
        if not failed:
            continue
        n += 1
        blk = f.blocks[b]
        where = '%s:%s' % (f.file, f.nodes[blk.elems[0]].get('l') if blk.elems and isinstance(blk.elems[0], int) and blk.elems[0] in f.nodes else f.line)
        res.ob('TIMEOUT-TOLERATED', where, 'InternalThreadEntry gives up after a failed wait only when the failure is not B_TIMED_OUT', tolerated, function=f.q, key='TIMEOUT-TOLERATED|%s|%d' % (f.q, n),
               message='Thread::InternalThreadEntry leaves its loop on any error of WaitForNextMessageFromOwner(), B_TIMED_OUT included: when the owner\'s wake-up byte arrives after the internal thread '
                       'already took the Message it announces, the next wait wakes, finds the queue empty and reports B_TIMED_OUT — the internal thread then exits unasked and every later Message '
                       'stays in the queue, never received')
    if n < 1:
        raise AnalysisBroken('TIMEOUT-TOLERATED: no loop exit after a failed WaitForNextMessageFromOwner() found in InternalThreadEntry')
    # CLEAR-FIRST: the dispatch side clears its pending flag BEFORE it collects the work, or a request made in between is recorded but never signalled
    res.rule('CLEAR-FIRST', 'ICallbackMechanism::DispatchCallbacks resets _signalPending before it calls DispatchCallbacksImplementation() (a request made while dispatching must find the flag clear and '
                            'signal again: senders signal only on the 0 -> 1 transition)', floor=1)
    gs = [g for g in fx.funcs.values() if g.full and g.q == 'muscle::ICallbackMechanism::DispatchCallbacks']
    if not gs:
        raise AnalysisBroken('CLEAR-FIRST: ICallbackMechanism::DispatchCallbacks has no analysed body')
    g = gs[0]
    imp = P.calls(g, r'::DispatchCallbacksImplementation$')
    def clears(c):
        if not (c['k'] == 'CXXMemberCallExpr' and c.receiver() is not None and A.strip_casts(c.receiver()).get('n') == '_signalPending'):
            return False
        m = (c.get('q') or '').split('::')[-1]
        args = c.args()
        if m == 'SetCount':
            return bool(args) and A.strip_casts(args[0]).get('v') == 0
        if m in ('ConditionalSetCount', 'GetAndSetCount'):
            return bool(args) and A.strip_casts(args[-1]).get('v') == 0
        return False
    clr = [c for c in g.walk() if c.is_call() and clears(c)]
    if not imp:
        raise AnalysisBroken('CLEAR-FIRST: DispatchCallbacks does not call DispatchCallbacksImplementation')
    ok = bool(clr) and all(P.must_precede(g, clr, i) for i in imp)
    res.ob('CLEAR-FIRST', g.where(imp[0]), 'the pending flag is cleared before the callbacks are collected', ok, function=g.q, key='CLEAR-FIRST|%s' % g.q, how='%d clearing call(s)' % len(clr),
           message='ICallbackMechanism::DispatchCallbacks clears _signalPending only after DispatchCallbacksImplementation(): a reply sent by the internal thread after the owner drained the queue but '
                   'before the flag is cleared finds the flag still set and sends no signal, then the flag is cleared — the reply is queued, nobody is woken, and because senders signal only on the '
                   'first queued item no later reply is announced either')


def early_return_edges(g):
    """edges of `if (x == 0) return` style early exits on a by-value parameter (no-op requests)"""
    out = set()
    pds = set(p['d'] for p in g.params)
    for blk in g.blocks.values():
        if blk.cond is None or blk.cond not in g.nodes or len(blk.succ) != 2:
            continue
        for truth in (True, False):
            z = A.zero_test(g.nodes[blk.cond], truth)
            if z is not None and z[1] and z[0]['k'] == 'DeclRefExpr' and z[0].get('d') in pds:
                out.add((blk.b, 0 if truth else 1))
    return out
