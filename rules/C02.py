"""C02  Parsing untrusted bytes is memory-safe, terminates, costs O(input).
Rule families: TAINT->SINK guard dominance, R-REC, R-CRASH, PROGRESS on the parser loops, STICKY status discipline,
plus the obligations on the reader primitives everything rests on.  See DESIGN.md 3.2-3.4, 3.9 and section 4 (C02)."""
import re
from msa import taint as T
from msa import ast as A
from msa import guards as G
from msa import pair as P
from msa import cfg as C
from msa import reach as R
from msa import sticky as S
from msa.callgraph import CallGraph
from msa.facts import AnalysisBroken
from . import common
from .C07 import progress_rule

# files whose functions are analysed as parsers of untrusted bytes
TAINT_FILES = re.compile(r'^(message/Message\.cpp|message/Message\.h|message/MessageImpl\.h|support/DataUnflattener\.h|iogateway/.*\.(cpp|h)|zlib/ZLibCodec\.cpp|util/String\.(cpp|h)|'
                         r'util/ByteBuffer\.(cpp|h)|lang/c/minimessage/.*\.c|lang/c/micromessage/MicroMessageGateway\.c)$')
# where an unbounded wire-declared allocation violates the O(input) clause
PARSER_FILES = re.compile(r'^(message/Message\.cpp|message/Message\.h|message/MessageImpl\.h|support/DataUnflattener\.h|util/String\.(cpp|h)|util/ByteBuffer\.(cpp|h)|lang/c/minimessage/MiniMessage\.c)$')

PARSE_ENTRIES = ['muscle::Message::Unflatten', 'muscle::Message::TemplatedUnflatten', 'MMUnflattenMessage',
                 'muscle::MessageIOGateway::DoInputImplementation', 'muscle::TemplatingMessageIOGateway::UnflattenHeaderAndMessage',
                 'muscle::PacketTunnelIOGateway::DoInputImplementation', 'muscle::MiniPacketTunnelIOGateway::DoInputImplementation',
                 'muscle::WebSocketMessageIOGateway::DoInputImplementation', 'muscle::PlainTextMessageIOGateway::DoInputImplementation',
                 'muscle::RawDataMessageIOGateway::DoInputImplementation', 'muscle::SLIPFramedDataMessageIOGateway::DoInputImplementation',
                 'muscle::ZLibCodec::Inflate', 'muscle::String::Unflatten', 'muscle::ByteBuffer::Unflatten', 'MMDoInput', 'UMDoInput']
ANCHOR_FILES = [r'^message/', r'^support/DataUnflattener', r'^iogateway/', r'^zlib/ZLibCodec', r'^lang/c/', r'^util/(String|ByteBuffer)\.']

MUST_KINDS = ('READER', 'COPY', 'INDEX', 'PTRADD')


_WIDTH = {'signed char': 8, 'char': 8, 'short': 16, 'int': 32, 'long': 64, 'long long': 64}
_UWIDTH = {'unsigned char': 8, 'unsigned short': 16, 'unsigned int': 32, 'unsigned long': 64, 'unsigned long long': 64}


def sign_extend_sites(res, fx, eng, f, rule, is_src=None):
    """a value decoded from received bytes as a SIGNED integer narrower than the unsigned parameter it is passed to is sign-extended: a 16-bit length 0x8000..0xFFFF becomes 4 G - n.
    Obligation per such argument: the value is made unsigned at its own width first (cast to the unsigned type of the same width, or masked), or a dominating test says it is >= 0."""
    ft = eng.ft(f) if eng is not None else None
    n_sites = 0
    for c in f.walk():
        if not c.is_call():
            continue
        g = fx.funcs.get(c.get('fn')) if c.get('fn') else None
        if g is None or not g.params:
            continue
        args = ft.explicit_args(c) if ft is not None else (c.args()[1:] if c['k'] == 'CXXOperatorCallExpr' and len(c.args()) == len(g.params) + 1 else c.args())
        for k, a in enumerate(args):
            if k >= len(g.params):
                break
            at = a.type().replace('const ', '').strip()
            pt = g.ptype(g.params[k]).replace('const ', '').strip()
            if at not in _WIDTH or pt not in _UWIDTH or _UWIDTH[pt] <= _WIDTH[at]:
                continue
            if 'v' in A.strip_casts(a) or not (is_src(a) if is_src is not None else T.SRC in ft.et(a)):
                continue
            n_sites += 1
            nonneg = False
            for (cn, t) in G.atoms_at(f, c):
                for (l_, op_, r_) in A.rel_forms(cn, t):
                    if op_ in ('>=', '>') and r_.get('v') is not None and r_['v'] >= 0 and A.render_key(l_) == A.render_key(a):
                        nonneg = True
            res.ob(rule, f.where(c), '%s: wire-derived signed %s passed as %s `%s` of %s is known to be non-negative' % (f.q.split('::')[-1], at, pt, g.params[k].get('n'), g.q.split('::')[-1]), nonneg, function=f.q,
                   key='%s|%s|sign-extend:%s:%d' % (rule, f.q, g.q.split('::')[-1], k),
                   message='%s passes `%s` (a %d-bit signed value decoded from received bytes) to the %d-bit unsigned parameter `%s` of %s: values with the top bit set are sign-extended to '
                           '2^%d - n, so a frame that declares a length of 32768..65535 is taken to be about 4 GB long and the stream is lost (or memory is exhausted)'
                           % (f.q, a.text(60), _WIDTH[at], _UWIDTH[pt], g.params[k].get('n'), g.q, _UWIDTH[pt]))
    return n_sites


def taint_rule(res, fx, rule='TAINT'):
    res.rule(rule, 'every value decoded from received bytes that reaches a child-reader budget, copy length, pointer offset/index (and, inside the Message parsers, an allocation size) '
                   'is compared against a trusted bound on a dominating branch edge (or clamped / checked by the reader), and tainted +/* feeding a size is overflow-checked', floor=40)
    eng = T.Engine(fx, max_depth=3 if res.tier == 'quick' else 4)
    seen = set()
    n_alloc_info = 0
    for f in sorted(fx.funcs.values(), key=lambda f: (f.file, f.line, f.id)):
        if not f.full or not TAINT_FILES.search(f.file):
            continue
        if re.search(T.RE_READER, f.q):
            continue         # the reader primitives are judged with their parameters tainted (PRIMITIVE rule)
        sign_extend_sites(res, fx, eng, f, rule)
        for h in eng.sinks_in(f):
            if T.SRC not in h['origins']:
                continue
            kind = h['kind'].split('@')[0]
            via = h['kind'].split('@')[1] if '@' in h['kind'] else None
            n = h['node']
            site = (f.file, n.get('l'), kind, h['expr'].text())
            if site in seen:
                continue
            seen.add(site)
            if kind == 'ALLOCCOPY':
                args = n.args()
                src_null = len(args) < 2 or args[1]['k'] in ('CXXDefaultArgExpr', 'GNUNullExpr', 'CXXNullPtrLiteralExpr') or args[1].get('v') == 0
                kind = 'ALLOC' if src_null else 'COPY'
            bad_arith = [x for (x, oc) in h['arith'] if not oc]
            where = '%s:%s' % (f.file, n.get('l'))
            callee = (n.get('q') or n['k']).split('::')[-1]
            desc = '%s size/offset `%s` at %s%s' % (kind, h['expr'].text(80), n.text(70), (' (reaches %s inside %s)' % (kind, via)) if via else '')
            key = '%s|%s|%s:%s:%s' % (rule, f.q, kind, callee, A.strip_casts(h['expr']).text(60))
            must_bound = kind in MUST_KINDS or (kind == 'ALLOC' and PARSER_FILES.search(f.file))
            if kind == 'FILL' or (kind == 'ALLOC' and not must_bound):
                n_alloc_info += 1
                res.info(rule, where, 'wire-declared %s `%s` in %s: bound = %s (not forbidden outside the Message parsers)' % (kind, h['expr'].text(60), f.q, h['just'] or 'none'))
                if bad_arith:
                    res.ob(rule + '-ARITH', where, 'tainted arithmetic `%s` feeding an allocation is overflow-checked' % bad_arith[0].text(), False, function=f.q,
                           key='%s-ARITH|%s|%s' % (rule, f.q, bad_arith[0].text(60)),
                           message='`%s` can wrap around: the buffer is allocated too small for what is copied into it afterwards' % bad_arith[0].text())
                elif h['arith']:
                    res.ob(rule + '-ARITH', where, 'tainted arithmetic `%s` feeding an allocation is overflow-checked' % h['arith'][0][0].text(), True, how=h['arith'][0][1], function=f.q)
                continue
            ok = bool(h['just']) and not bad_arith
            msg = None
            # SAME-READER: bytes taken at R.GetCurrentReadPointer() must be bounded by R's remaining bytes
            if ok and kind in ('READER', 'COPY'):
                rr = None
                for x in n.walk():
                    if x['k'] == 'CXXMemberCallExpr' and (x.get('q') or '').endswith('DataUnflattenerHelper::GetCurrentReadPointer') and x.receiver() is not None:
                        rr = A.root_loc(x.receiver())
                if rr is not None and rr != ('tmp',):
                    ft = eng.ft(f)
                    jr = ft.bounded_by_remaining(h['expr'], n, rr)
                    if not jr:
                        ok = False
                        msg = ('%s: `%s` bytes are taken at the reader\'s current read pointer (%s) but the dominating bound (%s) is not that reader\'s remaining byte count '
                               '(GetNumBytesAvailable()): the copy/child reader can run past the end of the input' % (f.q, h['expr'].text(60), n.text(60), h['just'][:120]))
                    else:
                        h['just'] = jr + ' [same reader]'
            if not ok and msg is None:
                if not h['just']:
                    msg = ('%s: wire-derived `%s` reaches %s without a dominating comparison against a trusted bound: %s'
                           % (f.q, h['expr'].text(80), kind + (' in ' + via if via else ''),
                              {'READER': 'the child reader may read past the end of the input buffer', 'COPY': 'bytes are copied from/to outside the buffer',
                               'INDEX': 'out-of-bounds index', 'PTRADD': 'pointer leaves the buffer', 'ALLOC': 'a small input can demand an arbitrarily large allocation (O(input) clause)'}.get(kind, '')))
                else:
                    msg = '%s: `%s` can wrap around before it is used as %s size (no WillUnsigned*Overflow on a dominating edge)' % (f.q, bad_arith[0].text(), kind)
            res.ob(rule, where, desc, ok, how=(h['just'] or '') + (' | arith: ' + '; '.join(oc for (_, oc) in h['arith'] if oc) if h['arith'] else ''),
                   function=f.q, key=key, message=msg,
                   detail={'sink': n.text(120), 'size_expr': h['expr'].text(120), 'kind': kind, 'via': via} if not ok else None)
    res.extra['taint'] = {'sink_instances': len(seen), 'informational_allocations': n_alloc_info, 'summary_depth': eng.max_depth}
    return eng


def loop_modified_vars(f, body):
    """declaration ids of locals assigned, incremented or passed by address inside the given set of CFG blocks"""
    m = set()
    for b in body:
        for e in f.blocks[b].elems:
            if not isinstance(e, int):
                continue
            x = f.nodes.get(e)
            if x is None:
                continue
            if x['k'] in ('BinaryOperator', 'CompoundAssignOperator') and x.get('op') in A.ASSIGN_OPS:
                l = A.strip_casts(x['ch'][0])
                if l['k'] == 'DeclRefExpr' and 'd' in l:
                    m.add(l['d'])
            elif x['k'] == 'UnaryOperator' and (x.get('op', '').startswith('pre') or x.get('op', '').startswith('post')):
                l = A.strip_casts(x['ch'][0])
                if l['k'] == 'DeclRefExpr' and 'd' in l:
                    m.add(l['d'])
            elif x['k'] == 'UnaryOperator' and x.get('op') == '&' and x.parent is not None and x.parent.is_call():
                l = A.strip_casts(x['ch'][0])
                if l['k'] == 'DeclRefExpr' and 'd' in l:
                    m.add(l['d'])
    return m


def cursor_bound_rule(res, fx, eng, rule='CURSOR-BOUND'):
    """raw copy out of `&buffer[cursor]` / `buffer + cursor` inside a loop that advances the cursor: a bound that does not change in the loop (the field's total length)
    says nothing about what is left after earlier items; the dominating bound must depend on something the loop updates (the remaining count, or the cursor)."""
    res.rule(rule, 'a raw memcpy of a wire-derived length from buffer[cursor] inside a loop that advances the cursor is bounded by a quantity the loop updates (bytes left / cursor), not by a loop-invariant total', floor=1)
    for f in sorted(fx.funcs.values(), key=lambda f: (f.file, f.line, f.id)):
        if not f.full or not TAINT_FILES.search(f.file) or re.search(T.RE_READER, f.q):
            continue
        loops = None
        ft = None
        for c in f.walk():
            if not (c.is_call() and (c.get('q') or '') in ('memcpy', 'memmove') and len(c.args()) == 3):
                continue
            src, n = c.args()[1], c.args()[2]
            ft = ft or eng.ft(f)
            if not ft.et(n):
                continue
            if loops is None:
                loops = C.natural_loops(f)
            p = P_pos(f, c)
            if p is None:
                continue
            inl = [body for (h, body) in loops if p[0] in body]
            if not inl:
                continue
            # the innermost enclosing loop that advances a variable of the source address
            mod = set()
            for body in sorted(inl, key=len):
                mod = loop_modified_vars(f, body)
                if ft.vars_in(src) & mod:
                    break
            cursors = ft.vars_in(src) & mod
            if not cursors:
                continue
            lenvars = ft.vars_in(n)
            how = None
            seen_bound = None
            for (cn, truth) in ft.guards_at(c):
                for (a, why, cls, b) in ft.cond_upper_bounds(cn, truth):
                    if lenvars and lenvars <= ft.vars_in(a) and ft.monotone(a):
                        seen_bound = b
                        if (ft.vars_in(b) | ft.vars_in(a)) & mod - lenvars:
                            how = why
            res.ob(rule, f.where(c), '%s: copy of `%s` bytes from %s (cursor %s advances in the loop) is bounded by a loop-updated quantity' % (f.q, n.text(30), src.text(40), ','.join(sorted(x.get('n') or '?' for x in src.walk() if x.get('d') in cursors))),
                   bool(how), how=how, function=f.q, key='%s|%s|%s' % (rule, f.q, n.text(30)),
                   message='%s: `%s` bytes are copied from `%s` inside a loop that advances the cursor, but the only dominating bound on the length (`%s`) never changes in the loop: '
                           'a later item can extend past the end of the input' % (f.q, n.text(30), src.text(50), seen_bound.text(40) if seen_bound is not None else 'none'))


def P_pos(f, n):
    p = f.pos(n['i'])
    if p is None:
        for a in n.ancestors():
            p = f.pos(a['i'])
            if p is not None:
                break
    return p


def nul_slot_rule(res, fx, rule='NUL-SLOT'):
    """char buf[N];  n = Read(buf, S);  buf[n] = 0;   needs S <= N-1"""
    res.rule(rule, 'where a gateway reads into a local array `buf[N]` and afterwards stores through a non-constant index derived from the byte count (buf[n] = 0), the requested size is clamped '
                   '(muscleMin) by a constant <= N-1', floor=1)
    n_site = 0
    for f in sorted((f for f in fx.funcs.values() if f.full and f.file.startswith('iogateway/')), key=lambda f: (f.file, f.line)):
        arrays = {}
        for v in f.walk():
            if v['k'] == 'VarDecl':
                m = re.match(r'^(?:const )?(?:unsigned |signed )?char\s*\[(\d+)\]$', v.type().strip())
                if m:
                    arrays[v['d']] = (v, int(m.group(1)))
        if not arrays:
            continue
        for d, (v, N) in sorted(arrays.items()):
            stores = [n for n in f.walk() if n['k'] == 'BinaryOperator' and n.get('op') == '=' and A.strip_casts(n['ch'][0])['k'] == 'ArraySubscriptExpr'
                      and A.strip_casts(A.strip_casts(n['ch'][0])['ch'][0]).get('d') == d and 'v' not in A.strip_casts(A.strip_casts(n['ch'][0])['ch'][1])
                      and A.strip_casts(A.strip_casts(n['ch'][0])['ch'][1])['k'] == 'DeclRefExpr']
            reads = [c for c in f.walk() if c.is_call() and re.search(r'DataIO::(Read|ReadFrom)$', c.get('q') or '') and c.args() and A.strip_casts(c.args()[0]).get('d') == d and len(c.args()) >= 2]
            # only stores whose index is not a loop counter bounded by the count (buf[i] inside for(i<n)) — the terminator store is the one directly indexed by the count variable
            term = []
            for st in stores:
                idx = A.strip_casts(A.strip_casts(st['ch'][0])['ch'][1])
                in_for = any(a['k'] == 'ForStmt' and any(x['k'] == 'VarDecl' and x.get('d') == idx.get('d') for x in a.walk()) for a in st.ancestors())
                if not in_for:
                    term.append(st)
            if not reads or not term:
                continue
            for rd in reads:
                rp = P_pos(f, rd)
                if not any(P_pos(f, st) and rp and C.can_reach(f, rp, set([P_pos(f, st)])) for st in term):
                    continue
                n_site += 1
                size = rd.args()[1]
                consts = [a.get('v') for x in size.walk() if x.is_call() and T.MIN_LIKE.search(x.get('q') or '') for a in x.args() if a.get('v') is not None]
                if size.get('v') is not None:
                    consts.append(size['v'])
                bound = min(consts) if consts else None
                ok = bound is not None and bound <= N - 1
                res.ob(rule, f.where(rd), '%s: read into %s[%d] requests at most %s bytes, leaving the slot for the terminator' % (f.q.split('::')[-2], v.get('n'), N, bound), ok, function=f.q,
                       key='%s|%s|%s' % (rule, f.q, v.get('n')), how='size `%s`' % size.text(60),
                       message='%s reads up to %s bytes into `%s[%d]` and then stores a terminator at %s[count] (line %s): when one read fills the whole array the store lands one byte past it '
                               '(stack buffer overflow by one)' % (f.q, bound if bound is not None else 'an unclamped number of', v.get('n'), N, v.get('n'), term[0].get('l')))
    if n_site < 1:
        raise AnalysisBroken('%s: no read-then-terminate site on a local array found' % rule)


def borrow_scope_rule(res, fx, rule='BORROW-SCOPE'):
    """an unflattener (or other reader object) that is pointed at the bytes of a ref-counted buffer does not outlive the local Ref that keeps the buffer alive"""
    res.rule(rule, 'a reader that borrows the bytes of a buffer held by a local Ref (reader.SetBuffer(*ref()) / SetBuffer(ref()->GetBuffer(), ...)) is not used after that Ref is destroyed', floor=1)
    n = 0
    for f in sorted((f for f in fx.funcs.values() if f.full and TAINT_FILES.search(f.file)), key=lambda f: (f.file, f.line)):
        refs = {v['d']: v for v in f.walk() if v['k'] == 'VarDecl' and re.search(r'(^|::)(Const)?(ByteBufferRef|Ref<|ConstRef<)', v.type().replace('const ', '')) and not v.type().rstrip().endswith(('&', '*'))}
        if not refs:
            continue
        for c in f.walk():
            if c['k'] != 'CXXMemberCallExpr' or not re.search(r'::SetBuffer$', c.get('q') or '') or c.receiver() is None or not c.args():
                continue
            rcv = A.strip_casts(c.receiver())
            if rcv['k'] != 'DeclRefExpr' or 'd' not in rcv:
                continue
            used = [d for d in refs if any(x['k'] == 'DeclRefExpr' and x.get('d') == d for a in c.args() for x in a.walk())]
            if not used:
                continue
            n += 1
            R = refs[used[0]]
            # the implicit destructor element of R
            dpts = [(blk.b, i) for blk in f.blocks.values() for i, e in enumerate(blk.elems) if isinstance(e, tuple) and e[0] == 'D' and e[1] == R['d']]
            cp = P_pos(f, c)
            bad = None
            for dp in dpts:
                if not (cp and ((cp[0] == dp[0] and cp[1] < dp[1]) or C.can_reach(f, cp, set([dp])))):
                    continue
                for u in f.walk():
                    if u['k'] == 'DeclRefExpr' and u.get('d') == rcv['d']:
                        up = P_pos(f, u)
                        resets = set(P_pos(f, x) for x in f.walk() if x['k'] == 'CXXMemberCallExpr' and re.search(r'::SetBuffer$', x.get('q') or '') and x is not c and x.receiver() is not None
                                     and A.strip_casts(x.receiver()).get('d') == rcv['d'] and P_pos(f, x))
                        if up and ((dp[0] == up[0] and dp[1] < up[1]) or (dp[0] != up[0] and C.can_reach(f, dp, set([up]), avoid_points=resets | set([cp])))):
                            bad = u
            res.ob(rule, f.where(c), '%s: `%s` is not used after the Ref `%s` whose buffer it reads from is destroyed' % (f.q.split('::')[-2] if '::' in f.q else f.q, rcv.get('n'), R.get('n')), bad is None,
                   function=f.q, key='%s|%s|%s<-%s' % (rule, f.q, rcv.get('n'), R.get('n')),
                   message='%s: `%s` is pointed at the bytes of the buffer held by `%s` (line %s), but `%s` goes out of scope before `%s` is used again (line %s): the buffer has been recycled by then and '
                           'every chunk header and payload is read from freed memory' % (f.q, rcv.get('n'), R.get('n'), c.get('l'), R.get('n'), rcv.get('n'), bad.get('l') if bad is not None else ''))
    if n < 1:
        raise AnalysisBroken('%s: no reader.SetBuffer(<local Ref>) site found' % rule)


def dest_capacity_rule(res, fx, eng, rule='DEST-CAPACITY'):
    """memcpy/memmove of a wire-derived number of bytes INTO a ByteBuffer (dest = B.GetBuffer() [+ off]): besides the source-side bound that TAINT demands, the length
    (together with the offset) must be bounded by the capacity of that very buffer: a dominating comparison whose bound side is B.GetNumBytes() (or a local holding it)."""
    res.rule(rule, 'every copy of a wire-derived number of bytes into `B.GetBuffer() + off` is dominated by a comparison of (off +) length against B.GetNumBytes() of the same buffer object', floor=1)
    for f in sorted(fx.funcs.values(), key=lambda f: (f.file, f.line, f.id)):
        if not f.full or not TAINT_FILES.search(f.file) or re.search(T.RE_READER, f.q):
            continue
        ft = None
        for c in f.walk():
            if not (c.is_call() and (c.get('q') or '') in ('memcpy', 'memmove') and len(c.args()) == 3):
                continue
            dst, n = c.args()[0], c.args()[2]
            gb = [x for x in dst.walk() if x['k'] == 'CXXMemberCallExpr' and (x.get('q') or '') == 'muscle::ByteBuffer::GetBuffer' and x.receiver() is not None]
            if not gb:
                continue
            ft = ft or eng.ft(f)
            if not ft.et(n):
                continue
            R = T.P_canon(gb[0].receiver())
            lenvars = ft.vars_in(n)
            offvars = set()
            d0 = A.strip_casts(dst)
            if d0['k'] == 'BinaryOperator' and d0.get('op') == '+':
                offvars = ft.vars_in(d0['ch'][1]) - ft.vars_in(gb[0])

            def is_capacity(b, depth=0):
                b = A.strip_casts(b)
                if b['k'] == 'CXXMemberCallExpr' and (b.get('q') or '') == 'muscle::ByteBuffer::GetNumBytes' and b.receiver() is not None and T.P_canon(b.receiver()) == R:
                    return True
                if b['k'] == 'DeclRefExpr' and depth < 2:
                    d = ft.single_def(b)
                    return d is not None and is_capacity(d, depth + 1)
                return False
            how = None
            for (cn, truth) in ft.guards_at(c):
                for (a, why, cls, b) in ft.cond_upper_bounds(cn, truth):
                    if is_capacity(b) and lenvars and lenvars <= ft.vars_in(a) and (not offvars or offvars <= ft.vars_in(a)) and ft.monotone(a):
                        arith = [x for x in A.strip_casts(a).walk() if x['k'] == 'BinaryOperator' and x.get('op') in ('+', '*') and ft.et(x)]
                        if all(ft.overflow_checked(x, c) for x in arith):
                            how = why
            res.ob(rule, f.where(c), '%s: copy of `%s` bytes into %s stays inside that buffer' % (f.q.split('::')[-2] if '::' in f.q else f.q, n.text(40), dst.text(50)), bool(how), how=how, function=f.q,
                   key='%s|%s|%s:%s' % (rule, f.q, R[:60], n.text(30)),
                   message='%s: `%s` wire-declared bytes are copied to `%s` but no dominating comparison bounds %s by the capacity (GetNumBytes()) of that buffer: heap overflow write'
                           % (f.q, n.text(40), dst.text(60), ' + '.join(sorted(set([n.text(30)] + ([A.strip_casts(dst)['ch'][1].text(30)] if offvars else []))))))


def fail_clean_rule(res, fx):
    """'a parser that fails leaves its object destructible and reusable'.  The Message parsers create a field in the target (GetOrCreateMessageField) and then fill it from the wire; a field
    that was created but not filled is in a state the rest of the Message API aborts on.  So: when the call that FILLS a field of *this fails, the parser Clear()s the Message before it
    returns the error."""
    res.rule('FAIL-CLEAN', 'in Message::Unflatten and Message::TemplatedUnflatten every return on the error edge of a call that fills a field created in *this (DataUnflattener::ReadFlat on the '
                           'entry returned by GetOrCreateMessageField; MessageField::TemplatedUnflatten(*this, …)) is preceded by Clear() on every path from that call', floor=2)
    n = 0
    for q in ('muscle::Message::Unflatten', 'muscle::Message::TemplatedUnflatten'):
        for f in [g for g in fx.funcs.values() if g.full and g.q == q and len(g.params) >= 1]:
            created = set()
            for c in f.walk():
                if c.is_call() and (c.get('q') or '').endswith('Message::GetOrCreateMessageField'):
                    for a in c.args():
                        a0 = A.strip_casts(a)
                        if a0['k'] == 'DeclRefExpr' and a0.type().replace('muscle_private::', '').rstrip().endswith('MessageField *'):
                            created.add(a0.get('d'))
            fills = []
            for c in f.walk():
                if not c.is_call():
                    continue
                qn = c.get('q') or ''
                if qn.endswith('::ReadFlat') and any(x['k'] == 'DeclRefExpr' and x.get('d') in created for a in c.args() for x in a.walk()):
                    fills.append(c)
                if qn.endswith('MessageField::TemplatedUnflatten') and c.args() and any(x['k'] == 'CXXThisExpr' for x in c.args()[0].walk()):
                    fills.append(c)
            clears = [c for c in f.walk() if c['k'] == 'CXXMemberCallExpr' and (c.get('q') or '') == 'muscle::Message::Clear' and (c.receiver() is None or A.strip_casts(c.receiver())['k'] == 'CXXThisExpr')]
            for fc in fills:
                n += 1
                holders = set()
                for v in f.walk():
                    if v['k'] == 'VarDecl' and v['ch'] and fc in list(v['ch'][0].walk()):
                        holders.add(v.get('d'))
                bad = None
                for r in (x for x in f.walk() if x['k'] == 'ReturnStmt'):
                    on_err = False
                    for (a, t) in G.atoms_at(f, r):
                        k_ = P.is_status_test(a)
                        if k_ is None:
                            continue
                        rc = a.receiver() if a['k'] == 'CXXMemberCallExpr' else None
                        about = rc is not None and (fc in list(rc.walk()) or A.strip_casts(rc).get('d') in holders)
                        if about and ((k_ == 'err' and t) or (k_ == 'ok' and not t)):
                            on_err = True
                    if not on_err:
                        continue
                    pf, pr = P.pos_of(f, fc), P.pos_of(f, r)
                    cps = set(p_ for p_ in (P.pos_of(f, c) for c in clears) if p_)
                    if pf and pr and C.can_reach(f, pf, set([pr]), avoid_points=cps):
                        bad = r
                res.ob('FAIL-CLEAN', f.where(fc), '%s: when `%s` fails the Message is cleared before the error is returned' % (f.q.split('::')[-1], fc.text(50)), bad is None, function=f.q,
                       key='FAIL-CLEAN|%s|%s' % (f.q, (fc.get('q') or '').split('::')[-1]),
                       message='%s returns the error of `%s` (line %s) without Clear(): the field that was created for the failed item stays in the Message in its empty state, and the next '
                               'FlattenedSize()/Flatten()/CalculateChecksum() on that Message object aborts the process (MASSERT "called on empty field")'
                               % (f.q, fc.text(50), bad.get('l') if bad is not None else ''))
    if n < 2:
        raise AnalysisBroken('FAIL-CLEAN: only %d field-filling calls found in the Message parsers' % n)


def primitive_rule(res, fx, rule='PRIMITIVE'):
    """obligations on the reader primitives: every parameter that reaches memcpy / pointer advance inside DataUnflattenerHelper is size-checked there;
    RealSizeChecker::IsSizeOkay is `n <= avail`; DataUnflattenerReadLimiter clamps with muscleMin; no Unchecked unflattener in the parse closure."""
    res.rule(rule, 'reader primitives are self-checking: inside DataUnflattenerHelper every count parameter reaching a copy is SizeCheck()ed on a dominating edge; '
                   'IsSizeOkay(n, avail) is n <= avail; the read limiter clamps to the bytes available', floor=5)
    eng = T.Engine(fx, max_depth=2)
    seen = set()
    for f in sorted(fx.funcs.values(), key=lambda f: (f.file, f.line, f.id)):
        if not f.full or not re.search(T.RE_READER, f.q) or 'DummySizeChecker' in f.name:
            continue
        if f.q.split('::')[-1] in ('Advance', 'SetBuffer', '(ctor)', 'SetMaxNumBytes', 'Reset'):
            continue     # private cursor primitive / buffer-installation API for trusted callers: their uses are judged at the call sites
        ints = frozenset(i for i, p in enumerate(f.params) if A.is_integral_type(f.ptype(p).replace('&', '').strip()))
        for h in eng.sinks_in(f, ints):
            kind = h['kind'].split('@')[0]
            if kind not in ('COPY', 'PTRADD'):
                continue           # READER kinds inside the reader are its own constructor/SetBuffer API, judged at their callers
            site = (f.file, h['node'].get('l'), kind)
            if site in seen:
                continue
            seen.add(site)
            bad = [x for (x, oc) in h['arith'] if not oc]
            ok = bool(h['just']) and not bad
            res.ob(rule, '%s:%s' % (f.file, h['node'].get('l')), '%s in reader primitive %s: `%s` is checked against the bytes available' % (kind, f.q.split('::')[-1], h['expr'].text(60)),
                   ok, how=h['just'], function=f.q, key='%s|%s|%s:%s' % (rule, f.q, kind, h['expr'].text(40)),
                   message='reader primitive %s uses `%s` as a %s size without a successful SizeCheck on every path' % (f.q, h['expr'].text(60), kind))
    # IsSizeOkay
    for f in fx.fn('muscle::RealSizeChecker::IsSizeOkay'):
        rets = [n for n in f.walk() if n['k'] == 'ReturnStmt']
        ok = False
        how = None
        if len(rets) == 1 and rets[0]['ch']:
            e = A.strip_casts(rets[0]['ch'][0])
            if e['k'] == 'BinaryOperator' and e.get('op') in ('<=', '>='):
                l, r = A.strip_casts(e['ch'][0]), A.strip_casts(e['ch'][1])
                if l['k'] == 'DeclRefExpr' and r['k'] == 'DeclRefExpr':
                    p0, p1 = f.params[0]['d'], f.params[1]['d']
                    ok = (e['op'] == '<=' and l.get('d') == p0 and r.get('d') == p1) or (e['op'] == '>=' and l.get('d') == p1 and r.get('d') == p0)
                    how = e.text()
        res.ob(rule, f.where(), 'RealSizeChecker::IsSizeOkay(n, avail) returns n <= avail', ok, how=how, function=f.q, key='%s|%s|compare' % (rule, f.q),
               message='RealSizeChecker::IsSizeOkay no longer compares the requested size with the available bytes as n <= avail: every SizeCheck in the readers is void')
        break
    # read limiter clamp
    for f in fx.fn('muscle::DataUnflattenerReadLimiter::(ctor)'):
        ok = False
        for n in f.walk():
            if n.is_call() and (n.get('q') or '').endswith('::SetMaxNumBytes'):
                for x in n.walk():
                    if x.is_call() and T.MIN_LIKE.search(x.get('q') or ''):
                        if any((y.get('q') or '').endswith('::GetNumBytesAvailable') for a in x.args() for y in a.walk()):
                            ok = True
        res.ob(rule, f.where(), 'DataUnflattenerReadLimiter clamps the new limit with muscleMin(limit, GetNumBytesAvailable())', ok, function=f.q,
               key='%s|%s|clamp' % (rule, f.q), message='the read limiter no longer clamps its limit to the parent\'s remaining bytes: a wire-declared field length can extend the readable window')
        break
    # who-may-use: unchecked unflatteners
    users = set()
    for f in fx.funcs.values():
        if f.full and TAINT_FILES.search(f.file):
            for n in f.walk():
                if 'DummySizeChecker' in (n.get('fn') or '') or ('DummySizeChecker' in n.type() if 't' in n else False):
                    users.add((f.q, f.where(n)))
    res.ob(rule, 'support/DataUnflattener.h', 'no Unchecked*DataUnflattener (DummySizeChecker) is used in the parsers of received data', not users, function='muscle::DummySizeChecker',
           key='%s|DummySizeChecker|used' % rule, how='0 uses in the parser files',
           message='an unchecked unflattener is used on received data at %s' % ', '.join('%s (%s)' % u for u in sorted(users)[:3]))


_NEGOP = {'==': '!=', '!=': '==', '<': '>=', '>=': '<', '>': '<=', '<=': '>'}


def _path_facts(f, asg):
    """canonical relational facts {(lhs key, op, rhs key): (lhs node, rhs node)} that hold along a path given as {cond node id: truth}"""
    out = {}
    for (cid, truth) in asg.items():
        for (l_, op_, r_) in A.rel_forms(f.nodes[cid], truth):
            out[(A.render_key(l_), op_, A.render_key(r_))] = (l_, r_)
    return out


def _written_in(f, blocks, skip):
    """render keys of the lvalues assigned (or handed to a call by address / as the object of a non-const call) inside the given blocks, the node `skip` excepted"""
    keys = set()
    for n in f.walk():
        p = P.pos_of(f, n)
        if p is None or p[0] not in blocks or n is skip or any(a is skip for a in n.ancestors()):
            continue
        if n['k'] in ('BinaryOperator', 'CompoundAssignOperator') and n.get('op') in A.ASSIGN_OPS:
            keys.add(A.render_key(A.strip_casts(n['ch'][0])))
        elif n['k'] == 'UnaryOperator' and n.get('op') in ('post++', 'pre++', 'post--', 'pre--'):
            keys.add(A.render_key(A.strip_casts(n['ch'][0])))
        elif n['k'] == 'UnaryOperator' and n.get('op') == '&':
            keys.add(A.render_key(A.strip_casts(n['ch'][0])))
    return keys


def stream_end_rule(res, fx, rule='STREAM-END'):
    """zlib: once inflate() has returned Z_STREAM_END it consumes and produces nothing more, so a loop that waits for more output must not call it again"""
    res.rule(rule, 'a loop that calls inflate() repeatedly does not go round again after inflate() returned Z_STREAM_END: on every feasible cyclic path from the call back to itself the result was compared '
                   'and found different from Z_STREAM_END (a path whose branch decisions contradict each other on a quantity that nothing in the loop but inflate() changes is not feasible)', floor=1)
    n = 0
    for f in sorted((f for f in fx.funcs.values() if f.full and f.file.startswith('zlib/')), key=lambda f: (f.file, f.line)):
        loops = C.natural_loops(f)
        for c in f.walk():
            if not (c['k'] == 'CallExpr' and (c.get('q') or '').split('::')[-1] == 'inflate'):
                continue
            cp = P.pos_of(f, c)
            if cp is None:
                continue
            body = set()
            for (h, blks) in loops:
                if cp[0] in blks:
                    body |= blks
            if not body:
                continue                 # a single call: nothing to repeat
            n += 1
            holder = None
            for v in f.walk():
                if v['k'] == 'VarDecl' and v['ch'] and any(x is c for x in v['ch'][0].walk()):
                    holder = v
            paths, complete = C.paths_between(f, cp, cp, avoid_blocks=[b for b in f.blocks if b not in body])
            written = _written_in(f, body, c)
            bad = None
            for asg in paths:
                facts = _path_facts(f, asg)
                refuted = False
                feasible = True
                for (lk, op, rk), (l_, r_) in facts.items():
                    if holder is not None and l_['k'] == 'DeclRefExpr' and l_.get('d') == holder['d'] and r_.get('v') is not None:
                        if (op == '!=' and r_['v'] == 1) or (op == '==' and r_['v'] != 1):
                            refuted = True
                    if (lk, _NEGOP.get(op), rk) in facts:
                        # the same comparison decided both ways on one path: feasible only if something in between can have changed an operand
                        names = set(A.render_key(x) for x in list(l_.walk()) + list(r_.walk()) if x['k'] in ('DeclRefExpr', 'MemberExpr'))
                        if not (names & written):
                            feasible = False
                if feasible and not refuted:
                    bad = asg
                    break
            ok = complete and bool(paths) and bad is None and holder is not None
            res.ob(rule, f.where(c), '%s: no further inflate() after Z_STREAM_END' % f.q.split('::')[-1], ok, function=f.q, key='%s|%s' % (rule, f.q),
                   how='%d cyclic path(s) from the call back to itself; result kept in `%s`' % (len(paths), holder.get('n') if holder else '?'),
                   message='%s can call inflate() again after it returned Z_STREAM_END%s: the ended stream neither consumes input nor produces output any more, so when the deflated stream ends before the '
                           'declared number of bytes has been produced (and input is left) the loop spins forever on a 27-byte input'
                           % (f.q, (' (decisions on the path: %s)' % ', '.join('%s=%s' % (f.nodes[k].text(30), v) for k, v in list(bad.items())[:6])) if bad else ''))
    if n < 1:
        raise AnalysisBroken('%s: no inflate() call inside a loop found under zlib/' % rule)


def budget_underflow_rule(res, fx, rule='TAINT'):
    """a child reader's budget that is `length - constant` needs length >= constant where the reader is built (the test of the DIFFERENCE against something proves nothing: it has wrapped)"""
    n = 0
    for f in sorted((f for f in fx.funcs.values() if f.full and TAINT_FILES.search(f.file)), key=lambda f: (f.file, f.line, f.id)):
        for c in f.walk():
            if c['k'] not in ('CXXConstructExpr', 'CXXTemporaryObjectExpr') or 'DataUnflattener' not in (c.type() or '') or len(c['ch']) < 2:
                continue
            b = G.local_init(f, c['ch'][1])
            b = A.strip_casts(b)
            if b['k'] != 'BinaryOperator' or b.get('op') != '-' or not re.search(r'unsigned|uint', b.type() or ''):
                continue
            x, k = A.strip_casts(b['ch'][0]), A.strip_casts(b['ch'][1])
            if x['k'] != 'DeclRefExpr' or k.get('v') is None:
                continue
            n += 1
            ok = False
            for (cn, t) in G.atoms_at(f, c):
                for (l_, op_, r_) in A.rel_forms(cn, t):
                    if l_['k'] == 'DeclRefExpr' and l_.get('d') == x.get('d') and r_.get('v') is not None and ((op_ == '>=' and r_['v'] >= k['v']) or (op_ == '>' and r_['v'] >= k['v'] - 1) or (op_ == '==' and r_['v'] >= k['v'])):
                        ok = True
            res.ob(rule, f.where(c), '%s: the reader budget `%s` is computed only where %s >= %s' % (f.q.split('::')[-1], b.text(40), x.get('n'), k['v']), ok, function=f.q,
                   key='%s|%s|budget-underflow:%s' % (rule, f.q, x.get('n')),
                   message='%s builds a DataUnflattener with the budget `%s` without %s >= %d having been established at that point: for a frame body shorter than %d bytes the unsigned subtraction '
                           'wraps to about 4 GB, the nested reader gets a budget far beyond its parent\'s remainder and reads past the received bytes (heap over-read / information leak)'
                           % (f.q, b.text(50), x.get('n'), k['v'], k['v']))
    return n


def c_init_rule(res, fx, rule='C-INIT'):
    """malloc() hands out uninitialised memory: a C object that the parsers link into lists must not carry a field nobody wrote"""
    res.rule(rule, 'in the C codecs a function that allocates a struct with MMalloc/malloc(sizeof(T) …) and hands it out assigns every (non-array) field of T on every path on which the allocation '
                   'succeeded (or clears/copies the whole object): clean-up loops follow link fields such as `scratch`, `nextField` of objects that were only allocated', floor=3)
    n = 0
    for f in sorted((f for f in fx.funcs.values() if f.full and f.file.startswith('lang/c/')), key=lambda f: (f.file, f.line)):
        for v in f.walk():
            if v['k'] != 'VarDecl' or not v['ch'] or not v.type().rstrip().endswith('*'):
                continue
            calls = [c for c in v['ch'][0].walk() if c.is_call() and (c.get('q') or '').split('::')[-1] in ('MMalloc', 'malloc', 'UMalloc')]
            if not calls:
                continue
            tname = v.type().replace('struct ', '').replace('const ', '').rstrip('* ').strip()
            rec = (fx.recs_q.get(tname) or fx.recs_q.get('_' + tname) or [None])[0]
            if rec is None or not any('sizeof' in x.text(40) or x['k'] == 'UnaryExprOrTypeTraitExpr' for x in calls[0].walk()):
                continue
            types = rec.get('_types') or []
            fields = [fl['n'] for fl in rec.get('fields', []) if not re.search(r'\[\d*\]$', types[fl['t']] if isinstance(fl.get('t'), int) and fl['t'] < len(types) else '')]
            # a trailing (unsigned) char member is the first byte of the variable-length data area that follows the header, not a field of it
            lastf = rec.get('fields', [])[-1] if rec.get('fields') else None
            if lastf is not None and lastf['n'] in fields and isinstance(lastf.get('t'), int) and lastf['t'] < len(types) and re.match(r'^(unsigned |signed )?char$', types[lastf['t']]):
                fields.remove(lastf['n'])
            if not fields:
                continue
            n += 1
            whole = [c for c in f.walk() if c.is_call() and (c.get('q') or '').split('::')[-1] in ('memset', 'memcpy') and c.args() and A.strip_casts(c.args()[0]).get('d') == v['d']]
            esc = P.escape_edges(f, status=False, null=True)
            missing = []
            for fl in fields:
                asg = [a for a in f.walk() if a['k'] == 'BinaryOperator' and a.get('op') == '=' and A.strip_casts(a['ch'][0])['k'] == 'MemberExpr' and A.strip_casts(a['ch'][0]).get('n') == fl
                       and A.strip_casts(A.strip_casts(a['ch'][0])['ch'][0]).get('d') == v['d']]
                if not ((asg or whole) and P.must_follow(f, v, asg + whole, escapes=esc)[0]):
                    missing.append(fl)
            res.ob(rule, f.where(v), '%s: every field of the freshly allocated %s is written before it is handed out' % (f.q, tname), not missing, function=f.q, key='%s|%s|%s' % (rule, f.q, tname),
                   how='%d field(s)' % len(fields),
                   message='%s hands out a %s fresh from %s() without writing its field(s) %s: the memory is whatever the heap last held there — when a parse fails, the clean-up of the Message-field '
                           'parser follows `scratch` of the last sub-Message it allocated (it only ever writes the previous node\'s link) and frees a wild pointer instead of returning an error'
                           % (f.q, tname, (calls[0].get('q') or '').split('::')[-1], missing))
    if n < 3:
        raise AnalysisBroken('%s: only %d struct allocations found in the C codecs' % (rule, n))


def run(res, tier):
    fx = common.load_all(res, tier, with_c=True)
    cg = CallGraph(fx)
    res.functions_analysed = sum(1 for f in fx.funcs.values() if f.full and TAINT_FILES.search(f.file))
    eng = taint_rule(res, fx)
    dest_capacity_rule(res, fx, eng)
    cursor_bound_rule(res, fx, eng)
    nul_slot_rule(res, fx)
    borrow_scope_rule(res, fx)
    primitive_rule(res, fx)
    fail_clean_rule(res, fx)
    # "delivered in any segmentation": a read may return fewer bytes than asked for, none included (the rule lives with the short-transfer discipline in C03)
    from .C03 import count_consulted_rule
    count_consulted_rule(res, fx)
    stream_end_rule(res, fx)
    c_init_rule(res, fx)
    res.extra['budget_minus_constant_sites'] = budget_underflow_rule(res, fx)
    entries = []
    missing = []
    for q in PARSE_ENTRIES:
        fs = fx.fn(q, required=False, full=False)
        if not fs:
            missing.append(q)
        entries.extend(f.id for f in fs)
    if len(missing) > 3:
        raise AnalysisBroken('parse entry points vanished: %s' % ', '.join(missing))
    reach = cg.reachable(entries)
    R.rec_rule(res, fx, cg, entries, reach, 'R-REC', anchor_files=ANCHOR_FILES)
    R.crash_rule(res, fx, cg, entries, reach, 'R-CRASH')
    common.nest_tls_rule(res, fx, 'R-REC', ANCHOR_FILES)
    # loops of the parsers themselves (functions defined in the parser files and reachable from the parse entries)
    sub = dict((k, v) for k, v in reach.items() if k in fx.funcs and TAINT_FILES.search(fx.funcs[k].file))
    nloops, ndec = progress_rule(res, fx, cg, sub, rule='PROGRESS')
    S.sticky_rule(res, fx, 'STICKY')
    from . import micro
    micro.run(res, fx)          # the C micro codec reads in place: decided by a pointer-validity typestate, not by the taint rule (rules/micro.py)
    res.extra['entries'] = PARSE_ENTRIES
    res.extra['entries_missing'] = missing
    res.explanation = ('Static decision of the structural part of C02 on the current sources. TAINT: every value decoded from received bytes (DataUnflattener reads, EndianConverter::Import, '
                       'muscleCopyIn, the C ReadData) is followed through locals, fields, helper summaries (depth %d, virtual calls fanned out) to every child-reader budget, copy length, pointer '
                       'offset/index and — inside the Message parsers — allocation size; each such use must be dominated by a comparison against an untainted (or itself bounded) quantity, a clamp, or a '
                       'successful reader check, and tainted +/* must be overflow-checked. PRIMITIVE: the reader checks itself. R-REC/R-CRASH: no unguarded recursion / unconditional abort reachable from the '
                       'parse entry points. PROGRESS: parser loops advance. STICKY: an Unflatten that used value-returning reads consults the sticky status before returning OK. '
                       'This quantifies over all inputs at once for these necessary conditions; it does not execute the parsers.' % (3 if tier == 'quick' else 4))
    res.assumptions = ['DataIO::Read never writes more than it is asked to; libc and zlib are correct',
                       'a comparison against an untainted quantity is a meaningful bound (the analysis does not compute buffer sizes)',
                       'analysed configuration: gnu++11, MUSCLE_ENABLE_ZLIB_ENCODING, NDEBUG, little-endian host']
    res.not_decided = ['MicroMessage.c: the count-down walker inside GetNumItemsInField (remaining-bytes counter kept in step with the cursor) and the writer side are not judged',
                       'WebSocketMessageIOGateway header state machine indexes (_headerBytes[state]) are state-indexed, not wire-indexed: not judged',
                       'zlib inflate internals; time complexity beyond loop progress']
