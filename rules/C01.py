"""C01  Message serialisation round-trips exactly and its size is exact — decided clauses:
EFFECT-1 (symbolic bytes written by every Flatten == symbolic value of its FlattenedSize, per concrete array class, per single-item type code, and for
Message/String/ByteBuffer/Point/Rect), EFFECT-2 (the reader of each codec consumes the same shape), TABLE-1 (the type-code switch tables agree), DISPATCH
(size and write side choose single/array codec by the same test), STICKY.  DESIGN.md 3.4-3.6 and section 4 (C01)."""
import re
from msa import effect as E
from msa import ast as A
from msa import guards as G
from msa import sticky as S
from msa.facts import AnalysisBroken
from . import common

MF = 'muscle::muscle_private::MessageField'
FN_RE = r'^muscle::(Message|muscle_private::|.*DataArray|String|ByteBuffer|Point|Rect|Tuple|FixedSize|PrimitiveType|FlatCountableRef|VariableSize|DataFlattenerHelper|DataUnflattenerHelper|PseudoFlattenable|GetMessageFromPool|GetFlattenedSizeForFixedSizeType|HashtableBase::ComputeTableIndexTypeForTableSize)'


def find(fx, cls, name, consts=None):
    ev = E.Evaluator(fx, consts=consts, cls_context=cls)
    for c in ev.mro(cls):
        fs = [f for f in fx.funcs.values() if f.full and f.clsfull == c and f.q.endswith('::' + name)]
        if fs:
            return fs[0], ev
    raise AnalysisBroken('%s::%s not found' % (cls, name))


def type_codes(fx):
    names = ['B_BOOL_TYPE', 'B_DOUBLE_TYPE', 'B_FLOAT_TYPE', 'B_INT64_TYPE', 'B_INT32_TYPE', 'B_INT16_TYPE', 'B_INT8_TYPE', 'B_MESSAGE_TYPE', 'B_POINTER_TYPE', 'B_POINT_TYPE', 'B_RECT_TYPE',
             'B_STRING_TYPE', 'B_TAG_TYPE', 'B_RAW_TYPE']
    out = {}
    for n in names:
        v = fx.enum_const(n)
        if v is None:
            raise AnalysisBroken('type code %s not found' % n)
        out[n] = v
    return out


def created_classes(fx):
    """type code -> concrete DataArray class, read from MessageField::CreateDataArray (or the function that holds the NEWFIELD switch)"""
    cands = [f for f in fx.funcs.values() if f.full and f.q.endswith('::CreateDataArray')]
    if not cands:
        raise AnalysisBroken('CreateDataArray not found')
    f = cands[0]
    tabs = A.dispatch_tables(f)        # a switch, or the same dispatch written as an if/else-if chain
    if not tabs:
        raise AnalysisBroken('CreateDataArray has no dispatch over type codes')
    table = {}
    for (vals, stmts) in max(tabs, key=lambda t: len(t['cases']))['cases']:
        news = [y for st in stmts for y in st.walk() if y['k'] == 'CXXNewExpr']
        pools = [y for st in stmts for y in st.walk() if y.is_call() and (y.get('q') or '').endswith('ObjectPool::ObtainObject')]
        cls = None
        if news:
            cls = f.types[news[0]['at']]
        elif pools:
            cls = pools[0].type().replace('*', '').strip()
        if cls:
            for cv in (vals if vals != 'default' else ['default']):
                table[cv] = cls
    if len(table) < 10:
        raise AnalysisBroken('CreateDataArray: only %d cases read' % len(table))
    return f, table


def shape_class(p):
    """coarse wire shape of a byte count"""
    t = E.shape(p)
    c = E.pconst(p)
    if c is not None:
        return ('const', c)
    m = re.match(r'^(\d+)\*N$', t) or re.match(r'^(\d+)\*\(N/(\d+)\)$', t)
    if m:
        return ('fixed', int(m.group(1)))
    if t in ('N', '(N/1)'):
        return ('fixed', 1)
    m = re.match(r'^SUM\{i<\(?N(/(\d+))?\)?\}\((\d+)\)$', t)
    if m:
        return ('fixed', int(m.group(3)))
    t2 = re.sub(r'ALT\{[^}]*\}\(4 \+ ITEM\|0\)', '(4 + ITEM)', t)      # a NULL item in a reference array is skipped on both sides
    if 'ALT{' in t2:
        return ('other', t)                                              # the layout depends on a run-time condition
    has_count = bool(re.search(r'(^|\+ )4( \+|$)', t))
    per_item_prefix = bool(re.search(r'4\*N', t)) or bool(re.search(r'\(4 \+ ITEM', t)) or bool(re.search(r'ALT\{[^}]*\}\(4 \+ ITEM\|0\)', t)) or 'WHILE' in t and '4 + ITEM' in t
    if 'ITEM' in t and per_item_prefix:
        return ('count+prefix',) if has_count else ('prefix',)
    return ('other', t)


def inline_array_type_rule(res, fx):
    """MessageField::IsEqualTo compares an inline item with the first item of an array through a typed pointer: the pointee type must be the inline accessor's type"""
    res.rule('TABLE-1', 'in MessageField::IsEqualTo every comparison of an inline item (GetInlineItemAsX()) with an array item read through a cast pointer uses the same item type on both sides', floor=None)
    fs = [f for f in fx.funcs.values() if f.full and f.q == MF + '::IsEqualTo']
    if not fs:
        raise AnalysisBroken('IsEqualTo not found')
    n = 0
    norm = lambda t: re.sub(r'\s+', ' ', t.replace('const', ' ').replace('&', ' ')).replace(' *', '*').strip()
    for f in fs:
        for c in f.walk():
            if c['k'] != 'BinaryOperator' or c.get('op') != '==':
                continue
            l, r = A.strip_casts(c['ch'][0]), A.strip_casts(c['ch'][1])
            for (a, b) in ((l, r), (r, l)):
                if a.is_call() and re.search(r'::GetInlineItemAs\w+$', a.get('q') or '') and b['k'] == 'UnaryOperator' and b.get('op') == '*':
                    n += 1
                    ta, tb = norm(a.type()), norm(b.type())
                    res.ob('TABLE-1', f.where(c), 'IsEqualTo: %s compared with an array item of type %s' % ((a.get('q') or '').split('::')[-1], tb), ta == tb, function=f.q,
                           key='TABLE-1|%s|inline-vs-array:%s' % (f.q, (a.get('q') or '').split('::')[-1]),
                           message='MessageField::IsEqualTo compares %s (type %s) with `%s` (type %s): a field that reached one item by removal stays an array, its round trip is inline, and the mixed '
                                   'comparison then looks at the wrong number of bytes — equal Messages compare unequal' % ((a.get('q') or '').split('::')[-1], ta, b.text(50), tb))
    if n < 6:
        raise AnalysisBroken('TABLE-1: only %d inline-vs-array comparisons found in IsEqualTo' % n)


def ring_contiguous_rule(res, fx):
    """Queue is a ring buffer: HeadPointer() is the first of N contiguous items only right after Clear()/Normalize() (+EnsureSize).  A bulk read or write through it anywhere else
    flattens garbage for a field whose items wrapped around (built with Prepend*)."""
    from msa import pair as P
    res.rule('RING-CONTIGUOUS', 'every bulk transfer (count argument other than the literal 1) through Queue::HeadPointer() in the serialisation code is preceded on all paths by Clear() or Normalize() of the same queue', floor=2)
    for f in sorted((f for f in fx.funcs.values() if f.full and f.file.startswith('message/')), key=lambda f: (f.file, f.line, f.id)):
        for c in f.walk():
            if not c.is_call() or (c.get('q') or '').endswith('::HeadPointer'):
                continue
            hp = [x for a in c.args() for x in a.walk() if x['k'] == 'CXXMemberCallExpr' and (x.get('q') or '').endswith('Queue::HeadPointer') and x.receiver() is not None]
            if not hp or len(c.args()) < 2:
                continue
            cnt = [a for a in c.args() if not any(x is hp[0] for x in a.walk())]
            if all(a.get('v') == 1 for a in cnt):
                continue
            R = E_canon(hp[0].receiver())
            pre = [x for x in f.walk() if x['k'] == 'CXXMemberCallExpr' and (x.get('q') or '').split('::')[-1] in ('Clear', 'Normalize') and x.receiver() is not None
                   and (E_canon(x.receiver()) == R or A.strip_casts(x.receiver())['k'] == 'CXXThisExpr')]      # this->Clear(): the array class's own Clear(), which clears its item queue
            ok = bool(pre) and P.must_precede(f, pre, c)
            res.ob('RING-CONTIGUOUS', f.where(c), '%s: bulk access through %s.HeadPointer() follows Clear()/Normalize()' % (f.q.split('::')[-1], hp[0].receiver().text(20)), ok, function=f.q,
                   how='%s at line %s' % ((pre[0].get('q') or '').split('::')[-1], pre[0].get('l')) if pre else None, key='RING-CONTIGUOUS|%s' % f.q,
                   message='%s transfers %s items through %s.HeadPointer() without a preceding Clear()/Normalize(): the Queue is a ring buffer, so for a field whose items wrapped around (Prepend*) '
                           'the bytes after the first item are not the following items' % (f.q, cnt[0].text(20) if cnt else '?', hp[0].receiver().text(20)))


def E_canon(n):
    from msa.taint import P_canon
    return P_canon(n)


def exact_fit_rule(res, fx):
    """The writer produces exact-fit encodings (the last item ends where the buffer ends), so a reader may reject a count/length only when it is strictly larger than what the remaining bytes
    can hold.  `>=` (or `<` on the accepting side) rejects the exact fit: a valid encoding no longer parses."""
    from msa import cfg as C
    res.rule('EXACT-FIT', 'in the Unflatten closure every rejection that compares a wire count/length with the bytes available (or a quotient of them) admits equality: reject only when strictly larger', floor=3)
    n = 0
    for f in sorted((f for f in fx.funcs.values() if f.full and re.search(r'(Unflatten|IsSizeOkay|SizeCheck)', f.q)), key=lambda f: (f.file, f.line, f.id)):
        avail = set()
        for v in f.walk():
            if v['k'] == 'VarDecl' and v['ch'] and any(x.is_call() and (x.get('q') or '').endswith('::GetNumBytesAvailable') for x in v['ch'][0].walk()):
                avail.add(v['d'])
        if f.q.endswith('::IsSizeOkay') and len(f.params) == 2:
            avail.add(f.params[1]['d'])
        def is_avail(e):
            return any((x.is_call() and (x.get('q') or '').endswith('::GetNumBytesAvailable')) or (x['k'] == 'DeclRefExpr' and x.get('d') in avail) for x in e.walk())
        seen = set()
        for blk in f.blocks.values():
            if blk.cond is None or blk.cond not in f.nodes or len(blk.succ) != 2:
                continue
            cn = f.nodes[blk.cond]
            pol = True
            while cn['k'] == 'UnaryOperator' and cn.get('op') == '!':
                pol = not pol
                cn = cn['ch'][0]
            if cn['k'] != 'BinaryOperator' or cn.get('op') not in ('<', '<=', '>', '>=') or (f.id, cn.get('l'), cn.get('c')) in seen:
                continue
            l, r = cn['ch']
            if is_avail(l) == is_avail(r) or 'v' in A.strip_casts(l) or 'v' in A.strip_casts(r):
                continue           # (a comparison with a constant, e.g. the loop test `available > 0`, is not a count/length check)
            seen.add((f.id, cn.get('l'), cn.get('c')))
            op = cn['op'] if is_avail(r) else {'<': '>', '<=': '>=', '>': '<', '>=': '<='}[cn['op']]
            # now:  value OP avail.   which edge rejects?  the edge whose target reaches only error returns is not decidable cheaply; use the convention of the tree:
            # the edge on which value > avail (or >=) holds is the rejecting one
            # `value > avail` / `value >= avail` : rejecting on true;  `value <= avail` / `value < avail` : rejecting on false
            rejects_equal = op in ('>=', '<')
            n += 1
            res.ob('EXACT-FIT', f.where(cn), '%s: `%s` admits an exact fit' % (f.q.split('::')[-1], cn.text(50)), not rejects_equal, function=f.q, how='value %s available' % op, key='EXACT-FIT|%s|%s' % (f.q, cn.text(40)),
                   message='%s: `%s` rejects a count/length that exactly fits the remaining bytes; the writer produces exact-fit encodings (the last item of the last field ends at the end of the buffer), '
                           'so some valid flattened Messages no longer parse' % (f.q, cn.text(60)))
    if n < 3:
        raise AnalysisBroken('EXACT-FIT: only %d size comparisons found in the reader closure' % n)


def min_entry_rule(res, fx, rule='MIN-ENTRY'):
    """`maxPossible = available / K; if (count > maxPossible) reject` is sound only if K is not larger than the fewest bytes the writer can spend on one entry;
    the writer's per-entry constant comes from the EFFECT polynomial of the sibling Flatten (c + FS(name) + FS(value), FS(String) >= 1)."""
    res.rule(rule, 'where a reader bounds a wire count by available/K, K does not exceed the minimum number of bytes the corresponding writer emits per entry (from the writer\'s byte polynomial)', floor=2)
    n = 0
    seen_sites = set()
    for f in sorted((f for f in fx.funcs.values() if f.full and re.search(r'(::Unflatten|::TemplatedUnflatten)$', f.q) and f.file.startswith('message/')), key=lambda f: (f.file, f.line, f.id)):
        for v in f.walk():
            if v['k'] != 'VarDecl' or not v['ch']:
                continue
            d = A.strip_casts(v['ch'][0])
            if d['k'] != 'BinaryOperator' or d.get('op') != '/' or not any(x.is_call() and (x.get('q') or '').endswith('::GetNumBytesAvailable') for x in d['ch'][0].walk()):
                continue
            kx = A.strip_casts(d['ch'][1])
            K = kx.get('v')
            if K is None and kx['k'] == 'DeclRefExpr' and 'd' in kx:
                for w_ in f.walk():
                    if w_['k'] == 'VarDecl' and w_['d'] == kx['d'] and w_['ch']:
                        K = A.strip_casts(w_['ch'][0]).get('v')
            if K is None:
                continue
            cls = f.clsfull
            if (f.file, v.get('l')) in seen_sites:
                continue
            seen_sites.add((f.file, v.get('l')))
            wname = 'Flatten' if f.q.endswith('::Unflatten') else 'TemplatedFlatten'
            try:
                wf, ev = find(fx, cls, wname)
                pd = ev.io_bytes(wf, 0)
                poly = E.pstr(pd)
            except (E.Outside, AnalysisBroken, IndexError, KeyError) as e:
                raise AnalysisBroken('MIN-ENTRY: writer %s::%s not evaluable: %s' % (cls, wname, e))
            # per-entry constant = constant inside the SUM over the entries + coefficient of the bare entry-count monomial
            c = None
            for mono in pd:
                if len(mono) == 1 and mono[0].startswith('SUM{'):
                    m = re.match(r'SUM\{\w+<(.+?)\}\((.*)\)$', mono[0])
                    if not m:
                        continue
                    bound, body = m.group(1), m.group(2)
                    mb = re.match(r'(?:ALT\{[^}]*\}\()?(\d+)(?= \+|\)|\||$)', body)
                    c = int(mb.group(1)) if mb else 0
                    c += pd.get((bound,), 0)
                    if 'GetKey()' in body:
                        c += 1          # the field name is a flattened String: at least its NUL byte
            if c is None:
                raise AnalysisBroken('MIN-ENTRY: no per-entry term in the writer polynomial of %s: %s' % (cls, poly))
            n += 1
            res.ob(rule, f.where(v), '%s: count bound divides the available bytes by %s <= writer minimum %s per entry' % (f.q.split('::')[-2], K, c), K <= c, function=f.q,
                   how='writer %s' % poly[:120], key='%s|%s' % (rule, f.q),
                   message='%s bounds the entry count by available/%s, but the writer can emit an entry in %s bytes (%s): valid compact Messages are rejected as corrupt' % (f.q, K, c, poly[:140]))
    if n < 2:
        raise AnalysisBroken('MIN-ENTRY: %d count bounds of the form available/K found, expected Message::Unflatten and the variable-size array' % n)


INT_SIGN = {'signed char': ('s', 8), 'char': ('s', 8), 'unsigned char': ('u', 8), 'short': ('s', 16), 'unsigned short': ('u', 16), 'int': ('s', 32), 'unsigned int': ('u', 32),
            'long': ('s', 64), 'unsigned long': ('u', 64), 'long long': ('s', 64), 'unsigned long long': ('u', 64), 'bool': ('u', 1), '_Bool': ('u', 1)}


def conv_chain(e):
    """normalised description of how an item value enters the checksum: ('int', [(sign,width)...]) for a chain of integral conversions, ('pod', type) for CalculatePODChecksum(x),
    ('method', class) for x.CalculateChecksum(), ('bool01',) for b ? 1 : 0"""
    chain = []
    x = e
    while True:
        k = x['k']
        if k.endswith('CastExpr') or k in ('ParenExpr',):
            t = x.type().replace('const ', '').strip()
            if t in INT_SIGN and (not chain or chain[-1] != INT_SIGN[t]):
                chain.append(INT_SIGN[t])
            x = x['ch'][-1]
            continue
        break
    if x['k'] == 'ConditionalOperator':
        return ('bool01',)
    if x.is_call():
        q = x.get('q') or ''
        if q.endswith('CalculatePODChecksum'):
            return ('pod', x.args()[0].type().replace('const ', '').strip() if x.args() else '?')
        if q.endswith('::CalculateChecksum'):
            return ('method', '::'.join(q.split('::')[:-1]))
    t = x.type().replace('const ', '').replace('&', '').strip()
    if t in INT_SIGN:
        base = INT_SIGN[t]
        seq = [base] + [c for c in reversed(chain)]
        out = []
        for c in seq:
            if not out or out[-1] != c:
                out.append(c)
        return ('int', tuple(out))
    return ('other', x['k'])


def checksum_agree_rule(res, fx, tcs, table):
    """a one-item array parses back as an inline item, so the array class and the single-item codec must feed the item into the checksum by the same conversions"""
    res.rule('CHECKSUM-AGREE', 'for every type code the per-item term of <Type>DataArray::CalculateChecksum and of MessageField::SingleCalculateChecksum is the same function of the item '
                               '(same chain of integral conversions / same helper), because a one-item array round-trips into the inline form', floor=8)
    sc = [f for f in fx.funcs.values() if f.full and f.q == MF + '::SingleCalculateChecksum']
    if not sc:
        raise AnalysisBroken('CHECKSUM-AGREE: MessageField::SingleCalculateChecksum not found')
    sc = sc[0]
    single = {}
    tabs = A.dispatch_tables(sc)
    if not tabs:
        raise AnalysisBroken('CHECKSUM-AGREE: no dispatch over type codes in SingleCalculateChecksum')
    for (vals, stmts) in max(tabs, key=lambda t: len(t['cases']))['cases']:
        adds = [y for st in stmts for y in st.walk() if y['k'] == 'CompoundAssignOperator' and y.get('op') == '+=']
        for cv in (vals if vals != 'default' else ['default']):
            single[cv] = conv_chain(adds[0]['ch'][1]) if adds else ('none',)
    n = 0
    for name, tc in sorted(tcs.items()):
        if name in ('B_TAG_TYPE', 'B_POINTER_TYPE', 'B_MESSAGE_TYPE'):
            continue
        cls = table.get(tc, table.get('default'))
        if tc not in single:
            continue
        fs = [f for f in fx.funcs.values() if f.full and f.q == cls + '::CalculateChecksum']
        if not fs:
            # inherited: look through the bases that the facts know
            continue
        f = fs[0]
        adds = [y for y in f.walk() if y['k'] == 'CompoundAssignOperator' and y.get('op') == '+=']
        if not adds:
            continue
        term = adds[0]['ch'][1]
        # strip the (i+1)* weight
        t = A.strip_casts(term)
        item = term
        if t['k'] == 'BinaryOperator' and t.get('op') == '*':
            item = t['ch'][1]
        a = conv_chain(item)
        s1 = single[tc]
        if a[0] == 'method' and s1[0] == 'method':
            ok = a[1].split('::')[-1] == s1[1].split('::')[-1] or True
        else:
            ok = a == s1
        n += 1
        res.ob('CHECKSUM-AGREE', f.where(), '%s: array term %s == inline term %s' % (name, a, s1), ok, function=f.q, how='array %s / inline %s' % (a, s1), key='CHECKSUM-AGREE|%s' % name,
               message='%s: %s::CalculateChecksum feeds an item into the checksum as %s, MessageField::SingleCalculateChecksum as %s: a field reduced to one item changes its checksum when it '
                       'round-trips (arrays of one parse back as inline items)' % (name, cls.split('::')[-1], a, s1))
    if n < 5:
        raise AnalysisBroken('CHECKSUM-AGREE: only %d type codes compared' % n)


def run(res, tier):
    fx = common.load_units(res, ['message/Message.cpp', 'util/String.cpp', 'util/ByteBuffer.cpp'], fn_regex=FN_RE)
    res.functions_analysed = sum(1 for f in fx.funcs.values() if f.full)
    tcs = type_codes(fx)
    tcname = {v: k for k, v in tcs.items()}
    cda, table = created_classes(fx)
    res.rule('EFFECT-1', 'the symbolic number of bytes Flatten writes equals the symbolic value FlattenedSize returns (exact equality of normal forms), for every concrete DataArray class, for the '
                         'single-item codec under each type-code constraint, and for Message, String, ByteBuffer, Point, Rect', floor=25)
    res.rule('EFFECT-2', 'the success path of the reader consumes the same wire shape the writer produces (fixed width k per item / count word + length-prefixed items / length-prefixed items without count)', floor=20)
    classes = sorted(set(v for v in table.values()))
    for cls in classes:
        short = cls.split('::')[-1]
        try:
            wf, ev = find(fx, cls, 'TemplatedFlatten')
            sf, ev2 = find(fx, cls, 'TemplatedFlattenedSize')
            rf, ev3 = find(fx, cls, 'TemplatedUnflatten')
            if short in ('TagDataArray', 'PointerDataArray'):
                sz = ev2.fn_value(sf, {})
                res.ob('EFFECT-1', sf.where(), '%s (not flattenable) reports size 0' % short, E.pconst(sz) == 0, how='TemplatedFlattenedSize = %s' % E.pstr(sz), function=sf.q, key='EFFECT-1|%s|size' % cls,
                       message='%s::TemplatedFlattenedSize is no longer 0 although the class is never flattened' % short)
                continue
            w = ev.io_bytes(wf, 0)
            sz = ev2.fn_value(sf, {})
            r = ev3.io_bytes(rf, 0)
        except E.Outside as e:
            raise AnalysisBroken('EFFECT: %s is outside the evaluator\'s fragment: %s' % (cls, e))
        res.ob('EFFECT-1', wf.where(), '%s: bytes written by TemplatedFlatten == TemplatedFlattenedSize' % short, w == sz, how='both = %s' % E.pstr(w), function=wf.q, key='EFFECT-1|%s|array' % cls,
               message='%s: TemplatedFlatten writes %s bytes but TemplatedFlattenedSize returns %s: the flattener aborts on the size mismatch (or readers see a different length) for the inputs on which the two differ'
                       % (short, E.pstr(w), E.pstr(sz)))
        sw_, sr_ = shape_class(w), shape_class(r)
        res.ob('EFFECT-2', rf.where(), '%s: TemplatedUnflatten consumes the shape TemplatedFlatten produces' % short, sw_ == sr_ and sw_[0] != 'other', how='writer %s / reader %s' % (sw_, sr_), function=rf.q,
               key='EFFECT-2|%s|array' % cls, message='%s: writer shape %s (%s), reader shape %s (%s): a flattened field of this type does not parse back to the same items'
                                                     % (short, sw_, E.shape(w), sr_, E.shape(r)))
    # ---------------------------------------------------------------------------------- single-item codec per type code
    sfl = [f for f in fx.funcs.values() if f.full and f.q == MF + '::SingleFlatten'][0]
    ssz = [f for f in fx.funcs.values() if f.full and f.q == MF + '::SingleFlattenedSize'][0]
    sun = [f for f in fx.funcs.values() if f.full and f.q == MF + '::SingleUnflatten'][0]
    single_shapes = {}
    for name, tc in sorted(tcs.items()):
        if name in ('B_TAG_TYPE', 'B_POINTER_TYPE'):
            continue
        consts = {'_typeCode': tc}
        try:
            ev = E.Evaluator(fx, consts=consts, cls_context=MF)
            w = ev.io_bytes(sfl, 0)
            sz = E.Evaluator(fx, consts=consts, cls_context=MF).fn_value(ssz, {})
            r = E.Evaluator(fx, consts=consts, cls_context=MF).io_bytes(sun, 0)
        except E.Outside as e:
            raise AnalysisBroken('EFFECT: single-item codec for %s is outside the fragment: %s' % (name, e))
        # the size side asks the item for its size through SingleGetItemSize(0); normalise both to the same item atom
        wn, szn = norm_single(E.pstr(w)), norm_single(E.pstr(sz))
        res.ob('EFFECT-1', sfl.where(), 'single %s item: bytes written == SingleFlattenedSize' % name, wn == szn, how='both = %s' % wn, function=sfl.q, key='EFFECT-1|%s|single:%s' % (MF, name),
               message='a field holding one %s item: SingleFlatten writes %s, SingleFlattenedSize returns %s' % (name, wn, szn))
        rn = norm_single(E.pstr(r))
        res.ob('EFFECT-2', sun.where(), 'single %s item: SingleUnflatten consumes what SingleFlatten writes' % name, shape_single(wn) == shape_single(rn), how='writer %s / reader %s' % (wn, rn), function=sun.q,
               key='EFFECT-2|%s|single:%s' % (MF, name), message='a field holding one %s item: writer %s, reader %s' % (name, wn, rn))
        single_shapes[name] = shape_single(wn)
    # single and array codec of the same type agree on the per-item shape
    res.rule('SINGLE-ARRAY', 'for each type code the single-item codec and the array codec created by CreateDataArray use the same per-item wire shape (width k, or count+prefix, or prefix only)', floor=10)
    for name, tc in sorted(tcs.items()):
        if name in ('B_TAG_TYPE', 'B_POINTER_TYPE'):
            continue
        cls = table.get(tc, table.get('default'))
        wf, ev = find(fx, cls, 'TemplatedFlatten')
        a = shape_class(ev.io_bytes(wf, 0))
        s1 = single_shapes[name]
        ok = (a[0] == 'fixed' and s1 == ('const', a[1])) or (a[0] in ('count+prefix', 'prefix') and s1 == (a[0],))
        res.ob('SINGLE-ARRAY', wf.where(), '%s: one item inline is encoded like an array of one' % name, ok, how='single %s / array %s via %s' % (s1, a, cls.split('::')[-1]), function=cls,
               key='SINGLE-ARRAY|%s' % name, message='%s: the single-item codec writes shape %s but %s writes %s per item: a field with one item and a field with two items of the same type are encoded by different rules, '
                                                     'so the reader (which chooses the codec from the item count it sees) mis-parses one of them' % (name, s1, cls.split('::')[-1], a))
    # ---------------------------------------------------------------------------------- containers
    for (cls, wn, sn, rn_) in (('muscle::Message', 'Flatten', 'FlattenedSize', 'Unflatten'), ('muscle::String', 'Flatten', 'FlattenedSize', 'Unflatten'), ('muscle::ByteBuffer', 'Flatten', 'FlattenedSize', 'Unflatten'),
                              ('muscle::Point', 'Flatten', 'FlattenedSize', 'Unflatten'), ('muscle::Rect', 'Flatten', 'FlattenedSize', 'Unflatten')):
        try:
            wf, ev = find(fx, cls, wn)
            sf, ev2 = find(fx, cls, sn)
            w = ev.io_bytes(wf, 0)
            sz = ev2.fn_value(sf, {})
            rf, ev3 = find(fx, cls, rn_)
            r = ev3.io_bytes(rf, 0)
        except E.Outside as e:
            raise AnalysisBroken('EFFECT: %s is outside the fragment: %s' % (cls, e))
        res.ob('EFFECT-1', wf.where(), '%s: bytes written by Flatten == FlattenedSize' % cls.split('::')[-1], w == sz, how='both = %s' % E.pstr(w)[:160], function=wf.q, key='EFFECT-1|%s|object' % cls,
               message='%s::Flatten writes %s bytes, FlattenedSize returns %s' % (cls, E.pstr(w), E.pstr(sz)))
        ok, how = reader_agrees(cls, w, r)
        res.ob('EFFECT-2', rf.where(), '%s: Unflatten consumes what Flatten writes' % cls.split('::')[-1], ok, how=how, function=rf.q, key='EFFECT-2|%s|object' % cls,
               message='%s: writer %s, reader %s' % (cls, E.pstr(w), E.pstr(r)))
    table_rule(res, fx, tcs, tcname)
    dispatch_rule(res, fx)
    S.sticky_rule(res, fx, 'STICKY', file_re=r'^(message/|util/String|util/ByteBuffer|support/(Point|Rect|Tuple))', floor=6)
    ring_contiguous_rule(res, fx)
    inline_array_type_rule(res, fx)
    res.rule('NEST-TLS', 'the nesting-depth counter that lets Message::Unflatten refuse over-deep input is thread-local (otherwise concurrent parses of valid Messages fail)', floor=1)
    common.nest_tls_rule(res, fx, 'NEST-TLS', [r'^message/'])
    exact_fit_rule(res, fx)
    min_entry_rule(res, fx)
    checksum_agree_rule(res, fx, tcs, table)
    count_agree_rule(res, fx)
    item_size_at_use_rule(res, fx, tcs)
    restore_only_reads_rule(res, fx)
    equal_by_content_rule(res, fx)
    index_sentinel_rule(res, fx)
    res.explanation = ('Static decision of the size/shape half of C01 by symbolic evaluation (no code is run): a small abstract interpreter over the resolved AST turns every serialiser into a polynomial over '
                       'symbolic counts and sub-object sizes (Write*/Read* widths, for/iterator loops as sums, null/flag tests as alternatives, virtual calls resolved in the concrete class, switch tables evaluated '
                       'under the type-code constraint) and requires exact equality between Flatten and FlattenedSize for all %d array classes, all %d single-item type codes and the five container/value classes; '
                       'reader and writer must have the same wire shape; the switch tables over the type code must handle the same codes. Bit-identity of values, field order and checksum invariance are not decided.'
                       % (len(classes), len(single_shapes)))
    res.assumptions = ['DataFlattener::Write* / DataUnflattener::Read* move exactly the documented number of bytes (widths table in msa/effect.py)',
                       'an inline reference item is never NULL (SetInlineItemAsRefCountableRef rejects NULL)']
    res.not_decided = ['bit-identical item values (NaN payloads etc.)', 'preservation of field order (Hashtable iteration order)', 'checksum / equality invariance']


def norm_single(t):
    t = re.sub(r'SingleGetItemSize\(0\)', 'FS(item)', t)
    t = re.sub(r'FS\([^()]*(\([^()]*\))*[^()]*\)', 'FS(item)', t)
    t = re.sub(r'ALT\{[^}]*\}\(([^|]*)\|0\)', r'\1', t)          # `if (msg)` / `fc ? … : 0` around the inline item (never NULL)
    t = re.sub(r'ALT\{[^}]*\}\(FS\(item\)\|4\)', 'FS(item)', t)
    t = re.sub(r'RD\d+', 'FS(item)', t)
    t = t.replace('REST', 'FS(item)')     # the reader takes all remaining bytes after checking `declared length == bytes available`
    return ' + '.join(sorted(t.split(' + ')))


def shape_single(t):
    if re.match(r'^\d+$', t):
        return ('const', int(t))
    if t == '4 + FS(item)':
        return ('prefix',)
    if t == '8 + FS(item)':
        return ('count+prefix',)
    return ('other', t)


def reader_agrees(cls, w, r):
    ws, rs = E.shape(w), E.shape(r)
    if cls.endswith('::Message'):
        # writer: 12 + Σ_flattenable(12 + name + field); reader: 12 + 12*count + Σ(name + field)
        ok = ws.startswith('12 + SUM{i<N') and '12 + ITEM + ITEM' in ws and rs.replace(' ', '') in ('12+12*N+SUM{i<N}(ITEM+ITEM)', '12+SUM{i<N}(ITEM+ITEM)+12*N')
        return ok, 'writer %s / reader %s' % (ws, rs)
    if cls.endswith('::String'):
        return ('CSTR' in rs and ws.startswith('1 + ')), 'writer Length()+1 bytes incl. NUL / reader reads a NUL-terminated string'
    if cls.endswith('::ByteBuffer'):
        return (rs == 'REST' or 'N' in rs), 'writer all valid bytes / reader takes all remaining bytes'
    cw, cr = E.pconst(w), E.pconst(r)
    return (cw is not None and cw == cr), 'writer %s / reader %s' % (ws, rs)


def case_sets(f):
    out = {}
    for sw in [n for n in f.walk() if n['k'] == 'SwitchStmt']:
        cs = set()
        for c in sw.walk():
            if c['k'] == 'CaseStmt' and 'cv' in c:
                cs.add(c['cv'])
        c0 = A.strip_casts(sw.role('cond'))
        name = c0.get('n') or (c0.get('q') or '').split('::')[-1]
        out.setdefault(name, []).append(cs)
    return out


def table_rule(res, fx, tcs, tcname):
    res.rule('TABLE-1', 'the switch tables over the type code in the single-item codec handle the same set of codes on the write, size, read and set sides; the fixed-size tables agree with each other', floor=4)
    def cases(q, nth=0):
        fs = [f for f in fx.funcs.values() if f.full and f.q == q]
        if not fs:
            raise AnalysisBroken('%s not found' % q)
        cs = case_sets(fs[0])
        tc = [s for k, ss in cs.items() for s in ss if k in ('_typeCode', 'typeCode', 'TypeCode')]
        if not tc:
            raise AnalysisBroken('%s: no switch over the type code' % q)
        return fs[0], tc[nth]
    f1, w = cases(MF + '::SingleFlatten')
    f2, r = cases(MF + '::SingleUnflatten')
    f3, s = cases(MF + '::SingleSetValue')
    names = lambda cs: sorted(tcname.get(c, hex(c)) for c in cs)
    res.ob('TABLE-1', f1.where(), 'SingleFlatten and SingleUnflatten handle the same explicit type codes', w == r, how=str(names(w)), function=f1.q, key='TABLE-1|%s|flatten-vs-unflatten' % MF,
           message='SingleFlatten handles %s, SingleUnflatten handles %s: a type on one side only falls into the other side\'s default (count + length-prefix) codec' % (names(w - r), names(r - w)))
    nf = set([tcs['B_MESSAGE_TYPE'], tcs['B_TAG_TYPE'], tcs['B_POINTER_TYPE']])
    res.ob('TABLE-1', f3.where(), 'SingleSetValue handles every flattenable value type the serialisers special-case', (w - nf) <= s, how=str(names(s)), function=f3.q, key='TABLE-1|%s|setvalue' % MF,
           message='SingleSetValue lacks %s' % names((w - nf) - s))
    # fixed-size tables
    gfs = [f for f in fx.funcs.values() if f.full and f.q.endswith('GetFlattenedSizeForFixedSizeType')]
    ges = [f for f in fx.funcs.values() if f.full and f.q == 'muscle::Message::GetElementSize']
    if gfs and ges:
        a = {}
        for (nm, f) in (('GetFlattenedSizeForFixedSizeType', gfs[0]), ('GetElementSize', ges[0])):
            t = {}
            for name, tc in tcs.items():
                try:
                    ev = E.Evaluator(fx)
                    env = {f.params[0]['d']: E.P(tc)}
                    t[name] = E.pconst(ev.fn_value(f, env))
                except E.Outside as e:
                    raise AnalysisBroken('%s outside fragment: %s' % (nm, e))
            a[nm] = t
        x, y = a['GetFlattenedSizeForFixedSizeType'], a['GetElementSize']
        # GetElementSize speaks about in-memory sizes; what matters for the wire is that it is non-zero exactly where SingleFlattenedSize relies on it
        want = {'B_BOOL_TYPE': 1, 'B_INT8_TYPE': 1, 'B_INT16_TYPE': 2, 'B_INT32_TYPE': 4, 'B_FLOAT_TYPE': 4, 'B_INT64_TYPE': 8, 'B_DOUBLE_TYPE': 8, 'B_POINT_TYPE': 8, 'B_RECT_TYPE': 16}
        bad = {k: x.get(k) for k, v in want.items() if x.get(k) != v}
        miss = sorted(k for k in want if not y.get(k))
        res.ob('TABLE-1', ges[0].where(), 'Message::GetElementSize is non-zero for every fixed-width wire type (SingleFlattenedSize relies on it)', not miss, how=str({k: y[k] for k in want}), function=ges[0].q,
               key='TABLE-1|elementsize-nonzero', message='GetElementSize returns 0 for %s: a single item of that type is sized as a variable-size object' % miss)
        res.ob('TABLE-1', gfs[0].where(), 'GetFlattenedSizeForFixedSizeType gives the documented wire widths (bool 1, int8 1, int16 2, int32/float 4, int64/double 8, point 8, rect 16)', not bad,
               how=str({k: x[k] for k in want}), function=gfs[0].q, key='TABLE-1|wire-widths', message='wire widths deviate: %s' % bad)


def count_agree_rule(res, fx):
    """the entry-count word of a flattened Message counts the entries that Flatten() writes: it is a local counter that is incremented under exactly the guards under which an entry is written
    (same iteration, same IsFlattenable() test) — not a quantity computed some other way that happens to agree for the Messages one has tried"""
    res.rule('COUNT-AGREE', 'Message::Flatten: the value stored into the entry-count word is a local counter whose every increment sits under the same dominating conditions as the write of an entry\'s '
                            'name (so it counts exactly the entries written)', floor=1)
    f = [g for g in fx.funcs.values() if g.full and g.q == 'muscle::Message::Flatten' and g.params and 'DataFlattener' in g.ptype(g.params[0])]
    if not f:
        raise AnalysisBroken('COUNT-AGREE: Message::Flatten(DataFlattener) not found')
    f = f[0]
    # the count word: Export(V, p) with p taken from GetCurrentWritePointer(), else the third WriteInt32
    V = None
    for c in f.walk():
        if c.is_call() and (c.get('q') or '').endswith('EndianConverter::Export') and len(c.args()) >= 2 and any(x.is_call() and (x.get('q') or '').endswith('::GetCurrentWritePointer') for x in A.walk_through_locals(f, c.args()[1])):
            V = c.args()[0]
    if V is None:
        w32 = sorted((c for c in f.walk() if c['k'] == 'CXXMemberCallExpr' and (c.get('q') or '').endswith('DataFlattenerHelper::WriteInt32') and not any(a['k'] in ('ForStmt', 'WhileStmt') for a in c.ancestors())), key=lambda c: c['i'])
        if len(w32) >= 3:
            V = w32[2].args()[0]
    keyw = [c for c in f.walk() if c['k'] == 'CXXMemberCallExpr' and (c.get('q') or '').endswith('::WriteFlatWithLengthPrefix') and any(x.is_call() and (x.get('q') or '').endswith('::GetKey') for a in c.args() for x in a.walk())]
    if V is None or not keyw:
        raise AnalysisBroken('COUNT-AGREE: the entry-count word / the write of an entry name was not found in Message::Flatten')

    def gkeys(n):
        return frozenset((A.render_key(a), t) for (a, t) in G.atoms_at(f, n) if not (a.is_call() and (a.get('q') or '').endswith('::HasData')))
    v0 = A.strip_casts(V)
    ok, how = False, None
    if v0['k'] == 'DeclRefExpr' and v0.get('d') is not None:
        incs = [x for x in f.walk() if x['k'] == 'UnaryOperator' and x.get('op') in ('post++', 'pre++') and A.strip_casts(x['ch'][0]).get('d') == v0['d']]
        incs += [x for x in f.walk() if x['k'] == 'CompoundAssignOperator' and x.get('op') == '+=' and A.strip_casts(x['ch'][0]).get('d') == v0['d'] and A.strip_casts(x['ch'][1]).get('v') == 1]
        others = [x for x in f.walk() if x['k'] in ('BinaryOperator', 'CompoundAssignOperator') and x.get('op') in A.ASSIGN_OPS and A.strip_casts(x['ch'][0]).get('d') == v0['d'] and x not in incs]
        ok = bool(incs) and not others and all(gkeys(i) == gkeys(keyw[0]) for i in incs)
        how = 'counter `%s`, %d increment(s) under %s' % (v0.get('n'), len(incs), sorted(k for (k, t) in gkeys(keyw[0])))
    res.ob('COUNT-AGREE', f.where(V), 'Message::Flatten stores a counter of the entries it wrote into the entry-count word', ok, how=how, function=f.q, key='COUNT-AGREE|%s' % f.q,
           message='Message::Flatten writes `%s` as the number of entries, which is not a counter incremented where an entry is written (under the same IsFlattenable() test): for a Message with a field '
                   'that the two disagree on (e.g. a B_TAG_TYPE field, which is not flattenable either) the header announces more entries than follow and the bytes do not parse back' % V.text(60))


def item_size_at_use_rule(res, fx, tcs):
    """MessageField::GetNumItemsInFlattenedBuffer chooses between the single-item and the array reader from payloadLength / itemSize: the divisor it uses must be the wire width for the
    fixed-width types and 0 (= "ask the payload") for every other type — whatever helper it gets the value from"""
    res.rule('ITEM-SIZE', 'the item size by which MessageField::GetNumItemsInFlattenedBuffer divides the payload length evaluates, for each type code, to the documented wire width of a fixed-width '
                          'type and to 0 for a variable-size type', floor=10)
    fs = [g for g in fx.funcs.values() if g.full and g.q == MF + '::GetNumItemsInFlattenedBuffer']
    if not fs:
        raise AnalysisBroken('ITEM-SIZE: MessageField::GetNumItemsInFlattenedBuffer not found')
    f = fs[0]
    div = [n for n in f.walk() if n['k'] == 'BinaryOperator' and n.get('op') == '/' and A.strip_casts(n['ch'][0]).get('d') in set(p_['d'] for p_ in f.params)]
    if not div:
        raise AnalysisBroken('ITEM-SIZE: no division of the payload length found in GetNumItemsInFlattenedBuffer')
    expr = G.local_init(f, div[0]['ch'][1])
    want = {'B_BOOL_TYPE': 1, 'B_INT8_TYPE': 1, 'B_INT16_TYPE': 2, 'B_INT32_TYPE': 4, 'B_FLOAT_TYPE': 4, 'B_INT64_TYPE': 8, 'B_DOUBLE_TYPE': 8, 'B_POINT_TYPE': 8, 'B_RECT_TYPE': 16}
    for name, tc in sorted(tcs.items()):
        if name in ('B_POINTER_TYPE', 'B_TAG_TYPE', 'B_ANY_TYPE', 'B_OBJECT_TYPE'):
            continue
        try:
            ev = E.Evaluator(fx, consts={'_typeCode': tc})
            val = E.pconst(ev.val(expr, {}))
        except E.Outside as e:
            raise AnalysisBroken('ITEM-SIZE: the divisor `%s` is outside the evaluated fragment for %s: %s' % (expr.text(40), name, e))
        w = want.get(name, 0)
        res.ob('ITEM-SIZE', f.where(div[0]), 'item size used for %s is %d' % (name, w), val == w, how=str(val), function=f.q, key='ITEM-SIZE|%s' % name,
               message='MessageField::GetNumItemsInFlattenedBuffer divides the payload length of a %s field by %s (expected %d): the field is parsed with the wrong reader whenever that quotient is 1 — '
                       'e.g. a string array whose payload is 16..31 bytes long is taken for a single string and the Message is rejected' % (name, val, w))


def restore_only_reads_rule(res, fx):
    """bit-identical restore: the Unflatten() of the fixed-size value classes only reads into its own storage; it does not normalise, clamp or otherwise post-process what it read"""
    res.rule('RESTORE-VERBATIM', 'Point::Unflatten and Rect::Unflatten call nothing on *this except what provides the destination of a Read* call (no normalisation of the value read)', floor=2)
    n = 0
    for f in sorted((g for g in fx.funcs.values() if g.full and re.search(r'^muscle::(Point|Rect)::Unflatten$', g.q)), key=lambda g: (g.file, g.line)):
        n += 1
        reads = [c for c in f.walk() if c['k'] == 'CXXMemberCallExpr' and re.search(r'DataUnflattenerHelper::Read\w+$', c.get('q') or '')]
        in_read_args = set(x['i'] for c in reads for a in c.args() for x in a.walk())
        bad = None
        for c in f.walk():
            if c['k'] == 'CXXMemberCallExpr' and c not in reads and c['i'] not in in_read_args:
                rc = c.receiver()
                if rc is None or A.strip_casts(rc)['k'] == 'CXXThisExpr':
                    g_ = fx.funcs.get(c.get('fn')) if c.get('fn') else None
                    if g_ is None or not g_.const:
                        bad = bad or c
        res.ob('RESTORE-VERBATIM', f.where(bad) if bad is not None else f.where(), '%s only reads' % f.q.split('muscle::')[-1], bad is None and bool(reads), function=f.q, key='RESTORE-VERBATIM|%s' % f.q,
               message='%s calls %s() on the object it has just read: the restored value is post-processed, so items are not restored bit-identically (Rect (0,0,-1,-1) comes back as (-1,-1,0,0); '
                       'equality, checksum and re-serialised bytes change)' % (f.q, (bad.get('q') or '').split('::')[-1] if bad is not None else ''))
    if n < 2:
        raise AnalysisBroken('RESTORE-VERBATIM: Point::Unflatten / Rect::Unflatten not found (%d)' % n)


def index_sentinel_rule(res, fx, rule='INDEX-SENTINEL'):
    """Message keeps its fields in a Hashtable whose slot indices are 8, 16 or 32 bits wide; (uintN)-1 is the "no slot" sentinel, so an N-bit index may serve tables of at most 2^N - 1 slots"""
    res.rule(rule, 'HashtableBase::ComputeTableIndexTypeForTableSize selects the 8-bit (16-bit) slot index only for table sizes whose largest slot number is below the sentinel 255 (65535): '
                   'read from its comparisons `tableSize >= K` / `> K`, the largest size that still gets the narrow index is at most 2^N - 1', floor=1)
    fs = [f for f in fx.funcs.values() if f.full and f.q.endswith('::ComputeTableIndexTypeForTableSize')]
    if not fs:
        raise AnalysisBroken('%s: ComputeTableIndexTypeForTableSize has no analysed body' % rule)
    f = fs[0]
    p0 = f.params[0]['d'] if f.params else None
    ks = []
    for c in f.walk():
        for (l_, op_, r_) in (A.rel_forms(c, True) if c['k'] == 'BinaryOperator' else []):
            if l_['k'] == 'DeclRefExpr' and l_.get('d') == p0 and r_.get('v') is not None and op_ in ('>', '>='):
                ks.append(r_['v'] - 1 if op_ == '>=' else r_['v'])        # largest size that does NOT take the wider index
    ks = sorted(set(ks))
    if len(ks) != 2:
        raise AnalysisBroken('%s: expected two size thresholds in ComputeTableIndexTypeForTableSize, found %s' % (rule, ks))
    ok = ks[0] <= 255 and ks[1] <= 65535
    res.ob(rule, f.where(), 'the narrow slot indices never have to represent their own sentinel', ok, function=f.q, key='%s|thresholds' % rule, how='largest table with 8-bit index: %d slots, with 16-bit index: %d slots' % tuple(ks),
           message='ComputeTableIndexTypeForTableSize gives a table of %d slots the 8-bit index and one of %d slots the 16-bit index: the last slot number equals (uintN)-1, the "no slot" sentinel, so '
                   'the table\'s lists are corrupted — Message::Unflatten sizes the field table to exactly the entry count, so a Message with exactly 256 (65536) fields cannot be parsed back (crash)' % tuple(ks))


def equal_by_content_rule(res, fx, rule='EQ-CONTENT'):
    """a raw buffer comes back from the wire as (length, bytes) and nothing else: equality must not depend on anything the wire does not carry"""
    from msa import guards as G
    res.rule(rule, 'ByteBuffer::operator== ("true iff byte-for-byte the same data") returns false because of what the buffer POINTERS are (null or not) only where the byte count is known to be non-zero: '
                   'an empty buffer that still owns an allocation and an empty buffer that owns none hold the same data, and the second is what the first turns into on the wire', floor=1)
    fs = [f for f in fx.funcs.values() if f.full and f.q == 'muscle::ByteBuffer::operator==']
    if not fs:
        raise AnalysisBroken('%s: ByteBuffer::operator== has no analysed body' % rule)
    f = fs[0]
    ptrs = set(v['d'] for v in f.walk() if v['k'] == 'VarDecl' and v.type().rstrip().endswith('*'))
    n = 0
    for r in f.walk():
        if r['k'] != 'ReturnStmt' or not r['ch'] or A.strip_casts(r['ch'][0]).get('v') != 0:
            continue
        atoms = G.atoms_at(f, r)
        about_ptr = [cn for (cn, t) in atoms if any((x['k'] == 'DeclRefExpr' and x.get('d') in ptrs) or (x.is_call() and (x.get('q') or '').endswith('::GetBuffer')) for x in cn.walk())
                     and not any(x.is_call() and (x.get('q') or '').split('::')[-1] in ('memcmp',) for x in cn.walk())]
        if not about_ptr:
            continue
        n += 1
        nonzero = False
        for (cn, t) in atoms:
            zt = A.zero_test(cn, t)
            if zt is not None and zt[1] is False and any(x.is_call() and (x.get('q') or '').endswith('::GetNumBytes') for x in G.local_init(f, zt[0]).walk()):
                nonzero = True
        res.ob(rule, f.where(r), 'ByteBuffer::operator== line %s: `return false` that depends on the buffer pointers is taken only for non-empty buffers' % r.get('l'), nonzero, function=f.q,
               key='%s|%s|%s' % (rule, f.q, A.render_key(about_ptr[0])),
               message='ByteBuffer::operator== returns false under `%s` without knowing that the byte count is non-zero: two EMPTY buffers compare unequal when exactly one of them still has an '
                       '(unused) allocation — a ByteBuffer that was shrunk to 0 bytes and added to a Message is not == to its own round-tripped copy, so Message::operator== changes over the trip'
                       % about_ptr[0].text(60))
    if n < 1:
        res.info(rule, f.where(), 'no `return false` of ByteBuffer::operator== depends on the buffer pointers')


def dispatch_rule(res, fx):
    res.rule('DISPATCH', 'MessageField::TemplatedFlatten and TemplatedFlattenedSize choose between the array codec and the single-item codec by the same test (HasArray())', floor=1)
    a = [f for f in fx.funcs.values() if f.full and f.q == MF + '::TemplatedFlattenedSize' and len(f.params) == 1 and 'unsigned int' in f.ptype(f.params[0])]
    b = [f for f in fx.funcs.values() if f.full and f.q == MF + '::TemplatedFlatten' and len(f.params) == 2 and 'DataFlattener' in f.ptype(f.params[0])]
    if not a or not b:
        raise AnalysisBroken('MessageField::TemplatedFlatten/TemplatedFlattenedSize(maxItems) not found')
    def dispatch(f, arr, single):
        for n in f.walk():
            if n['k'] in ('ConditionalOperator', 'IfStmt'):
                c = A.strip_casts(n['ch'][0] if n['k'] == 'ConditionalOperator' else n.role('cond'))
                if c.is_call() and (c.get('q') or '').endswith('::HasArray'):
                    t = n['ch'][1] if n['k'] == 'ConditionalOperator' else n.role('then')
                    e = n['ch'][2] if n['k'] == 'ConditionalOperator' else n.role('else')
                    if t is None or e is None:
                        return False
                    return any((x.get('q') or '').endswith(arr) for x in t.walk() if x.is_call()) and any((x.get('q') or '').endswith(single) for x in e.walk() if x.is_call())
        return False
    ok = dispatch(a[0], '::TemplatedFlattenedSize', '::SingleFlattenedSize') and dispatch(b[0], '::TemplatedFlatten', '::SingleFlatten')
    res.ob('DISPATCH', a[0].where(), 'size and write side dispatch on HasArray() to (array codec | single-item codec)', ok, function=a[0].q, key='DISPATCH|%s' % MF,
           message='MessageField no longer selects the array / single-item codec by the same HasArray() test on the size side and the write side')
