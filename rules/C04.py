"""C04  A subscriber's mirror of the node tree converges to the server's tree.
NOTIFY-PAIR (every node mutation is announced, in the order that keeps the subscriber marks valid), SUBSCRIBE-PAIR (subscription table
and per-node reference marks change together, with opposite deltas), FLUSH-ORDER, DELIVERY.  DESIGN.md section 4 (C04)."""
import re
from msa import pair as P
from msa import ast as A
from msa import cfg as C
from msa.taint import P_canon
from msa.facts import AnalysisBroken
from . import common
from .C06 import SRS

DN = 'muscle::DataNode'


def field_writes(f, field):
    out = []
    for n in f.walk():
        if n['k'] == 'BinaryOperator' and n.get('op') == '=':
            l = A.strip_casts(n['ch'][0])
            if l['k'] == 'MemberExpr' and l.get('n') == field and A.is_this_member(l):
                out.append(n)
        elif n['k'] == 'CXXOperatorCallExpr' and (n.get('q') or '').endswith('::operator=') and len(n['ch']) >= 3:
            l = A.strip_casts(n['ch'][1])
            if l['k'] == 'MemberExpr' and l.get('n') == field and A.is_this_member(l):
                out.append(n)
    return out


def traversal_delta(f, call):
    """constant delta of the SubscribeRefCallbackArgs local handed to a DoSubscribeRefCallback traversal"""
    ud = call.args()[4] if len(call.args()) > 4 else None
    if ud is None:
        return None
    for x in ud.walk():
        if x['k'] == 'DeclRefExpr' and 'd' in x:
            for v in f.walk():
                if v['k'] == 'VarDecl' and v['d'] == x['d'] and v['ch']:
                    for y in v['ch'][0].walk():
                        if 'v' in y and isinstance(y['v'], int) and y['k'] not in ('CXXDefaultArgExpr',):
                            return y['v']
    return None


def matcher_path_arg(f, call):
    """the path string given to temp.PutPathString(...) for the NodePathMatcher local on which DoTraversal is called"""
    r = call.receiver()
    if r is None:
        return None
    rl = A.root_loc(r)
    for n in f.walk():
        if n['k'] == 'CXXMemberCallExpr' and (n.get('q') or '').endswith('PathMatcher::PutPathString') and n.receiver() is not None and A.root_loc(n.receiver()) == rl:
            return n.args()[0]
    return None


def filter_replace_rule(res, fx):
    """PathMatcher::PutPathsFromMessage: a filter archive found for path i ALWAYS replaces the filter carried over from the previous path (the server adds an empty dummy archive for an
    unfiltered subscription precisely to stop the previous filter from bleeding down)"""
    f = fx.fn1('muscle::PathMatcher::PutPathsFromMessage')
    puts = [c for c in f.walk() if c.is_call() and (c.get('q') or '').endswith('PathMatcher::PutPathFromString') and len(c.args()) >= 2]
    finds = [c for c in f.walk() if c.is_call() and (c.get('q') or '').endswith('Message::FindMessage')]
    if not puts or not finds:
        raise AnalysisBroken('SUBSCRIBE-PAIR: PutPathsFromMessage: FindMessage / PutPathFromString not found')
    fv = A.strip_casts(puts[0].args()[1])
    ok = False
    if fv['k'] == 'DeclRefExpr' and fv.get('d') is not None:
        asg = [w for w in f.walk() if (w['k'] == 'BinaryOperator' and w.get('op') == '=' and A.strip_casts(w['ch'][0]).get('d') == fv['d']) or
               (w['k'] == 'CXXOperatorCallExpr' and (w.get('q') or '').endswith('operator=') and len(w['ch']) >= 3 and A.strip_casts(w['ch'][1]).get('d') == fv['d'])]
        # on the OK edge of FindMessage every path to the PutPathFromString call passes an assignment of the filter variable
        ok = bool(asg)
        for fm in finds:
            for blk in f.blocks.values():
                if blk.cond is None or blk.cond not in f.nodes or len(blk.succ) != 2:
                    continue
                cn = f.nodes[blk.cond]
                n0, pol = P.strip_not(cn, True)
                k_ = P.is_status_test(n0)
                if k_ is None or fm not in list(n0.walk()):
                    continue
                okedge = 0 if ((k_ == 'ok') == pol) else 1
                tgt = blk.succ[okedge]
                aps = set(p_ for p_ in (P.pos_of(f, w) for w in asg) if p_)
                if tgt is not None and tgt >= 0 and C.can_reach(f, (tgt, -1), set([P.pos_of(f, puts[0])]), avoid_points=aps):
                    ok = False
    res.ob('SUBSCRIBE-PAIR', f.where(puts[0]), 'PutPathsFromMessage: a filter archive found for a path always replaces the filter carried over from the previous path', ok, function=f.q,
           key='SUBSCRIBE-PAIR|%s|filter-replace' % f.q,
           message='PutPathsFromMessage can reach PutPathFromString() on the found-an-archive edge without assigning the filter variable: the (empty) archive that marks a subscription as unfiltered '
                   'no longer stops the previous path\'s filter, so the initial snapshot of the unfiltered subscription is computed with that filter and nodes failing it are never sent')


def subscribe_pair_rule(res, fx, rule='SUBSCRIBE-PAIR', only=None):
    """subscription table and per-node marks move together; only='Remove' restricts the obligations to the removal side (C06: a departed subscription leaves no mark)"""
    res.rule(rule, 'every successful _subscriptions.PutPathString(p, …) is paired with a +1 DoSubscribeRefCallback traversal over a matcher for the same path p, every successful '
                               'RemovePathString(p) with a -1 traversal for p, Cleanup with the remove-all delta; NodeCreated derives a new node\'s mark from _subscriptions.GetMatchCount', floor=3 if only is None else 1)
    srs = [f for f in fx.funcs.values() if f.full and (f.cls or '') == SRS]
    n_sub = 0
    for f in sorted(srs, key=lambda f: f.line):
        for c in f.walk():
            if c['k'] != 'CXXMemberCallExpr' or c.receiver() is None or A.strip_casts(c.receiver()).get('q') != SRS + '::_subscriptions':
                continue
            m = (c.get('q') or '').split('::')[-1]
            if m not in ('PutPathString', 'RemovePathString', 'PutPathsFromMessage', 'RemovePathsFromMessage', 'Clear', 'PutPathFromString'):
                continue
            if only is not None and not m.startswith(only):
                continue
            n_sub += 1
            want = +1 if m.startswith('Put') else -1
            key = '%s|%s|%s' % (rule, f.q, m)
            if m not in ('PutPathString', 'RemovePathString'):
                res.ob(rule, f.where(c), '%s on _subscriptions in %s is paired with a marks traversal' % (m, f.q.split('::')[-1]), False, function=f.q, key=key,
                       message='%s changes the subscription table through %s, for which no per-path marks traversal exists' % (f.q, m))
                continue
            trs = [t for t in P.calls(f, r'NodePathMatcher::DoTraversal$') if any(x.get('n') == 'DoSubscribeRefCallbackFunc' for x in t.args()[0].walk())]
            good = []
            why = []
            for t in trs:
                d = traversal_delta(f, t)
                pa = matcher_path_arg(f, t)
                if d != want:
                    why.append('traversal at line %s uses delta %s, expected %+d' % (t.get('l'), d, want))
                    continue
                if pa is None or P_canon(pa) != P_canon(c.args()[0]):
                    why.append('traversal at line %s walks `%s`, subscription path is `%s`' % (t.get('l'), pa.text() if pa is not None else '?', c.args()[0].text()))
                    continue
                good.append(t)
            ok, path = P.must_follow(f, c, good, escapes=P.escape_edges(f)) if good else (False, None)
            res.ob(rule, f.where(c), '%s(%s) in %s is followed by the %+d marks traversal for the same path' % (m, c.args()[0].text(30), f.q.split('::')[-1], want), ok,
                   how='DoSubscribeRefCallback traversal at line %s with delta %+d' % (good[0].get('l'), want) if good else None, function=f.q, key=key,
                   message='%s: %s(%s) succeeds but %s: the per-node subscriber marks no longer agree with the subscription table, so updates are missed or sent forever'
                           % (f.q, m, c.args()[0].text(40), '; '.join(why) if why and not good else 'a path skips the matching marks traversal'))
    if n_sub < (2 if only is None else 1):
        raise AnalysisBroken(rule + ': only %d subscription-table mutations found' % n_sub)


def run(res, tier):
    fx = common.load_units(res, ['reflector/StorageReflectSession.cpp', 'reflector/DataNode.cpp', 'regex/PathMatcher.cpp'], fn_regex=r'^muscle::(StorageReflectSession|DataNode|PathMatcher|ImmutableHashtablePool)')
    res.functions_analysed = sum(1 for f in fx.funcs.values() if f.full)
    # ---------------------------------------------------------------------------------- NOTIFY-PAIR
    res.rule('NOTIFY-PAIR', 'DataNode: every write of _data is followed by NotifySubscribersThatNodeChanged unless the notify-with session is NULL; PutChild attaches (SetParent => marks are computed) '
                            'before it announces the change; SetParent announces a newly attached node; RemoveChild announces the removal before SetParent(NULL) clears the marks and before the child is dropped', floor=5)
    # (a) writers of _data
    nw = 0
    for f in sorted((f for f in fx.funcs.values() if f.full and f.cls == DN), key=lambda f: f.line):
        ws = field_writes(f, '_data')
        if not ws or f.q.endswith('(ctor)') or f.q.endswith('::Reset') or f.q.endswith('::Init') or f.q.endswith('(dtor)'):
            continue
        esc = P.escape_edges(f)
        nots = [c for c in P.calls(f, r'::NotifySubscribersThatNodeChanged$')
                if c.args() and A.strip_casts(c.args()[0])['k'] == 'UnaryOperator' and A.strip_casts(A.strip_casts(c.args()[0])['ch'][0])['k'] == 'CXXThisExpr']
        for w in ws:
            nw += 1
            ok, path = P.must_follow(f, w, nots, escapes=esc) if nots else (False, None)
            res.ob('NOTIFY-PAIR', f.where(w), 'write of DataNode::_data in %s is followed by NotifySubscribersThatNodeChanged(*this, …)' % f.q.split('::')[-1], ok,
                   how='notification at line %s on every non-quiet path' % (nots[0].get('l') if nots else '?'), function=f.q, key='NOTIFY-PAIR|%s|_data' % f.q,
                   message='%s changes the node payload but a path reaches the function exit without NotifySubscribersThatNodeChanged(*this, …): subscribers keep the stale payload' % f.q)
    if nw < 1:
        raise AnalysisBroken('no writer of DataNode::_data found outside constructors')
    # the "old payload" handed to the notification is read from _data BEFORE _data is overwritten (NodeChanged decides matched-before from it)
    f = fx.fn1(DN + '::SetData')
    ws = field_writes(f, '_data')
    nots = P.calls(f, r'::NotifySubscribersThatNodeChanged$')
    okc = bool(ws) and bool(nots)
    howc = None
    for c in nots:
        if len(c.args()) < 2:
            okc = False
            continue
        old = A.strip_casts(c.args()[1])
        if old['k'] != 'DeclRefExpr' or 'd' not in old:
            okc = False
            continue
        caps = []      # statements that copy _data into the local
        for n in f.walk():
            rhs = None
            if n['k'] == 'VarDecl' and n.get('d') == old['d'] and n['ch']:
                rhs = n['ch'][0]
            elif n['k'] == 'CXXOperatorCallExpr' and (n.get('q') or '').endswith('::operator=') and len(n['ch']) >= 3 and A.strip_casts(n['ch'][1]).get('d') == old['d']:
                rhs = n['ch'][2]
            elif n['k'] == 'BinaryOperator' and n.get('op') == '=' and A.strip_casts(n['ch'][0]).get('d') == old['d']:
                rhs = n['ch'][1]
            if rhs is not None and any(x['k'] == 'MemberExpr' and x.get('n') == '_data' and A.is_this_member(x) for x in rhs.walk()):
                caps.append(n)
        if not caps:
            okc = False
            howc = 'the old-payload argument `%s` is never loaded from _data' % old.text()
            continue
        for w in ws:
            wp = P.pos_of(f, w)
            for cp in caps:
                # the capture must not be reachable from the overwrite
                cpp = P.pos_of(f, cp)
                if wp is not None and cpp is not None and ((wp[0] == cpp[0] and wp[1] < cpp[1]) or C.can_reach(f, wp, set([cpp]))):
                    okc = False
                    howc = '`%s` is loaded from _data at line %s, after _data was overwritten at line %s' % (old.text(), cp.get('l'), w.get('l'))
    res.ob('NOTIFY-PAIR', f.where(), 'SetData captures the old payload from _data before overwriting it and passes that capture to the notification', okc, how=howc or 'capture precedes the overwrite', function=f.q,
           key='NOTIFY-PAIR|%s|old-payload' % f.q,
           message='DataNode::SetData: %s: NodeChanged computes "matched before" from the new payload, so a node that leaves a filtered subscription is never reported as removed' % (howc or 'old payload not captured'))
    # outside DataNode nobody writes _data
    ext = []
    for f in fx.funcs.values():
        if f.full and f.cls != DN:
            for n in f.walk():
                if n['k'] == 'MemberExpr' and n.get('q') == DN + '::_data':
                    p = n.parent
                    if p is not None and ((p['k'] == 'BinaryOperator' and p.get('op') == '=' and p['ch'][0] is n) or
                                          (p['k'] == 'CXXOperatorCallExpr' and (p.get('q') or '').endswith('operator=') and len(p['ch']) > 1 and p['ch'][1] is n)):
                        ext.append(f.where(n))
    res.ob('NOTIFY-PAIR', 'reflector/DataNode.h', 'no function outside DataNode writes DataNode::_data', not ext, how='0 external writes', function=DN + '::_data',
           key='NOTIFY-PAIR|%s::_data|external-write' % DN, message='DataNode::_data is written outside DataNode at %s, bypassing the notifying SetData()' % ext[:2])
    # (b) PutChild
    f = fx.fn1(DN + '::PutChild')
    sp = [c for c in P.calls(f, r'^muscle::DataNode::SetParent$') if c.args() and A.strip_casts(c.args()[0])['k'] == 'CXXThisExpr']
    nt = P.calls(f, r'::NotifySubscribersThatNodeChanged$')
    put = [c for c in P.calls(f, r'Hashtable(Base|Mid)?::Put$') if any(x.get('n') == '_children' for x in c.walk())]
    ok = bool(sp) and bool(nt) and bool(put) and all(P.must_precede(f, sp, n) for n in nt) and all(P.must_precede(f, sp, p) for p in put) and all(P.must_precede(f, put, n) for n in nt)
    res.ob('NOTIFY-PAIR', f.where(), 'PutChild: SetParent(this, …) precedes _children->Put, which precedes the changed-notification', ok, function=f.q,
           how='SetParent line %s < Put line %s < notify line %s' % (sp[0].get('l') if sp else '?', put[0].get('l') if put else '?', nt[0].get('l') if nt else '?'),
           key='NOTIFY-PAIR|%s|order' % f.q,
           message='DataNode::PutChild can announce a new/overwritten node before it is attached (SetParent computes the subscriber marks the announcement walks): the first update for a new node is lost')
    # (c) SetParent
    f = fx.fn1(DN + '::SetParent')
    nn = [c for c in P.calls(f, r'::NotifySubscribersOfNewNode$')]
    dw = [w for w in field_writes(f, '_depth') if any(x['k'] == 'MemberExpr' and x.get('n') == '_depth' for x in (w['ch'][1] if w['k'] == 'BinaryOperator' else w['ch'][2]).walk())]
    ok = bool(nn) and bool(dw)
    if ok:
        okf, path = P.must_follow(f, dw[0], nn, escapes=P.escape_edges(f))
        ok = okf
    res.ob('NOTIFY-PAIR', f.where(), 'SetParent: attaching below a parent is followed by NotifySubscribersOfNewNode(*this) unless quiet', ok, function=f.q,
           how='NotifySubscribersOfNewNode at line %s' % (nn[0].get('l') if nn else '?'), key='NOTIFY-PAIR|%s|new-node' % f.q,
           message='DataNode::SetParent no longer lets every session compute its subscription marks for a newly attached node: existing subscriptions never see nodes created later')
    rs = [c for c in f.walk() if c['k'] == 'CXXMemberCallExpr' and (c.get('q') or '').endswith('::Reset') and c.receiver() is not None and A.strip_casts(c.receiver()).get('n') == '_subscribers']
    # (d) RemoveChild
    f = fx.fn1(DN + '::RemoveChild')
    nt = [c for c in P.calls(f, r'::NotifySubscribersThatNodeChanged$')]
    flagged = []
    isrem = fx.enum_const('NODE_CHANGE_FLAG_ISBEINGREMOVED')
    for c in nt:
        if any(x.get('v') == isrem and x.get('n') == 'NODE_CHANGE_FLAG_ISBEINGREMOVED' for x in c.walk()):
            flagged.append(c)
    spn = [c for c in P.calls(f, r'^muscle::DataNode::SetParent$') if c.args() and (c.args()[0].get('v') == 0 or A.strip_casts(c.args()[0])['k'] in ('GNUNullExpr', 'CXXNullPtrLiteralExpr'))]
    drop = [c for c in P.calls(f, r'Hashtable(Base|Mid)?::Remove$') if any(x.get('n') == '_children' for x in c.walk())]
    esc = P.escape_edges(f)
    ok = bool(flagged) and bool(spn) and bool(drop) and all(P.must_precede(f, flagged, s, esc) for s in spn) and all(P.must_precede(f, spn, d, esc) for d in drop)
    res.ob('NOTIFY-PAIR', f.where(), 'RemoveChild: removal notification (ISBEINGREMOVED) precedes SetParent(NULL), which precedes _children->Remove', ok, function=f.q,
           how='notify line %s < SetParent(NULL) line %s < Remove line %s' % (flagged[0].get('l') if flagged else '?', spn[0].get('l') if spn else '?', drop[0].get('l') if drop else '?'),
           key='NOTIFY-PAIR|%s|order' % f.q,
           message='DataNode::RemoveChild no longer announces the removal (with NODE_CHANGE_FLAG_ISBEINGREMOVED) before SetParent(NULL) resets the subscriber table that the announcement walks: subscribers keep a node that no longer exists')

    # ---------------------------------------------------------------------------------- SUBSCRIBE-PAIR
    subscribe_pair_rule(res, fx)
    from . import srs_shared as _SH0
    _SH0.same_key_rule(res, fx, 'SUBSCRIBE-PAIR')
    f = fx.fn1(SRS + '::NodeCreated')
    ok = False
    for c in f.walk():
        if c.is_call() and (c.get('q') or '') == SRS + '::GetDataNodeSubscribersTableFromPool' and len(c.args()) > 2:
            d = A.strip_casts(c.args()[2])
            if d['k'] == 'CXXMemberCallExpr' and (d.get('q') or '').endswith('::GetMatchCount') and d.receiver() is not None and A.strip_casts(d.receiver()).get('q') == SRS + '::_subscriptions':
                nodearg = A.strip_casts(d.args()[0]) if d.args() else None
                # marks are placed per path, independent of node content: no payload is handed to the matcher (a filter would make the mark depend on the node's first payload)
                a1 = A.strip_casts(d.args()[1]) if len(d.args()) > 1 else None
                nodata = a1 is not None and (a1['k'] in ('GNUNullExpr', 'CXXNullPtrLiteralExpr') or a1.get('v') == 0)
                ok = nodearg is not None and nodearg.get('d') == f.params[0]['d'] and nodata
    res.ob('SUBSCRIBE-PAIR', f.where(), 'NodeCreated marks a new node with _subscriptions.GetMatchCount(newNode, …)', ok, function=f.q, key='SUBSCRIBE-PAIR|%s|matchcount' % f.q,
           how='delta = _subscriptions.GetMatchCount(newNode, NULL, 0)',
           message='NodeCreated no longer derives the new node\'s subscription mark from the number of this session\'s subscriptions that match its PATH (node, no payload): with a payload the '
                   'filters are applied, a node whose first payload fails a filter is never marked, and later updates that pass the filter are not sent to the subscriber')
    # the shared subscriber tables (rules shared with C06)
    from . import srs_shared as _SH
    _SH.cow_exact_rule(res, fx, 'SUBSCRIBE-PAIR')
    _SH.cache_hit_compares_content_rule(res, fx, 'SUBSCRIBE-PAIR')
    filter_replace_rule(res, fx)

    # ---------------------------------------------------------------------------------- FLUSH-ORDER / DELIVERY
    res.rule('FLUSH-ORDER', 'NodeChangedAux: a removal for a path that is already present as a set in the pending update Message is preceded by PushSubscriptionMessages(); '
                            'UpdateSubscriptionMessage encodes removals under PR_NAME_REMOVED_DATAITEMS and sets as a Message field named by the node path', floor=2)
    f = fx.fn1(SRS + '::NodeChangedAux')
    rem_updates = [c for c in P.calls(f, r'::UpdateSubscriptionMessage$') if len(c.args()) > 2
                   and not any(x['k'] in ('DeclRefExpr', 'MemberExpr') for x in c.args()[2].walk())]     # third argument is an empty MessageRef(): the removal form
    ok = False
    how = None
    for u in rem_updates:
        for (cn, truth) in [(f.nodes[c], t) for (c, t) in C.guards_of_block(f, P.pos_of(f, u)[0])]:
            if cn.is_call() and (cn.get('q') or '') == 'muscle::Message::HasName' and not truth:
                ok = True
                how = 'removal entry is added only when %s is false; otherwise PushSubscriptionMessages() runs first' % cn.text(60)
    rec = [c for c in P.calls(f, r'::NodeChangedAux$')]
    push = P.calls(f, r'::PushSubscriptionMessages$')
    ok2 = bool(rec) and all(P.must_precede(f, push, r) for r in rec)
    # path form: once `pending->HasName(path, B_MESSAGE_TYPE)` has evaluated to true, the removal entry cannot be appended to the same pending Message without a flush in between
    # (an extra conjunct after the HasName test opens exactly such a path)
    pushpts = set(p for p in (P.pos_of(f, c) for c in push) if p)
    for u in rem_updates:
        up = P.pos_of(f, u)
        for blk in f.blocks.values():
            if blk.cond is None or blk.cond not in f.nodes or len(blk.succ) != 2:
                continue
            cn, pol = P.strip_not(f.nodes[blk.cond])
            if cn.is_call() and (cn.get('q') or '') == 'muscle::Message::HasName' and cn.args() and len(u.args()) > 1 and P_canon(cn.args()[0]) == P_canon(u.args()[1]):
                s_true = blk.succ[0 if pol else 1]
                if s_true is not None and s_true >= 0 and up is not None and (s_true == up[0] and not any(p[0] == s_true and p[1] < up[1] for p in pushpts)
                                                                               or C.can_reach(f, (s_true, -1), set([up]), avoid_points=pushpts)):
                    ok = False
                    how = 'the removal entry at line %s is reachable from the true edge of %s (line %s) without PushSubscriptionMessages()' % (u.get('l'), cn.text(50), cn.get('l'))
    res.ob('FLUSH-ORDER', f.where(), 'NodeChangedAux flushes the pending update before queuing a removal for a path it already carries as a set', ok and ok2, how=how, function=f.q,
           key='FLUSH-ORDER|%s|remove-after-set' % f.q,
           message='NodeChangedAux can put a removal and a set of the same path into one update Message; clients apply removals first, so the node reappears in the mirror')
    f = fx.fn1(SRS + '::UpdateSubscriptionMessage')
    ok = False
    for n in f.walk():
        if n['k'] == 'ConditionalOperator':
            t, e = A.strip_casts(n['ch'][1]), A.strip_casts(n['ch'][2])
            tq = [x.get('q') for x in t.walk() if x.is_call()]
            eq = [x.get('q') for x in e.walk() if x.is_call()]
            if 'muscle::Message::AddMessage' in tq and 'muscle::Message::AddString' in eq:
                ok = True
    res.ob('FLUSH-ORDER', f.where(), 'UpdateSubscriptionMessage: payload present => AddMessage(nodePath, payload); absent => AddString(PR_NAME_REMOVED_DATAITEMS, nodePath)', ok, function=f.q,
           key='FLUSH-ORDER|%s|encoding' % f.q, message='UpdateSubscriptionMessage no longer encodes sets as Message fields and removals as removed-items strings')
    res.rule('DELIVERY', 'NotifySubscribersThatNodeChanged calls NodeChanged on every subscriber of the node except the originator unless reflect-to-self; NodeChanged applies the filter enter/leave logic before NodeChangedAux', floor=1)
    f = fx.fn1(SRS + '::NotifySubscribersThatNodeChanged')
    nc = P.calls(f, r'::NodeChanged$')
    loops = [n for n in f.walk() if n['k'] == 'ForStmt' and any((x.get('q') or '').endswith('::GetSubscribers') for x in n.walk())]
    ok = bool(nc) and bool(loops) and all(any(nc0 in list(l.walk()) for l in loops) for nc0 in nc)
    res.ob('DELIVERY', f.where(), 'NotifySubscribersThatNodeChanged iterates the node\'s subscriber table and calls NodeChanged inside the loop', ok, function=f.q, key='DELIVERY|%s|loop' % f.q,
           message='NotifySubscribersThatNodeChanged no longer visits every subscriber of the modified node')
    from . import srs_shared as SS
    from .C05 import match_recheck_rule
    SS.setfilter_order_rule(res, fx, 'SUBSCRIBE-PAIR')
    SS.raw_from_ref_rule(res, fx, 'SUBSCRIBE-PAIR')
    SS.subscribe_traversal_nofilter_rule(res, fx, 'SUBSCRIBE-PAIR')
    # ---- LEAVE-ALL: "holds exactly the nodes that match its subscriptions": a node leaves the mirror only when NO subscription matches it any more
    from msa import guards as G
    res.rule('LEAVE-ALL', 'where a StorageReflectSession method itself raises NODE_CHANGE_FLAG_ISBEINGREMOVED for a node that stays in the tree (SetBit / a NodeChangeFlags value built from it), that point is '
                          'reached only where `_subscriptions.MatchesNode(node, …)` — the test over ALL subscriptions of the session — was evaluated and found false', floor=2)
    n_la = 0
    for g in sorted((g for g in fx.funcs.values() if g.full and g.q.startswith(SRS + '::')), key=lambda g: (g.file, g.line)):
        for x in g.walk():
            if x['k'] != 'DeclRefExpr' or x.get('n') != 'NODE_CHANGE_FLAG_ISBEINGREMOVED':
                continue
            ctx = None
            for a in x.ancestors():
                if a.is_call() and (a.get('q') or '').split('::')[-1] in ('IsBitSet', 'AreAnyOfTheseBitsSet', 'AreAllOfTheseBitsSet'):
                    ctx = 'test'
                    break
                if a.is_call() and (a.get('q') or '').split('::')[-1] in ('SetBit', 'SetBits', 'WithBit', 'WithBits'):
                    ctx = 'raise'
                    break
                if a['k'] in ('CXXConstructExpr', 'CXXTemporaryObjectExpr', 'CXXFunctionalCastExpr') and 'BitChord' in (a.type() or '') + (a.get('q') or ''):
                    ctx = 'raise'
                    break
            if ctx != 'raise':
                continue
            n_la += 1
            okm = False
            for (cn, t) in G.atoms_at(g, x):
                core, pol = A.bool_polarity(cn, t)
                if pol is False and core.is_call() and (core.get('q') or '').endswith('::MatchesNode') and core.receiver() is not None and A.strip_casts(core.receiver()).get('n') == '_subscriptions':
                    okm = True
            res.ob('LEAVE-ALL', g.where(x), '%s line %s: the removed-flag is raised only where no subscription of the session matches the node' % (g.q.split('::')[-1], x.get('l')), okm, function=g.q,
                   key='LEAVE-ALL|%s' % g.q,
                   message='%s tells the subscriber that a node has left its mirror (NODE_CHANGE_FLAG_ISBEINGREMOVED) without having asked `_subscriptions.MatchesNode()` whether another subscription of the '
                           'same session still matches it: S subscribes to /*/*/n* and /*/*/*1, then changes the filter of the first to (v > 10): the server sends "removed: n1" for n1{v=5} although '
                           'SUBSCRIBE:/*/*/*1 still matches it, and nothing re-sends the node — the mirror misses a matching node at quiescence' % g.q)
    if n_la < 2:
        raise AnalysisBroken('LEAVE-ALL: only %d places raise NODE_CHANGE_FLAG_ISBEINGREMOVED in StorageReflectSession' % n_la)
    from .C05 import clause_lookup_rules
    clause_lookup_rules(res, fx, 'DELIVERY')        # the snapshot and the mark traversals use the literal-lookup fast path: it must name the nodes the patterns match
    match_recheck_rule(res, fx, 'DELIVERY')       # the initial fetch after a subscription uses the same traversal: conspiring patterns put unsubscribed nodes into the mirror
    # ---------------------------------------------------------------------------------- round 5: COUNT-DECIDES
    res.rule('COUNT-DECIDES', 'GetDataNodeSubscribersTableFromPool: the session\'s entry is taken out of a node\'s subscriber table (GetWithRemove) only under a test of the very count that would '
                              'otherwise be stored (GetWithPut\'s count argument): a session with several matching subscriptions keeps its mark until the last one goes', floor=1)
    gf = [g for g in fx.funcs.values() if g.full and g.q == SRS + '::GetDataNodeSubscribersTableFromPool']
    if not gf:
        raise AnalysisBroken('COUNT-DECIDES: GetDataNodeSubscribersTableFromPool has no analysed body')
    gf = gf[0]
    puts5 = P.calls(gf, r'::GetWithPut$')
    rems5 = P.calls(gf, r'::GetWithRemove$')
    if not puts5 or not rems5:
        raise AnalysisBroken('COUNT-DECIDES: GetWithPut / GetWithRemove not found')
    cnt = set(x.get('d') for pc in puts5 if len(pc.args()) >= 3 for x in pc.args()[2].walk() if x['k'] == 'DeclRefExpr' and x.get('d') is not None)      # GetWithPut(table, key, VALUE, …)
    if not cnt:
        raise AnalysisBroken('COUNT-DECIDES: the count argument of GetWithPut is not a local')
    for (i5, rc) in enumerate(rems5):
        from msa import guards as G5
        reads = set()
        for (a_, t_) in G5.atoms_at(gf, rc):
            for x in a_.walk():
                if x['k'] == 'DeclRefExpr' and x.get('d') is not None:
                    reads.add(x['d'])
        ok5 = bool(cnt & reads)
        res.ob('COUNT-DECIDES', gf.where(rc), 'the entry is removed only where the new count was tested', ok5, function=gf.q, key='COUNT-DECIDES|%s|%d' % (gf.q, i5),
               message='GetDataNodeSubscribersTableFromPool removes the session\'s entry without testing the count it has just computed: dropping ONE of two overlapping subscriptions of a session takes '
                       'its mark off every node both match, so overwrites and removals of those nodes are never reported to it again although a subscription still matches (the mirror keeps stale '
                       'payloads and removed nodes)')
    res.explanation = ('Static decision of the structural half of subscriber convergence: payload writes, attachment and removal of nodes are each paired with the notification that tells subscribers, in the order '
                       'that keeps the per-node subscriber marks valid while the notification walks them; the subscription table and the per-node reference marks are changed together with opposite, path-identical '
                       'traversals (+1 / -1 / remove-all); a removal is never queued behind a set of the same path in one update. Convergence over histories, filter enter/leave semantics and batching are not decided.')
    res.assumptions = ['the traversal with DoSubscribeRefCallback visits exactly the nodes matching the matcher\'s path', 'clients apply removals before sets within one update (protocol documentation)']
    res.not_decided = ['convergence of the mirror over arbitrary command histories', 'QueryFilter enter/leave logic in NodeChanged', 'update batching limits']
